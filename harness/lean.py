"""Talk to the compiled Lean driver (lean/.lake/build/bin/driver) and move numbers across.

Numbers:
  exact mode : python int / fractions.Fraction  <->  JSON int or "p/q"
  float mode : python float                      <->  16 hex digits of the IEEE-754 bits
  missing    : None / NaN                        <->  null
"""
import json
import math
import os
import struct
import subprocess
from fractions import Fraction

HERE = os.path.dirname(os.path.abspath(__file__))
LEAN_DIR = os.path.normpath(os.path.join(HERE, '..', 'lean'))
DRIVER = os.path.join(LEAN_DIR, '.lake', 'build', 'bin', 'driver')


def rat(x):
    """encode an exact number (int, Fraction, or a float that is exactly dyadic)"""
    if x is None:
        return None
    if isinstance(x, float):
        if math.isnan(x):
            return None
        x = Fraction(x)
    if hasattr(x, 'item'):
        x = x.item()
        return rat(x)
    x = Fraction(x)
    if x.denominator == 1:
        return int(x.numerator)
    return f'{x.numerator}/{x.denominator}'


def unrat(j):
    if j is None:
        return None
    if isinstance(j, str):
        return Fraction(j)
    return Fraction(j)


def fbits(x):
    if x is None:
        return None
    x = float(x)
    if math.isnan(x):
        return None
    return struct.pack('>d', x).hex()


def unfbits(j):
    if j is None:
        return float('nan')
    if isinstance(j, (int, float)):
        return float(j)
    return struct.unpack('>d', bytes.fromhex(j))[0]


def deep(f, x):
    if isinstance(x, (list, tuple)):
        return [deep(f, y) for y in x]
    if hasattr(x, 'tolist') and getattr(x, 'ndim', 0) > 0:
        return [deep(f, y) for y in x.tolist()]
    return f(x)


class DriverError(Exception):
    pass


class Driver:
    """One driver process; ask_many() pipes a batch and reads the same number of lines."""

    def __init__(self, path=DRIVER):
        if not os.path.exists(path):
            raise DriverError(f'driver binary missing: {path} (run `lake build driver`)')
        self.path = path
        self.requests = 0

    def ask_many(self, reqs):
        if not reqs:
            return []
        data = '\n'.join(json.dumps(r, separators=(',', ':')) for r in reqs) + '\n'
        p = subprocess.run([self.path], input=data.encode(), stdout=subprocess.PIPE,
                           stderr=subprocess.PIPE, timeout=1800)
        lines = p.stdout.decode().split('\n')
        if lines and lines[-1] == '':
            lines.pop()
        if p.returncode != 0 or len(lines) != len(reqs):
            raise DriverError(f'driver exit {p.returncode}, {len(lines)} answers for {len(reqs)} requests: '
                              f'{p.stderr.decode()[-400:]}')
        self.requests += len(reqs)
        return [json.loads(l) for l in lines]

    def ask(self, req):
        return self.ask_many([req])[0]


def ok(ans):
    """unwrap {"ok": v}; an {"err": msg} becomes the canonical ('err', msg) marker"""
    if 'ok' in ans:
        return ans['ok']
    return {'model_error': ans.get('err')}


def close(a, b, rtol=1e-9, atol=1e-12):
    """numeric agreement of two floats; NaN agrees with NaN, inf with the same inf"""
    a, b = float(a), float(b)
    if math.isnan(a) or math.isnan(b):
        return math.isnan(a) and math.isnan(b)
    if math.isinf(a) or math.isinf(b):
        return a == b
    return abs(a - b) <= atol + rtol * max(abs(a), abs(b))


def first_diff(a, b, rtol=1e-9, atol=1e-12, path=''):
    """first position where two nested lists of numbers / strings differ, or None"""
    if isinstance(a, (list, tuple)) and isinstance(b, (list, tuple)):
        if len(a) != len(b):
            return f'{path}: length {len(a)} != {len(b)}'
        for k, (x, y) in enumerate(zip(a, b)):
            d = first_diff(x, y, rtol, atol, f'{path}[{k}]')
            if d:
                return d
        return None
    if isinstance(a, dict) and isinstance(b, dict):
        if sorted(a) != sorted(b):
            return f'{path}: keys {sorted(a)} != {sorted(b)}'
        for k in sorted(a):
            d = first_diff(a[k], b[k], rtol, atol, f'{path}.{k}')
            if d:
                return d
        return None
    if isinstance(a, bool) or isinstance(b, bool) or isinstance(a, str) or isinstance(b, str) \
            or a is None or b is None:
        if (a is None and isinstance(b, float) and math.isnan(b)) or \
                (b is None and isinstance(a, float) and math.isnan(a)):
            return None
        return None if a == b else f'{path}: {a!r} != {b!r}'
    try:
        return None if close(a, b, rtol, atol) else f'{path}: {a!r} != {b!r}'
    except (TypeError, ValueError):
        return None if a == b else f'{path}: {a!r} != {b!r}'
