#!/usr/bin/env python3
"""py2lean — regenerate the Lean definitions of small arithmetic / decision leaves
from /repo's *current* source text (Python `ast`; a regex anchor for the .pyx).

Every property owns a leaf list  harness/leaves/Cxx.py  (a module defining LEAVES)
and gets                           lean/Rsa/Gen/Cxx.lean  (rewritten only if changed).

A leaf spec is a dict:
  name    Lean definition name (inside namespace Rsa.Gen.Cxx)
  file    path below /repo/src/rsatoolbox
  func    enclosing Python function (or Cython cdef / def) name
  kind    'func'   translate the whole function body (straight-line if/elif/else,
                   assignments, return)
          'assign' translate the right-hand side of the `nth` (default 0) assignment to
                   `target` inside the function
  params  ordered dict  python-name -> type, types: 'Nat' | 'Int' | 'A' (generic number)
          python-name may be a pseudo name for `x.shape[k]` -> 'x_shape_k',
          `len(x)` -> 'len_x', `x[k]` -> 'x_k', `x.attr` -> 'x_attr'
  none    list of parameter names that are `None` in this specialisation (the
          translator partially evaluates `is None` / `is not None` tests)
  ret     result type
  cdiv    True: `/` between integers is C integer division (Cython with cdivision)
  opaque  {"<source text of a call>": "<parameter name>"}: that call is not translated; its
          value is the named parameter (a recorded contract, e.g. a group count)

Supported subset: integer / float-integral literals, names, + - * / // % ** (small
constant exponent), comparisons, and/or/not on tests, if/elif/else, min/max/abs,
np.minimum/np.maximum, int(np.ceil(np.sqrt(e))) on Nat, int(np.floor(a / b)) on Nat.
Anything else makes the leaf *untranslatable*: a type-correct stub is emitted, the leaf
is listed in lean/Rsa/Gen/status.json, and run_check treats it as a broken obligation.
"""
import ast
from fractions import Fraction
import importlib.util
import json
import os
import re
import sys

REPO_SRC = os.environ.get('RSA_REPO_SRC', '/repo/src/rsatoolbox')
HERE = os.path.dirname(os.path.abspath(__file__))
GEN_DIR = os.path.join(HERE, '..', 'lean', 'Rsa', 'Gen')

GENERIC_BINDERS = ('{α : Type} [Add α] [Sub α] [Mul α] [Div α] [Neg α] [Zero α] [One α] '
                   '[NatCast α] [LT α] [DecidableLT α] [LE α] [DecidableLE α] [Max α] [Min α]')
LEAN_TY = {'Nat': 'Nat', 'Int': 'Int', 'A': 'α', 'Bool': 'Bool'}
DEFAULT = {'Nat': '0', 'Int': '0', 'A': '(0 : α)', 'Bool': 'false'}


class Untranslatable(Exception):
    pass


class NoneVal:
    """marker for a value statically known to be None"""


NONE = NoneVal()


def pseudo_name(node):
    """x.shape[k] -> x_shape_k ; len(x) -> len_x ; x[k] -> x_k ; x.attr -> x_attr"""
    if isinstance(node, ast.Name):
        return node.id
    if isinstance(node, ast.Attribute):
        base = pseudo_name(node.value)
        return None if base is None else f'{base}_{node.attr}'
    if isinstance(node, ast.Subscript):
        base = pseudo_name(node.value)
        idx = node.slice
        if isinstance(idx, ast.UnaryOp) and isinstance(idx.op, ast.USub) \
                and isinstance(idx.operand, ast.Constant):
            return None if base is None else f'{base}_m{idx.operand.value}'
        if base is not None and isinstance(idx, ast.Constant) and isinstance(idx.value, int):
            return f'{base}_{idx.value}'
        if base is not None and isinstance(idx, ast.Name):
            return f'{base}_{idx.id}'
        return None
    if isinstance(node, ast.Call) and isinstance(node.func, ast.Name) and node.func.id == 'len' \
            and len(node.args) == 1:
        base = pseudo_name(node.args[0])
        return None if base is None else f'len_{base}'
    return None


def call_name(node):
    f = node.func
    if isinstance(f, ast.Name):
        return f.id
    if isinstance(f, ast.Attribute) and isinstance(f.value, ast.Name):
        return f'{f.value.id}.{f.attr}'
    return None


class Tr:
    def __init__(self, spec):
        self.spec = spec
        self.types = dict(spec['params'])
        self.cdiv = spec.get('cdiv', False)

    # ---- expressions: returns (lean_text, type) or NONE
    def expr(self, e, env, want=None):
        pn = pseudo_name(e)
        if pn is not None and pn in env:
            v = env[pn]
            if v is NONE:
                return NONE
            return self.coerce((pn_lean(pn), v), want)
        if isinstance(e, ast.Constant):
            if e.value is None:
                return NONE
            if isinstance(e.value, bool):
                raise Untranslatable('bool literal')
            if isinstance(e.value, int):
                return self.lit(e.value, want)
            if isinstance(e.value, float) and e.value == int(e.value):
                return self.lit(int(e.value), 'A')
            if isinstance(e.value, float):
                # a decimal literal is read as the decimal fraction the programmer wrote
                fr = Fraction(repr(e.value))
                num = self.lit(fr.numerator, 'A')
                return (f'({num[0]} / (({fr.denominator} : Nat) : α))', 'A')
            raise Untranslatable(f'literal {e.value!r}')
        if isinstance(e, ast.UnaryOp) and isinstance(e.op, ast.USub):
            t, ty = self.expr(e.operand, env, want)
            if ty == 'Nat':
                raise Untranslatable('negation on Nat')
            return (f'(-{t})', ty)
        if isinstance(e, ast.BinOp):
            return self.binop(e, env, want)
        if isinstance(e, ast.Call):
            return self.call(e, env, want)
        if isinstance(e, ast.IfExp):
            c = self.test(e.test, env)
            if c is True:
                return self.expr(e.body, env, want)
            if c is False:
                return self.expr(e.orelse, env, want)
            a = self.expr(e.body, env, want)
            b = self.expr(e.orelse, env, want)
            a, b = self.unify(a, b)
            return (f'(if {c} then {a[0]} else {b[0]})', a[1])
        raise Untranslatable(f'expression {ast.dump(e)[:80]}')

    def lit(self, n, want):
        ty = want or 'Int'
        if ty == 'A':
            return (f'(({n} : Nat) : α)', 'A') if n >= 0 else (f'(-(({-n} : Nat) : α))', 'A')
        if ty == 'Nat':
            if n < 0:
                raise Untranslatable('negative Nat literal')
            return (f'({n} : Nat)', 'Nat')
        return (f'({n} : Int)', 'Int')

    def coerce(self, v, want):
        t, ty = v
        if want is None or want == ty:
            return v
        if want == 'A' and ty in ('Nat',):
            return (f'(({t} : Nat) : α)', 'A')
        if want == 'Int' and ty == 'Nat':
            return (f'(({t} : Nat) : Int)', 'Int')
        return v

    def unify(self, a, b):
        if a is NONE or b is NONE:
            raise Untranslatable('None in arithmetic')
        if a[1] == b[1]:
            return a, b
        order = {'Nat': 0, 'Int': 1, 'A': 2}
        hi = a[1] if order[a[1]] >= order[b[1]] else b[1]
        a2, b2 = self.coerce(a, hi), self.coerce(b, hi)
        if a2[1] != hi or b2[1] != hi:
            raise Untranslatable(f'cannot unify {a[1]} with {b[1]}')
        return a2, b2

    def binop(self, e, env, want):
        op = e.op
        if isinstance(op, ast.Pow):
            if isinstance(e.right, ast.Constant) and isinstance(e.right.value, int) \
                    and 1 <= e.right.value <= 4:
                b = self.expr(e.left, env, want)
                if b is NONE:
                    raise Untranslatable('None ** k')
                return ('(' + ' * '.join([b[0]] * e.right.value) + ')', b[1])
            raise Untranslatable('general power')
        # literals adapt to the other operand's type
        lw = rw = None
        if isinstance(e.left, ast.Constant) and not isinstance(e.right, ast.Constant):
            r = self.expr(e.right, env, want if isinstance(op, ast.Div) and not self.cdiv else None)
            if r is NONE:
                raise Untranslatable('None in arithmetic')
            l = self.expr(e.left, env, r[1])
        elif isinstance(e.right, ast.Constant) and not isinstance(e.left, ast.Constant):
            l = self.expr(e.left, env, None)
            if l is NONE:
                raise Untranslatable('None in arithmetic')
            r = self.expr(e.right, env, l[1])
        else:
            l = self.expr(e.left, env, lw)
            r = self.expr(e.right, env, rw)
        l, r = self.unify(l, r)
        ty = l[1]
        if isinstance(op, ast.Add):
            return (f'({l[0]} + {r[0]})', ty)
        if isinstance(op, ast.Sub):
            return (f'({l[0]} - {r[0]})', ty)
        if isinstance(op, ast.Mult):
            return (f'({l[0]} * {r[0]})', ty)
        if isinstance(op, ast.Div):
            if ty == 'A':
                return (f'({l[0]} / {r[0]})', 'A')
            if self.cdiv:
                return (f'({l[0]} / {r[0]})', ty)       # C integer division (non-negative operands)
            # Python true division of integers: result is a real number
            return (f'(({l[0]} : α) / ({r[0]} : α))', 'A')
        if isinstance(op, ast.FloorDiv):
            if ty == 'A':
                raise Untranslatable('// on reals')
            return (f'({l[0]} / {r[0]})', ty)
        if isinstance(op, ast.Mod):
            if ty == 'A':
                raise Untranslatable('% on reals')
            return (f'({l[0]} % {r[0]})', ty)
        raise Untranslatable(f'operator {type(op).__name__}')

    def call(self, e, env, want):
        name = call_name(e)
        # spec['opaque']: {"<source text of a call>": "<parameter name>"} — the call is not
        # translated, its value is the named parameter (an explicit contract of the leaf)
        text = ast.unparse(e)
        opaque = self.spec.get('opaque', {})
        if text in opaque and opaque[text] in env and env[opaque[text]] is not NONE:
            return self.coerce((pn_lean(opaque[text]), env[opaque[text]]), want)
        if name in ('np.floor', 'int', 'math.floor') and len(e.args) == 1 and not e.keywords \
                and isinstance(e.args[0], ast.BinOp) and isinstance(e.args[0].op, ast.Div):
            try:
                a = self.expr(e.args[0].left, env, 'Nat')
                b = self.expr(e.args[0].right, env, 'Nat')
            except Untranslatable:
                a = b = None
            if a is not None and a is not NONE and b is not NONE \
                    and a[1] == 'Nat' and b[1] == 'Nat':
                # floor (and truncation) of a quotient of naturals = natural division
                return (f'({a[0]} / {b[0]})', 'Nat')
        if name in ('max', 'np.maximum', 'min', 'np.minimum') and len(e.args) == 2 and not e.keywords:
            a = self.expr(e.args[0], env, want)
            b = self.expr(e.args[1], env, want)
            if isinstance(e.args[0], ast.Constant) and b is not NONE:
                a = self.expr(e.args[0], env, b[1])
            if isinstance(e.args[1], ast.Constant) and a is not NONE:
                b = self.expr(e.args[1], env, a[1])
            a, b = self.unify(a, b)
            f = 'max' if 'max' in name else 'min'
            return (f'({f} {a[0]} {b[0]})', a[1])
        if name == 'abs' and len(e.args) == 1:
            a = self.expr(e.args[0], env, want)
            if a[1] == 'A':
                return (f'(max {a[0]} (-{a[0]}))', 'A')
            if a[1] == 'Int':
                return (f'(({a[0]}).natAbs : Int)', 'Int')
            return a
        if name == 'int' and len(e.args) == 1 and isinstance(e.args[0], ast.Call):
            inner = e.args[0]
            iname = call_name(inner)
            if iname == 'np.ceil' and isinstance(inner.args[0], ast.Call) \
                    and call_name(inner.args[0]) == 'np.sqrt':
                a = self.expr(inner.args[0].args[0], env, 'Nat')
                if a[1] != 'Nat':
                    raise Untranslatable('ceil(sqrt) of non-Nat')
                return (f'(Rsa.ceilSqrt {a[0]})', 'Nat')
            if iname == 'np.floor' and isinstance(inner.args[0], ast.BinOp) \
                    and isinstance(inner.args[0].op, ast.Div):
                a = self.expr(inner.args[0].left, env, 'Nat')
                b = self.expr(inner.args[0].right, env, 'Nat')
                if a[1] != 'Nat' or b[1] != 'Nat':
                    raise Untranslatable('floor(a/b) of non-Nat')
                return (f'({a[0]} / {b[0]})', 'Nat')
        if name == 'int' and len(e.args) == 1:
            a = self.expr(e.args[0], env, want)
            if a is not NONE and a[1] in ('Nat', 'Int'):
                return a
        if name == 'float' and len(e.args) == 1:
            a = self.expr(e.args[0], env, None)
            return self.coerce(a, 'A') if a[1] == 'Nat' else a
        raise Untranslatable(f'call {name}')

    # ---- tests: returns True / False (static) or lean Prop text
    def test(self, t, env):
        if isinstance(t, ast.BoolOp):
            vals = [self.test(v, env) for v in t.values]
            if isinstance(t.op, ast.And):
                if any(v is False for v in vals):
                    return False
                vals = [v for v in vals if v is not True]
                if not vals:
                    return True
                return '(' + ' ∧ '.join(vals) + ')'
            if any(v is True for v in vals):
                return True
            vals = [v for v in vals if v is not False]
            if not vals:
                return False
            return '(' + ' ∨ '.join(vals) + ')'
        if isinstance(t, ast.UnaryOp) and isinstance(t.op, ast.Not):
            v = self.test(t.operand, env)
            if v is True:
                return False
            if v is False:
                return True
            return f'(¬ {v})'
        if isinstance(t, ast.Compare) and len(t.ops) == 1:
            op = t.ops[0]
            if isinstance(op, (ast.Is, ast.IsNot)):
                a = self.expr(t.left, env)
                b = self.expr(t.comparators[0], env)
                if b is not NONE:
                    raise Untranslatable('is-test against non-None')
                isnone = a is NONE
                return isnone if isinstance(op, ast.Is) else (not isnone)
            if isinstance(t.left, ast.Constant):
                b = self.expr(t.comparators[0], env)
                a = self.expr(t.left, env, b[1])
            else:
                a = self.expr(t.left, env)
                if a is NONE:
                    raise Untranslatable('None in comparison')
                b = self.expr(t.comparators[0], env, a[1])
            a, b = self.unify(a, b)
            sym = {ast.Lt: '<', ast.LtE: '≤', ast.Gt: '>', ast.GtE: '≥',
                   ast.Eq: '=', ast.NotEq: '≠'}.get(type(op))
            if sym is None:
                raise Untranslatable('comparison operator')
            if sym in ('=', '≠') and a[1] == 'A':
                raise Untranslatable('equality test on reals')
            if sym == '>':
                return f'({b[0]} < {a[0]})'
            if sym == '≥':
                return f'({b[0]} ≤ {a[0]})'
            return f'({a[0]} {sym} {b[0]})'
        raise Untranslatable(f'test {ast.dump(t)[:80]}')

    # ---- statements
    def block(self, stmts, env, ret):
        if not stmts:
            raise Untranslatable('fell off the end of the function')
        s, rest = stmts[0], stmts[1:]
        if isinstance(s, ast.Expr) and isinstance(s.value, ast.Constant):
            return self.block(rest, env, ret)      # docstring
        if isinstance(s, ast.Return):
            v = self.expr(s.value, env, ret)
            if v is NONE:
                raise Untranslatable('returns None')
            v = self.coerce(v, ret)
            if v[1] != ret:
                raise Untranslatable(f'return type {v[1]} ≠ {ret}')
            return v[0]
        if isinstance(s, ast.Assign) and len(s.targets) == 1 and isinstance(s.targets[0], ast.Name):
            name = s.targets[0].id
            v = self.expr(s.value, env)
            env2 = dict(env)
            if v is NONE:
                env2[name] = NONE
                return self.block(rest, env2, ret)
            env2[name] = v[1]
            body = self.block(rest, env2, ret)
            return f'let {pn_lean(name)} : {LEAN_TY[v[1]]} := {v[0]}\n  {body}'
        if isinstance(s, ast.If):
            c = self.test(s.test, env)
            if c is True:
                return self.block(s.body + rest, env, ret)
            if c is False:
                return self.block(s.orelse + rest, env, ret)
            a = self.block(s.body + rest, env, ret)
            b = self.block(s.orelse + rest, env, ret)
            return f'if {c} then\n  ({a})\n  else\n  ({b})'
        raise Untranslatable(f'statement {type(s).__name__}')


def pn_lean(name):
    return name if not name.startswith('_') else 'u' + name


def find_func(tree, name):
    for node in ast.walk(tree):
        if isinstance(node, (ast.FunctionDef, ast.AsyncFunctionDef)) and node.name == name:
            return node
    return None


def pyx_function_source(text, name):
    """body lines of a `def`/`cdef`/`cpdef` in a .pyx, as a list of stripped statements"""
    lines = text.split('\n')
    start = None
    for i, l in enumerate(lines):
        if re.match(r'\s*(cp?def|def)\b[^\n]*\b' + re.escape(name) + r'\s*\(', l):
            start = i
            break
    if start is None:
        return None
    indent = len(lines[start]) - len(lines[start].lstrip())
    j = start
    while not lines[j].rstrip().endswith(':'):
        j += 1
    body = []
    for l in lines[j + 1:]:
        if l.strip() and (len(l) - len(l.lstrip())) <= indent:
            break
        body.append(l)
    return body


def translate_leaf(spec):
    path = os.path.join(REPO_SRC, spec['file'])
    text = open(path).read()
    tr = Tr(spec)
    env = {k: (NONE if k in spec.get('none', []) else v) for k, v in spec['params'].items()}
    ret = spec['ret']
    if spec['file'].endswith('.pyx'):
        body = pyx_function_source(text, spec['func'])
        if body is None:
            raise Untranslatable(f"anchor {spec['func']} not found")
        pat = re.compile(r'^\s*' + re.escape(spec['target']) + r'\s*(\+?=)\s*(.+?)\s*$')
        hits = [m for m in (pat.match(l) for l in body) if m]
        nth = spec.get('nth', 0)
        if len(hits) <= nth:
            raise Untranslatable(f"assignment {nth} to {spec['target']} not found")
        if 'count' in spec and len(hits) != spec['count']:
            raise Untranslatable(f"expected {spec['count']} assignments to {spec['target']}, found {len(hits)}")
        m = hits[nth]
        rhs = ast.parse(m.group(2), mode='eval').body
        v = tr.expr(rhs, env, ret)
        if spec.get('augmented') is not None and (m.group(1) == '+=') != spec['augmented']:
            raise Untranslatable('augmented/plain assignment changed')
    else:
        tree = ast.parse(text)
        fn = find_func(tree, spec['func'])
        if fn is None:
            raise Untranslatable(f"anchor {spec['func']} not found")
        if spec['kind'] == 'func':
            return tr.block(fn.body, env, ret)
        hits = [n for n in ast.walk(fn) if isinstance(n, ast.Assign) and len(n.targets) == 1
                and pseudo_name(n.targets[0]) == spec['target']]
        hits.sort(key=lambda n: n.lineno)
        nth = spec.get('nth', 0)
        if len(hits) <= nth:
            raise Untranslatable(f"assignment {nth} to {spec['target']} not found")
        if 'count' in spec and len(hits) != spec['count']:
            raise Untranslatable(f"expected {spec['count']} assignments to {spec['target']}, found {len(hits)}")
        v = tr.expr(hits[nth].value, env, ret)
    if v is NONE:
        raise Untranslatable('value is None')
    v = tr.coerce(v, ret)
    if v[1] != ret:
        raise Untranslatable(f'type {v[1]} ≠ {ret}')
    return v[0]


def emit(prop, leaves):
    out = ['/- GENERATED by harness/py2lean.py from the source tree under check (default /repo) — do not edit. -/',
           'import Rsa.Core.Num', 'import Rsa.Core.GenPrelude', '',
           f'namespace Rsa.Gen.{prop}', '']
    status = {}
    for spec in leaves:
        generic = 'A' in list(spec['params'].values()) + [spec['ret']]
        binders = ' '.join(f'({pn_lean(k)} : {LEAN_TY[v]})' for k, v in spec['params'].items()
                           if k not in spec.get('none', []))
        try:
            body = translate_leaf(spec)
            status[spec['name']] = {'ok': True, 'anchor': f"{spec['file']}:{spec['func']}"}
        except (Untranslatable, SyntaxError, OSError, KeyError) as exc:
            body = DEFAULT[spec['ret']]
            binders = ' '.join(f'(_{pn_lean(k)} : {LEAN_TY[v]})' for k, v in spec['params'].items()
                               if k not in spec.get('none', []))
            status[spec['name']] = {'ok': False, 'why': str(exc),
                                    'anchor': f"{spec['file']}:{spec['func']}"}
            out.append(f'-- UNTRANSLATABLE: {exc}')
        out.append(f"/-- from `{spec['file']}`: `{spec['func']}`"
                   + (f" (assignment to `{spec['target']}`)" if spec['kind'] == 'assign' else '')
                   + ' -/')
        out.append(f"def {spec['name']} {GENERIC_BINDERS + ' ' if generic else ''}{binders} : "
                   f"{LEAN_TY[spec['ret']]} :=\n  {body}")
        out.append('')
    out.append(f'end Rsa.Gen.{prop}')
    return '\n'.join(out) + '\n', status


def load_leaves(prop):
    path = os.path.join(HERE, 'leaves', f'{prop}.py')
    if not os.path.exists(path):
        return None
    spec = importlib.util.spec_from_file_location(f'leaves_{prop}', path)
    mod = importlib.util.module_from_spec(spec)
    spec.loader.exec_module(mod)
    return mod.LEAVES


def write_if_changed(path, text):
    if os.path.exists(path) and open(path).read() == text:
        return False
    with open(path + '.tmp', 'w') as f:
        f.write(text)
    os.replace(path + '.tmp', path)
    return True


def regenerate(props=None):
    """regenerate Gen files; returns {prop: {leaf: status}}"""
    os.makedirs(GEN_DIR, exist_ok=True)
    all_status = {}
    names = sorted(f[:-3] for f in os.listdir(os.path.join(HERE, 'leaves')) if re.match(r'C\d+\.py$', f))
    for prop in names:
        if props is not None and prop not in props:
            continue
        leaves = load_leaves(prop)
        text, status = emit(prop, leaves)
        write_if_changed(os.path.join(GEN_DIR, f'{prop}.lean'), text)
        all_status[prop] = status
    return all_status


if __name__ == '__main__':
    st = regenerate(sys.argv[1:] or None)
    print(json.dumps(st, indent=1))
    bad = [(p, k) for p, d in st.items() for k, v in d.items() if not v['ok']]
    sys.exit(1 if bad else 0)
