#!/bin/bash
# harness/seedtest.sh <seed dir> <Cxx-k> : apply a seeded change in a scratch worktree, confirm its demo, run the check against it
D=$1; S=$2; P=${S%%-*}; WT=/tmp/wt/seed-$S
git -C /repo worktree remove --force $WT >/dev/null 2>&1
git -C /repo worktree add --detach $WT HEAD >/dev/null 2>&1 || { echo "$S: worktree failed"; exit 2; }
cp /repo/src/rsatoolbox/cengine/similarity*.so /repo/src/rsatoolbox/cengine/similarity.c $WT/src/rsatoolbox/cengine/
if ! git -C $WT apply $D/$S.diff 2>/dev/null && ! git -C $WT apply $D/$S/patch.diff 2>/dev/null; then echo "$S: PATCH DOES NOT APPLY"; git -C /repo worktree remove --force $WT; exit 3; fi
DEMO=$D/$S-demo.py; [ -f $DEMO ] || DEMO=$D/$S/demo.py
TQDM_DISABLE=1 /venv/bin/python $DEMO /repo >/dev/null 2>&1; r0=$?
TQDM_DISABLE=1 /venv/bin/python $DEMO $WT >/dev/null 2>&1; r1=$?
out=$(cd /verif && RSA_REPO=$WT ./check $P 2>&1 | grep -E "VIOLATION|INFRA|quick:" | head -4)
rc=$(echo "$out" | grep -c VIOLATION)
echo "$S: demo repo=$r0 mutant=$r1 | violations=$rc | $(echo "$out" | tr '\n' ' ' | cut -c1-300)"
git -C /repo worktree remove --force $WT
