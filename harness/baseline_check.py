#!/usr/bin/env python3
"""run the repository's pinned suite in a tree (default /repo) and compare with BASELINE.json
usage: baseline_check.py [tree]"""
import json, os, subprocess, sys, tempfile
import xml.etree.ElementTree as ET
tree = sys.argv[1] if len(sys.argv) > 1 else '/repo'
base = json.load(open('/root/.vp/BASELINE.json'))
xml = tempfile.mktemp(suffix='.xml')
env = dict(os.environ, PYTHONPATH=os.path.join(tree, 'src'), TQDM_DISABLE='1')
env.pop('RSATOOLBOX_VERIF', None)
subprocess.run(['/venv/bin/python', '-m', 'pytest', '-q', '-p', 'no:cacheprovider', '--timeout=900',
                '--continue-on-collection-errors', f'--junitxml={xml}'], cwd=tree, env=env,
               stdout=subprocess.DEVNULL, stderr=subprocess.DEVNULL)
passed = set()
for tc in ET.parse(xml).getroot().iter('testcase'):
    if not any(c.tag in ('failure', 'error', 'skipped') for c in tc):
        passed.add(f"{tc.get('classname')}::{tc.get('name')}")
os.remove(xml)
missing = sorted(set(base['stable_pass']) - passed)
print(f'passed {len(passed)}; baseline {len(base["stable_pass"])}; baseline tests not passing: {len(missing)}')
for m in missing:
    print('  ', m)
sys.exit(1 if missing else 0)
