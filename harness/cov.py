#!/venv/bin/python
"""cov.py Cxx [tier] — line coverage of the property's anchored source files reached by the
engine's generated cases (real-code side only).  Diagnostic: shows which parts of the anchored
code the correspondence never executes, so the generator can be widened."""
import importlib, json, os, random, sys
os.environ.setdefault('TQDM_DISABLE', '1')
HERE = os.path.dirname(os.path.abspath(__file__))
sys.path.insert(0, HERE)
REPO = os.environ.get('RSA_REPO', '/repo')
sys.path.insert(0, os.path.join(REPO, 'src'))
import coverage
prop = sys.argv[1]
tier = sys.argv[2] if len(sys.argv) > 2 else 'quick'
props = {json.loads(l)['id']: json.loads(l) for l in open(os.path.join(HERE, '..', 'properties.jsonl'))}
files = [os.path.join(REPO, f) for f in props[prop]['anchors']['files'] if f.endswith('.py')]
cov = coverage.Coverage(include=files, branch=False, data_file=None)
cov.start()
eng = importlib.import_module(f'engines.{prop}')
rng = random.Random(int(os.environ.get('VERIF_SEED', '1')))
n = 0
corpus = os.path.join(HERE, '..', 'corpus', prop)
cases = []
if os.path.isdir(corpus):
    for f in sorted(os.listdir(corpus)):
        if f.endswith('.json'):
            cj = json.load(open(os.path.join(corpus, f)))
            cases.append(cj['case'] if 'case' in cj else cj)
for c in cases:
    try:
        eng.run_impl(c)
    except Exception:
        pass
for c in eng.generate(rng, tier):
    try:
        eng.run_impl(c)
    except Exception:
        pass
    n += 1
cov.stop()
print(f'{prop}: {n} generated cases + {len(cases)} corpus')
import ast
for f in files:
    try:
        _, stmts, _, missing, _ = cov.analysis2(f)
    except Exception as exc:
        print(f'  {os.path.relpath(f, REPO)}: no data ({exc})'); continue
    miss = set(missing)
    tree = ast.parse(open(f).read())
    rows = []
    for node in ast.walk(tree):
        if isinstance(node, (ast.FunctionDef, ast.AsyncFunctionDef)):
            body = [s for s in stmts if node.lineno < s <= node.end_lineno]
            m = [s for s in body if s in miss]
            if body and m:
                rows.append((node.name, len(body) - len(m), len(body), m))
    tot = len(stmts); hit = tot - len(miss)
    print(f'  {os.path.relpath(f, REPO)}: {hit}/{tot} statements executed')
    for name, h, t, m in sorted(rows, key=lambda r: -len(r[3])):
        tag = 'NEVER CALLED' if h == 0 else f'{h}/{t}'
        print(f'      {name}: {tag}; missing lines {m[:12]}{"…" if len(m) > 12 else ""}')
