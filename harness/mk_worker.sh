#!/bin/sh
# harness/mk_worker.sh Cxx  -> private copy of /verif (with build output) under /tmp/w/Cxx
set -e
mkdir -p /tmp/w
rsync -a --delete --exclude .git --exclude replays --exclude evidence /verif/ /tmp/w/$1/
mkdir -p /tmp/w/$1/replays /tmp/w/$1/evidence /tmp/w/$1/notes /tmp/w/$1/corpus/$1
echo /tmp/w/$1
