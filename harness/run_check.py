#!/venv/bin/python
"""run_check — decide one property:  ./check Cxx [--tier quick|thorough] [--replay file]

Steps (DESIGN.md §4):
  1. regenerate lean/Rsa/Gen/* from /repo's current text (py2lean), `lake build` the
     property's theorems and the driver                              -> proof obligations
  2. audit: `#print axioms` of every property theorem, forbidden-token grep
  3. correspondence: real rsatoolbox vs the Lean driver on corpus + generated cases
  4. if an obligation or the correspondence broke: failing-input search on the real code
     (the engine's `oracle`, a direct transcription of the property statement)
  5. evidence/<id>.json, exit code (0 held / 1 VIOLATION / 2 infrastructure)
"""
import argparse
import fcntl
import hashlib
import importlib
import json
import os
import random
import re
import subprocess
import sys
import time
import traceback

os.environ.setdefault('TQDM_DISABLE', '1')
os.environ.setdefault('OMP_NUM_THREADS', '1')
os.environ.setdefault('OPENBLAS_NUM_THREADS', '1')

HERE = os.path.dirname(os.path.abspath(__file__))
ROOT = os.path.normpath(os.path.join(HERE, '..'))
LEAN_DIR = os.path.join(ROOT, 'lean')
sys.path.insert(0, HERE)
REPO = os.environ.get('RSA_REPO', '/repo')
os.environ.setdefault('RSA_REPO_SRC', os.path.join(REPO, 'src', 'rsatoolbox'))
sys.path.insert(0, os.path.join(REPO, 'src'))

import py2lean  # noqa: E402
import lean as leanio  # noqa: E402

ALLOWED_AXIOMS = {'propext', 'Classical.choice', 'Quot.sound'}
FORBIDDEN = re.compile(r'\bsorry\b|\badmit\b|^\s*axiom\s|native_decide|bv_decide|implemented_by|'
                       r'\bunsafe\s|maxHeartbeats\s+0\b', re.M)
TRUSTED_BASE = [
    'Lean 4.33 kernel; Mathlib v4.33 as a library of checked proofs',
    'axioms allowed: propext, Classical.choice, Quot.sound (audited by #print axioms each run); '
    'no native_decide / bv_decide / sorry / own axioms (grep each run)',
    'harness/py2lean.py translator for the generated leaves (Rsa/Gen)',
    'correspondence harness (generators, canonicalisation, tolerances) and the Lean '
    'compiler/runtime executing the driver (Rat and Float arithmetic)',
    'CPython, numpy, scipy semantics behind the modelled external calls; IEEE rounding on both sides',
]


def log(*a):
    print(*a, flush=True)


# ------------------------------------------------------------------ lean side

def strip_comments(text):
    text = re.sub(r'/-.*?-/', '', text, flags=re.S)
    return re.sub(r'--.*', '', text)


def forbidden_tokens():
    hits = []
    for base, _, files in os.walk(LEAN_DIR):
        if '.lake' in base:
            continue
        for f in files:
            if f.endswith('.lean'):
                p = os.path.join(base, f)
                for m in FORBIDDEN.finditer(strip_comments(open(p).read())):
                    hits.append(f'{os.path.relpath(p, LEAN_DIR)}: {m.group(0).strip()}')
    return hits


def theorem_at(path, line):
    """name of the theorem/def enclosing a 1-based line of a Lean file"""
    name = None
    try:
        for i, l in enumerate(open(path), 1):
            m = re.match(r'\s*(?:private\s+)?(?:theorem|lemma|def|example)\s+([\w.\']+)?', l)
            if m and i <= line:
                name = m.group(1) or f'example@{i}'
            if i > line:
                break
    except OSError:
        pass
    return name


def build(prop, eng):
    """returns (gen_status, build_ok, broken:list[str], build_log)"""
    os.makedirs(os.path.join(LEAN_DIR, '.lake'), exist_ok=True)
    with open(os.path.join(LEAN_DIR, '.lake', 'verif.lock'), 'w') as lk:
        fcntl.flock(lk, fcntl.LOCK_EX)
        status = py2lean.regenerate()
        targets = [f'Rsa.Props.{prop}', 'driver']
        p = subprocess.run(['lake', 'build'] + targets, cwd=LEAN_DIR, stdout=subprocess.PIPE,
                           stderr=subprocess.STDOUT, timeout=3000)
        out = p.stdout.decode(errors='replace')
        driver_ok = True
        if p.returncode != 0:
            # is the driver itself still buildable?
            q = subprocess.run(['lake', 'build', 'driver'], cwd=LEAN_DIR, stdout=subprocess.PIPE,
                               stderr=subprocess.STDOUT, timeout=3000)
            driver_ok = q.returncode == 0
            if not driver_ok:
                out += '\n--- driver build ---\n' + q.stdout.decode(errors='replace')
    broken = []
    if p.returncode != 0:
        for m in re.finditer(r'error: (\S+\.lean):(\d+):\d+: (.*)', out):
            th = theorem_at(os.path.join(LEAN_DIR, m.group(1)), int(m.group(2)))
            broken.append(f'{m.group(1)}:{m.group(2)} {th}: {m.group(3)[:160]}')
        if not broken:
            broken.append('lake build failed: ' + out[-300:])
    return status.get(prop, {}), p.returncode == 0, driver_ok, broken, out


def audit(prop, theorems):
    """returns {theorem: (ok, detail)}"""
    os.makedirs(os.path.join(LEAN_DIR, 'Audit'), exist_ok=True)
    path = os.path.join(LEAN_DIR, 'Audit', f'{prop}.lean')
    text = f'import Rsa.Props.{prop}\n' + ''.join(f'#print axioms {t}\n' for t in theorems)
    py2lean.write_if_changed(path, text)
    p = subprocess.run(['lake', 'env', 'lean', path], cwd=LEAN_DIR, stdout=subprocess.PIPE,
                       stderr=subprocess.STDOUT, timeout=1800)
    out = p.stdout.decode(errors='replace')
    res = {}
    for t in theorems:
        m = re.search(r"'" + re.escape(t) + r"' depends on axioms: \[([^\]]*)\]", out, re.S)
        if m:
            ax = {a.strip() for a in m.group(1).replace('\n', ' ').split(',') if a.strip()}
            bad = ax - ALLOWED_AXIOMS
            res[t] = (not bad, 'axioms: ' + ', '.join(sorted(ax)))
        elif re.search(r"'" + re.escape(t) + r"' does not depend on any axioms", out):
            res[t] = (True, 'no axioms')
        else:
            res[t] = (False, 'theorem missing or does not elaborate')
    return res, out


# ------------------------------------------------------------------ findings

def load_known(prop):
    path = os.path.join(ROOT, 'known_findings.jsonl')
    recs = []
    if os.path.exists(path):
        for l in open(path):
            l = l.strip()
            if l and not l.startswith('#'):
                r = json.loads(l)
                if r.get('property') == prop:
                    recs.append(r)
    return recs


def matches(rec, feats):
    for k, want in rec.get('match', {}).items():
        got = feats.get(k)
        if isinstance(want, list):
            if got not in want:
                return False
        elif got != want:
            return False
    return True


def case_hash(case):
    return hashlib.sha1(json.dumps(case, sort_keys=True, default=str).encode()).hexdigest()[:12]


def write_replay(prop, kind, payload):
    os.makedirs(os.path.join(ROOT, 'replays'), exist_ok=True)
    h = case_hash(payload)
    path = os.path.join(ROOT, 'replays', f'{prop}-{kind}-{h}.json')
    with open(path, 'w') as f:
        json.dump(payload, f, indent=1, default=str)
    return path


# ------------------------------------------------------------------ main

def safe(fn, *a):
    """run an engine callback; exceptions become a canonical marker"""
    try:
        return fn(*a)
    except Exception as exc:  # noqa: BLE001
        return {'harness_exception': type(exc).__name__, 'msg': str(exc)[:300],
                'tb': traceback.format_exc()[-1500:]}


def run(prop, tier, seed, replay=None, max_cases=None):
    t0 = time.time()
    eng = importlib.import_module(f'engines.{prop}')
    theorems = list(eng.THEOREMS)
    evidence_path = os.path.join(ROOT, 'evidence', f'{prop}.json')
    if os.path.realpath(REPO) != '/repo' or replay:
        # scratch trees (mutation tests, seeded changes) and replays never touch the registered evidence
        evidence_path = os.path.join(ROOT, 'replays', 'scratch-evidence', f'{prop}.json')
    os.makedirs(os.path.dirname(evidence_path), exist_ok=True)
    violations = []        # (replay_path, suffix)
    known_hits = {}        # finding id -> count
    notes = []

    # 1. translator + build
    gen_status, build_ok, driver_ok, broken, build_log = build(prop, eng)
    leaf_bad = [k for k, v in gen_status.items() if not v['ok']]
    for k in leaf_bad:
        broken.append(f"leaf {k} ({gen_status[k]['anchor']}) no longer translatable: {gen_status[k]['why']}")
    if not driver_ok:
        log(f'INFRA: driver does not build\n{build_log[-2000:]}')
        return 2

    # 2. audit
    aud, aud_out = audit(prop, theorems)
    for t, (okk, detail) in aud.items():
        if not okk:
            broken.append(f'theorem {t}: {detail}')
    tokens = forbidden_tokens()
    for t in tokens:
        broken.append(f'forbidden token {t}')
    obligations = len(theorems) + len(gen_status) + 1
    discharged = sum(1 for v in aud.values() if v[0]) + (len(gen_status) - len(leaf_bad)) \
        + (0 if tokens else 1)
    broken = sorted(set(broken))

    # 3. correspondence
    rng = random.Random(seed)
    drv = leanio.Driver()
    cases = []
    corpus_dir = os.path.join(ROOT, 'corpus', prop)
    if replay:
        rp = json.load(open(replay))
        cases = [rp['case']] if 'case' in rp else []
    else:
        if os.path.isdir(corpus_dir):
            for f in sorted(os.listdir(corpus_dir)):
                if f.endswith('.json'):
                    cj = json.load(open(os.path.join(corpus_dir, f)))
                    cases.append(cj['case'] if 'case' in cj else cj)
        n_corpus = len(cases)
        for c in eng.generate(rng, tier):
            cases.append(c)
            if max_cases and len(cases) >= max_cases + n_corpus:
                break
    impl_res = [safe(eng.run_impl, c) for c in cases]
    reqs, spans = [], []
    for c in cases:
        r = eng.model_requests(c)
        spans.append((len(reqs), len(reqs) + len(r)))
        reqs.extend(r)
    answers = drv.ask_many(reqs)
    model_res = [safe(eng.model_result, c, [leanio.ok(a) for a in answers[a0:a1]])
                 for c, (a0, a1) in zip(cases, spans)]
    disagreements = []
    branches = {}
    nontrivial = set()
    dist = {}
    for i, c in enumerate(cases):
        if isinstance(impl_res[i], dict) and 'harness_exception' in impl_res[i]:
            log(f'INFRA: harness exception in run_impl: {impl_res[i]}')
            return 2
        if isinstance(model_res[i], dict) and 'harness_exception' in model_res[i]:
            log(f'INFRA: harness exception in model_result: {model_res[i]}')
            return 2
        d = safe(eng.compare, c, impl_res[i], model_res[i])
        if isinstance(d, dict) and 'harness_exception' in d:
            log(f'INFRA: harness exception in compare: {d}')
            return 2
        feats = safe(eng.features, c, impl_res[i])
        for b in feats.get('branches', []):
            branches[b] = branches.get(b, 0) + 1
        for k, v in feats.items():
            if k != 'branches' and (isinstance(v, (str, int, bool)) or v is None):
                dist.setdefault(k, {})
                dist[k][str(v)] = dist[k].get(str(v), 0) + 1
        key = eng.nontrivial_key(c, impl_res[i])
        if key is not None:
            nontrivial.add(json.dumps(key, sort_keys=True, default=str))
        if d:
            disagreements.append((i, d))

    # 4. decide
    known = load_known(prop)
    oracle_runs = 0

    def judge(case, why):
        """run the oracle on a case; classify"""
        nonlocal oracle_runs
        oracle_runs += 1
        o = safe(eng.oracle, case)
        if isinstance(o, dict) and 'harness_exception' in o:
            return ('infra', o)
        if not o:
            return ('holds', None)
        feats = safe(eng.features, case, None)
        feats = dict(feats, **(o.get('features', {}) if isinstance(o, dict) else {}))
        for rec in known:
            if rec.get('kind') == 'known' and matches(rec, feats):
                return ('known', rec)
        return ('fails', o)

    unexplained = []
    seen_fail_keys = set()
    if replay and cases and not disagreements:
        disagreements = [(0, 'replayed case (model and implementation agree)')]
    for i, d in disagreements:
        verdict, info = judge(cases[i], d)
        if verdict == 'infra':
            log(f'INFRA: oracle exception {info}')
            return 2
        if verdict == 'known':
            known_hits[info['id']] = known_hits.get(info['id'], 0) + 1
        elif verdict == 'fails':
            case = cases[i]
            if hasattr(eng, 'shrink'):
                case = safe(eng.shrink, case, lambda cc: bool(safe(eng.oracle, cc))) or case
                if isinstance(case, dict) and 'harness_exception' in case:
                    case = cases[i]
                info = safe(eng.oracle, case) or info
            fk = json.dumps(info.get('what', ''), default=str)[:80] if isinstance(info, dict) else ''
            if fk in seen_fail_keys and len(violations) >= 3:
                continue
            seen_fail_keys.add(fk)
            path = write_replay(prop, 'fail', {
                'property': prop, 'case': case, 'oracle': info, 'correspondence_diff': d,
                'rerun': f'cd /verif && ./check {prop} --replay <this file>'})
            violations.append((path, ''))
        elif not (replay and d.startswith('replayed case')):
            unexplained.append((i, d))

    if (broken or unexplained) and not violations and not replay:
        # the property is no longer shown: search the real code for a failing input
        budget = 400 if tier == 'quick' else 4000
        srng = random.Random(seed + 1)
        gen = eng.search(srng, tier) if hasattr(eng, 'search') else eng.generate(srng, 'thorough')
        t_search = time.time()
        for k, c in enumerate(gen):
            if k >= budget or time.time() - t_search > (120 if tier == 'quick' else 900):
                break
            verdict, info = judge(c, 'search')
            if verdict == 'known':
                known_hits[info['id']] = known_hits.get(info['id'], 0) + 1
            if verdict == 'fails':
                case = c
                if hasattr(eng, 'shrink'):
                    case = safe(eng.shrink, c, lambda cc: bool(safe(eng.oracle, cc))) or c
                    if isinstance(case, dict) and 'harness_exception' in case:
                        case = c
                    info = safe(eng.oracle, case) or info
                path = write_replay(prop, 'fail', {
                    'property': prop, 'case': case, 'oracle': info,
                    'broken_obligations': broken,
                    'correspondence_diffs': [d for _, d in unexplained[:3]],
                    'rerun': f'cd /verif && ./check {prop} --replay <this file>'})
                violations.append((path, ''))
                break
        if not violations:
            path = write_replay(prop, 'unshown', {
                'property': prop,
                'no_longer_checks': broken + [f'correspondence {prop}: {d}' for _, d in unexplained[:5]],
                'case': cases[unexplained[0][0]] if unexplained else None,
                'impl': impl_res[unexplained[0][0]] if unexplained else None,
                'model': model_res[unexplained[0][0]] if unexplained else None,
                'searched': {'oracle_runs': oracle_runs},
                'build_log_tail': build_log[-1500:] if not build_ok else ''})
            violations.append((path, ' no-failing-input-found'))
    elif replay and unexplained and not violations:
        path = write_replay(prop, 'unshown', {
            'property': prop, 'case': cases[0],
            'no_longer_checks': [f'correspondence {prop}: {d}' for _, d in unexplained[:5]]})
        violations.append((path, ' no-failing-input-found'))

    # known-finding witnesses must still fail (otherwise the entry is stale)
    for rec in known:
        if rec.get('kind') != 'known':
            continue
        w = rec.get('witness')
        if w and os.path.exists(os.path.join(ROOT, w)):
            wc = json.load(open(os.path.join(ROOT, w)))
            wc = wc['case'] if 'case' in wc else wc
            o = safe(eng.oracle, wc)
            if o and not (isinstance(o, dict) and 'harness_exception' in o):
                known_hits[rec['id']] = known_hits.get(rec['id'], 0) + 1
            else:
                notes.append(f"known finding {rec['id']} no longer reproduces on its witness (stale entry)")
    for rec in known:
        if rec.get('kind') == 'known' and known_hits.get(rec['id']):
            log(f"KNOWN-FINDING: property={prop} {rec['what']}")

    # coverage of required branches
    missing = [b for b in getattr(eng, 'BRANCHES', []) if not branches.get(b)]
    if missing and not replay and not max_cases:
        notes.append(f'branches not reached: {missing}')

    # 5. thorough extras
    leanchecker = None
    if tier == 'thorough' and build_ok and not replay:
        p = subprocess.run(['lake', 'env', 'leanchecker', f'Rsa.Props.{prop}'], cwd=LEAN_DIR,
                           stdout=subprocess.PIPE, stderr=subprocess.STDOUT, timeout=3000)
        leanchecker = p.returncode == 0
        if not leanchecker:
            notes.append('leanchecker: ' + p.stdout.decode(errors='replace')[-300:])

    samples = []
    for i in list(range(min(2, len(cases)))) + ([len(cases) - 1] if len(cases) > 2 else []):
        samples.append({'case': cases[i], 'impl': impl_res[i], 'model': model_res[i]})
    samples.append({'obligation': theorems[0] if theorems else None,
                    'audit': aud.get(theorems[0], (None, ''))[1] if theorems else None})
    ev = {
        'property_id': prop, 'tier': tier, 'seed': seed, 'level': eng.LEVEL,
        'coverage': {
            'obligations': obligations, 'discharged': discharged,
            'checker_cmd': f'cd /verif/lean && lake build Rsa.Props.{prop} driver && '
                           f'lake env lean Audit/{prop}.lean'
                           + (' && lake env leanchecker Rsa.Props.' + prop if tier == 'thorough' else ''),
            'trusted_base': TRUSTED_BASE + list(getattr(eng, 'TRUSTED_EXTRA', [])),
            'theorems': {t: aud[t][1] for t in theorems},
            'generated_leaves': gen_status,
            'broken_obligations': broken,
            'evaluations': len(cases),
            'distinct_nontrivial': len(nontrivial),
            'rule': eng.RULE,
            'samples': json.loads(json.dumps(samples, default=str)),
            'traces_validated_against_impl': len(cases),
            'disagreements': len(disagreements),
            'disagreements_unexplained': len(unexplained),
            'oracle_runs': oracle_runs,
            'known_finding_hits': known_hits,
            'branches': branches, 'branches_missing': missing,
            'input_distribution': {k: v for k, v in dist.items() if len(v) <= 40},
            'driver_requests': drv.requests,
            'leanchecker_ok': leanchecker,
            'notes': notes,
            'exhaustive': False,
        },
        'assumptions': list(getattr(eng, 'ASSUMPTIONS', [])),
        'wall_s': round(time.time() - t0, 2),
        'violations': len(violations),
    }
    with open(evidence_path, 'w') as f:
        json.dump(ev, f, indent=1, default=str)
    for n in notes:
        log(f'note: {n}')
    log(f'{prop} {tier}: obligations {discharged}/{obligations}, cases {len(cases)}, '
        f'distinct non-trivial {len(nontrivial)}, disagreements {len(disagreements)} '
        f'(unexplained {len(unexplained)}), known hits {sum(known_hits.values())}, '
        f'{ev["wall_s"]} s')
    if violations:
        for path, suffix in violations:
            log(f'VIOLATION property={prop} replay={path}{suffix}')
        return 1
    if missing and not replay and not max_cases:
        log(f'INFRA: insufficient coverage, branches not reached: {missing}')
        return 2
    return 0


def main():
    ap = argparse.ArgumentParser()
    ap.add_argument('prop')
    ap.add_argument('--tier', default=os.environ.get('VERIF_TIER', 'quick'), choices=['quick', 'thorough'])
    ap.add_argument('--replay')
    ap.add_argument('--max-cases', type=int)
    a = ap.parse_args()
    seed = int(os.environ.get('VERIF_SEED', '20260929'))
    try:
        rc = run(a.prop, a.tier, seed, a.replay, a.max_cases)
    except subprocess.TimeoutExpired as exc:
        log(f'INFRA: timeout {exc}')
        rc = 2
    except leanio.DriverError as exc:
        log(f'INFRA: {exc}')
        rc = 2
    sys.exit(rc)


if __name__ == '__main__':
    main()
