#!/usr/bin/env python3
"""write MANIFEST.json from harness/manifest_src.json (claimed properties + texts)"""
import json, os
HERE = os.path.dirname(os.path.abspath(__file__))
src = json.load(open(os.path.join(HERE, 'manifest_src.json')))
checks = []
for pid, c in sorted(src['checks'].items()):
    checks.append({
        'property_id': pid,
        'quick_cmd': f'./check {pid} --tier quick',
        'thorough_cmd': f'./check {pid} --tier thorough',
        'evidence_file': f'/verif/evidence/{pid}.json',
        'replay_cmd_template': f'./check {pid} --replay {{path}}',
        'engine': f'harness/engines/{pid}.py',
        'level_claimed': {'category': 'proof', 'text': c['text'], 'design_ref': f'DESIGN.md §6 {pid}'},
        'level_note': c['note'],
        'technique': c.get('technique', 'Lean 4 theorems about an executable model + correspondence check of the model against the real code'),
    })
all_ids = [f'C{i:02d}' for i in range(1, 21)]
na = [{'property_id': p, 'reason': src['not_applicable'].get(p, 'check not built yet (work in progress); the technique applies, see DESIGN.md §6')}
      for p in all_ids if p not in src['checks']]
m = {
    'version': 1,
    'setup_cmd': 'cd /verif && /venv/bin/python harness/py2lean.py && cd lean && lake build',
    'hooks': {'guard': 'RSATOOLBOX_VERIF', 'enable': 'no source hooks: taps are applied from the harness process only',
              'baseline_off_cmd': 'cd /repo && /venv/bin/python -m pytest -ra -q -p no:cacheprovider --timeout=900 --continue-on-collection-errors',
              'source_commits': [], 'add_only': True},
    'engines': [{'name': 'lean-model+correspondence', 'path': 'harness/run_check.py',
                 'serves_properties': sorted(src['checks']),
                 'kind_free_text': 'Lean 4 project /verif/lean (model, generated leaves, theorems, compiled driver) + Python correspondence harness'}],
    'checks': checks,
    'notes': src.get('notes', ''),
    'not_applicable': na,
}
json.dump(m, open(os.path.join(HERE, '..', 'MANIFEST.json'), 'w'), indent=1)
print('checks:', [c['property_id'] for c in checks])
