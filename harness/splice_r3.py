#!/usr/bin/env python3
"""splice_r3.py Cxx — take the round-3 texts from notes/Cxx.md into DESIGN.md §6 and harness/manifest_src.json
(the DESIGN replacement section under a heading containing 'DESIGN' and 'replacement'; level_claimed.text / level_note as
quoted paragraphs after bold markers).  Prints what it did; refuses when a piece is not found."""
import json, os, re, sys
ROOT = os.path.normpath(os.path.join(os.path.dirname(os.path.abspath(__file__)), '..'))
pid = sys.argv[1]
notes = open(os.path.join(ROOT, 'notes', f'{pid}.md')).read()
ms = list(re.finditer(r'^## Round \d', notes, re.M))
if not ms:
    sys.exit(f'{pid}: no "## Round N" section')
i = ms[-1].start()
r3 = notes[i:]


def quoted_after(marker_re):
    m = None
    for m in re.finditer(marker_re, r3):
        pass
    if not m:
        return None
    rest = r3[m.end():]
    first = rest.lstrip()[:1]
    q = re.search(r'["“](.+?)["”]\s*(?:\n\s*\n|\n\*\*|\n###|\n##|\Z)', rest, re.S) if first in '"“' else None
    if q:
        return re.sub(r'\s*\n\s*', ' ', q.group(1)).strip()
    # unquoted: the paragraph that follows the marker
    para = re.sub(r'^[\s\*`:—\-]*(?:\(updated\))?[\s\*`:—\-]*', '', rest)
    para = re.split(r'\n\s*\n|\n\*\*|\n#', para, 1)[0]
    para = re.sub(r'\s*\n\s*', ' ', para).strip().strip('"“”')
    return para if len(para) > 80 else None


def _clean(x):
    if not x:
        return x
    x = re.split(r'["”]\s*`?level_(?:note|claimed\.text)`?\s*(?:\([^)]*\))?\s*:', x)[0]
    return x.strip().strip('"“”').strip()


text = quoted_after(r'level_claimed\.text`?\*{0,2}[^\n"“]*?:?\s*')
note = quoted_after(r'level_note`?\*{0,2}[^\n"“]*?:?\s*')
# DESIGN replacement
hm = None
for hm in re.finditer(r'^(?:#{2,4} [^\n]*DESIGN[^\n]*|\*\*[^\n]*[Rr]eplacement[^\n]*DESIGN[^\n]*\*\*[^\n]*)\n', r3, re.M):
    pass
design_new = None
if hm and ('replacement' in hm.group(0).lower() or '§6' in hm.group(0)):
    body = r3[hm.end():].lstrip('\n')
    body = re.sub(r'^\s*#{2,4} ' + pid + r'[^\n]*\n+', '', body)
    e = re.search(r'^#{1,3} ', body, re.M)
    body = body[:e.start()] if e else body
    body = body.strip('\n')
    if body.lstrip().startswith('```'):
        body = re.sub(r'^\s*```\w*\n', '', body)
        body = re.sub(r'\n```\s*$', '', body)
    # a leading "### Cxx — title" line inside the body is dropped (we keep DESIGN's own heading)
    body = re.sub(r'^\s*#{2,4} ' + pid + r'[^\n]*\n+', '', body)
    design_new = body.strip('\n')

dpath = os.path.join(ROOT, 'DESIGN.md')
d = open(dpath).read()
sm = re.search(r'^### ' + pid + r' — [^\n]*\n', d, re.M)
if design_new and sm:
    rest = d[sm.end():]
    e = re.search(r'^(### C\d\d — |-{20,})', rest, re.M)
    d = d[:sm.end()] + '\n' + design_new + '\n\n' + rest[e.start():]
    open(dpath, 'w').write(d)
    print(f'{pid}: DESIGN section replaced ({len(design_new.splitlines())} lines)')
else:
    print(f'{pid}: DESIGN replacement NOT found (heading={bool(hm)}, section={bool(sm)})')

mpath = os.path.join(ROOT, 'harness', 'manifest_src.json')
src = json.load(open(mpath))
text, note = _clean(text), _clean(note)
if text:
    src['checks'][pid]['text'] = text
    print(f'{pid}: level_claimed.text updated ({len(text)} chars)')
else:
    print(f'{pid}: level_claimed.text NOT found')
if note:
    src['checks'][pid]['note'] = note
    print(f'{pid}: level_note updated ({len(note)} chars)')
else:
    print(f'{pid}: level_note NOT found')
json.dump(src, open(mpath, 'w'), indent=1, ensure_ascii=False)
