#!/bin/bash
# harness/soak.sh <first seed> <last seed> [tier]  -- run every registered check over a range of seeds (false-alarm hunt)
# meant for `vp run`: builds the Lean project first (a snapshot has no .lake), writes soak.log
cd "$(dirname "$0")/.." || exit 2
/venv/bin/python harness/py2lean.py >/dev/null; (cd lean && lake build 2>&1 | tail -1)
TIER=${3:-quick}
PROPS=${SOAK_PROPS:-$(python3 -c "import json;print(' '.join(c['property_id'] for c in json.load(open('MANIFEST.json'))['checks']))")}
for seed in $(seq $1 $2); do
  for p in $PROPS; do
    out=$(VERIF_SEED=$seed ./check $p --tier $TIER 2>&1); rc=$?
    if [ $rc -ne 0 ]; then echo "FAIL seed=$seed $p rc=$rc"; echo "$out" | tail -5; mkdir -p soak_replays; cp replays/$p-* soak_replays/ 2>/dev/null; else echo "ok seed=$seed $p $(echo "$out" | tail -1 | grep -o '[0-9.]* s$')"; fi
  done
done
