"""worker_prompt_r3.py Cxx ["extra text"] -> writes /tmp/w/prompts/Cxx.txt (round-3 deepening brief for one property)"""
import json, os, sys
props = {json.loads(l)['id']: json.loads(l) for l in open('/verif/properties.jsonl')}
mods = {'C01': 'Label, Calc', 'C02': 'CrossVal', 'C03': 'Compare', 'C04': 'Eval', 'C05': 'Folds', 'C06': 'Stats',
        'C07': 'Ceiling', 'C08': 'Fit', 'C09': 'Boot', 'C10': 'Rdm', 'C11': 'Dataset', 'C12': 'Heap', 'C13': 'Nan',
        'C14': 'Noise', 'C15': 'Unbalanced', 'C16': 'Store', 'C17': 'Transform', 'C18': 'Sim', 'C19': 'Searchlight',
        'C20': 'Importers'}
targets = {
 'C01': """* Model and prove the dataset -> RDM descriptor attachment of `util/build_rdm.py:_build_rdms` and the `rdm_descriptors` of `calc_rdm` (so far correspondence + oracle only), incl. list input (`from_partials` keeps only the label descriptor) and the movie `time` descriptor per frame.
* Cases excluded at generation so far (repeated time values, bins with equal mean time, `bins` as plain lists — the last was repaired by 67ce447d / ceace51b): model and generate them now.
* Leaves: normalisers and dispatch conditions of `calc.py` (division by the channel count, `remove_mean` forwarding conditions, method-name dispatch, Poisson prior) through the translator / an own rewriter.
* Input forms (dtype, container, `ds` vs `[ds]`): state as theorems about the model's parsing layer where possible.""",
 'C02': """* Channel permutation invariance for the per-fold-precision branch: use an inverse-by-certificate (as C14's `precOf`: candidate + exact check `A·B = I`) so that "inverse commutes with simultaneous permutation" becomes provable; prove `cv_channel_perm` for that branch too.
* Prove `poissonCvLastFold ≠ spec` by a concrete witness theorem (`decide`/`norm_num` at ℚ with a rational `lg` parameter), replacing the corpus-only argument.
* Leaves: there is none yet ("all normalisers sit inside array expressions") — write a small rewriter in `harness/leaves/C02.py` that extracts the scalar skeleton (the `/ n_channel`, `/ (n_folds ...)`, `(V_i + V_j) / 2`, fold-loop ranges `i < j`, the assert on equal counts) so that edits to them break a theorem.
* Cover `calc_rdm_crossnobis` input forms: noise as list/array/3-D array, cv descriptor as list, datasets in a list, `calc_rdm(method='crossnobis')` route for lists of datasets.""",
 'C03': """* Close `rhoA_range_partial`: prove `S ≤ (n³−n)/12` for tie-averaged ranks (variance of mid-ranks ≤ variance of a permutation of 1..n), giving `|rho-a| ≤ 1` at full strength (`rhoA_range`); if the full bound resists, prove it for tie-free vectors and keep the partial.
* Model `neg_riem_dist` at the level that is logic (the kernel construction, centring, the parameter search as a contract) and `_sort_and_rank` / the two-pass structure of `_tau_a` that feeds scipy's `_kendall_dis` (prove the pass computes what the count model assumes).
* Bures: try to replace the two assumed trace identities by an abstract `IsPsdSqrt` contract with fewer assumptions; prove range/permutation invariance under that contract.
* `SymPosDef V` for general `sigma_k` is a hypothesis: prove it at least for diagonal Σ (variance vector) for every n, or prove PSD via the Gram structure of `xi`.
* Leaves: rho-a constant(s), the zero-norm guard comparison, dispatch on `sigma_k.ndim`, `n_cond` recovery — via opaque calls / an own rewriter.""",
 'C04': """* This slice has had no deepening round yet.  Model the assembly of the `Result` object (which arrays, shapes, `cv_method`, `noise_ceiling` shape, `n_rdm`/`n_pattern` passed on — seed C06-2 lived there) for every evaluator and prove it consistent with C06's `evaluatorNs`.
* `fit_optimize` is "observed, not re-fitted": at least check the returned θ is no worse than the start and competitors on the *training* view (one-sided), and that it was called with exactly the training view.
* Not judged so far: covariance from < 2 usable resamples, `AssertionError` of a set generator — model these outcomes explicitly.
* More leaves from `evaluate.py` (loop bounds, the `>= 3` usable-group test, `n_cv` defaults, `boot_noise_ceil` dispatch, which descriptor defaults are used) so an edit there breaks a theorem.
* Generator: more models per case (3–5, mixed classes), `pattern_descriptor`/`rdm_descriptor` of several dtypes, `k_pattern`/`k_rdm` combos, `random=False`, N small/large; dual bootstrap with `boot_noise_ceil` variants.""",
 'C05': """* Prove item-level exactly-once for the two-axis `sets_k_fold` (so far corr. + oracle only) and multiset equality of the expanded `pattern_idx`.
* Model `sets_random` sizes / `test_size` defaults and `sets_of_k_*` group-size arithmetic as leaves (the docstring/code mismatch is an observation; state precisely what the code guarantees and prove it).
* `crossval` glue: `ceil_set` pairing, `pattern_descriptor` defaults, models list forms; `cv_noise_ceiling`'s use of the sets; prove the pairing train[i] ↔ test[i] ↔ ceil[i] is index-aligned.
* Use `fit_regress_nn` now (it terminates since 217b28e5).""",
 'C06': """* This slice has had no deepening round yet.  Model the Wilcoxon signed-rank *statistic* used by `ranksum_*` (differences, zero handling, ranks of |d|, W⁺/W⁻, min), prove its symmetry/antisymmetry under swapping the two models and invariance under subject permutation; keep only the null distribution as the contract (closing most of `ranksum_mat_symm_diag_partial`).
* Bootstrap zero / ceiling tests on > 2-D evaluations (cross-validated results): model what the code does per fold and compare beyond 2-D.
* `get_errorbars` (sem / ci / dof-based), `Result.get_ci`, `get_noise_ceil` — model, prove CI bounds ordered and symmetric where they should be; the observation "ci returns the same negative number for both limits" — decide against the property statement and document.
* Leaves: every `n/(n-1)`-type factor, `eps` clamp, `dof` dispatch in `result.py`/`inference_util.py` (t_tests, t_test_0, t_test_nc, `pair_tests`, `zero_tests`, `nc_tests` dispatch on `test_type`), one- vs two-sided formulas (`1 - cdf`, `2 * (1 - cdf(|t|))`) via opaque calls for the CDF.""",
 'C07': """* Confirm seeded C07-5 is now caught (tiny-scale data RDMs); if only marginally, add a required branch.
* Close `ceiling_invariant_whitened_full` (solver linearity follows from `IsSolver` + uniqueness for SPD V) and `cv_ignores_common_nan_full` (NaN bridge for the cv loop).
* The CKA shortcut = V-form is "only numerically" tied: import C03's `C03Cka` lemmas if they give the identity and state the ceiling theorems for the coded fast path.
* Unequal group sizes / `rdm_descriptor` groups: state and prove exactly what the upper bound is then (weighted pool) — the property quantifies over singleton groups only, but model the general case.
* Leaves from `noise_ceiling.py` / `pooling.py` (min-shift condition, guards `0 < rms`, group loop bounds, default descriptor).""",
 'C08': """* Open gap: seeded C08-1 is MISSED (needs nested / collinear basis families) — fix the generator class (collinear, duplicated, nested, zero basis RDMs; rank-deficient Gram; basis = data) and make sure the oracle judges optimality (not θ) there.
* Close `nnls_exit_is_kkt_partial`: carry the solve contract through `nnlsInner/nnlsOuter` (passive-set gradient zero, primal feasibility as loop invariants) to get `nnls_exit_is_kkt_full`, hence "fit_regress_nn result maximises over θ ≥ 0" end-to-end under the linear-solve contract.
* Prove `IsPool` for the coded corr and whitened pooling (only cosine is proved).
* `fit_optimize` / `fit_optimize_positive`: model the objective they hand to scipy (sign, normalisation, `theta**2` reparametrisation for the positive variant) and prove "a minimiser of the coded objective maximises the criterion" — the optimiser stays a contract.
* Leaves: write a rewriter for the array arithmetic of `fitter.py` (`theta[i_pair + 1] = 1 - w`, normalisation `theta / sqrt(sum theta²)`, NNLS tolerance `100·eps·max|Aᵀy|`, iteration bound `3n`, step length `x[p] / (x[p] - s_p)`), using opaque calls.
* `ModelInterpolate.predict_rdm` clamping and `ModelWeighted`/`ModelSelect` `fit` default dispatch (`default_fitter`) — model and cover.""",
 'C09': """* Extend beyond `RDMs`: `bootstrap_sample*` is also applied to model predictions (`sample_pred_aligned`) — add cross-object sessions (same draw applied to data and to several model predictions of different classes) and `boot_testset.py`'s draws if not covered.
* Mixed int/str descriptors, `None` values and 2-d descriptors are "outside the quantifier and not modelled": model numpy's coercion minimally or reject explicitly on both sides; at least characterise and test that the library rejects or handles them without silent misalignment.
* Leaves: the `randint(0, len(select), size=len(select))` request and the NaN-diagonal rule through the translator (opaque calls).
* `equal_frequency`: add a symmetric-group argument theorem that *any* index-symmetric draw distribution gives equal expected counts (not only uniform).""",
 'C10': """* Close `reachable_rdesc_partial`: model the rdm-descriptor merge of `concat` / `from_partials` (commits eb84d4b3, 1faa54b1, 8ec34703 define the repaired behaviour) and prove the literal sentence for rdm descriptors, or state precisely (theorem + witness) where it cannot hold.
* Model `dissimilarity_measure` propagation and the `append`/`concat` pattern/object-descriptor rules (now observations) as coded, with theorems for what *is* guaranteed.
* pandas export (`to_df`) with every descriptor dtype; `RDMs.__getitem__` with slices / negative / boolean / list indices; `__iter__`, `__len__`; `subset(by, value)` with list / scalar / str / float values; `subsample` with repeats — all as model ops if not yet.
* Leaves: index formulas in `rdm_utils.py` (`batch_to_vectors`, `batch_to_matrices`, `_get_n_from_*` already), comparison operators in `subset_pattern`/`subsample_pattern`.""",
 'C11': """* Open gap: seeded C11-6 is MISSED (`Dataset.from_df`'s constant-column test with missing values in a descriptor column) — generate DataFrame round trips with missing / NaN / None descriptor values, columns constant except for missing, mixed dtypes; model `from_df`'s column classification (channel vs obs descriptor vs dataset descriptor) as coded and prove `df_roundtrip` for it.
* Float descriptors are "outside the representable class of `from_df`": state the exact class as a decidable predicate and prove round trip on it; test the boundary.
* `merge_datasets` channel/time descriptor rules, `split_*` adding `descriptors[by]`, `copy`, `subset_time` ranges `t_from/t_to` with boundary equality, `odd_even_split` with one group (rejection on both sides) — model as coded.
* `reachable_inv` excludes `bin_time`: extend the invariant with a "mean of cells" cell type so binning is included.
* Leaves: boundary comparisons (`>=`/`<=` in `subset_time`), `nested_odd_even` parity arithmetic.""",
 'C12': """* Open gap: seeded C12-6 is MISSED (`concat([single])` returns its argument: list-taking producers are never called with a one-element list) — argument factories must rotate container sizes (0/1/2/many), and identity (`result is arg`, or `result.attr is arg.attr`) must be checked for *every* returned object against *every* argument, recursively through lists/tuples/dicts/Result/model objects.
* "A new sharing defect in a callable that already has a known finding of the same cause is masked": make the known-finding match finer — key each record by (function, argument path, result path, cause) taken from the *pinned witness set* so that a new path in the same function is reported; regenerate `known_findings` proposals accordingly (write them to `notes/C12-known-findings.jsonl`; the coordinator merges).
* 3 callables without factory and 5 excluded by contract: add factories where possible.
* Heap model: derive (not just observe) the sharing graph for the RDMs derived-object constructors by modelling `subset/subsample/__getitem__/copy/concat` as heap programs (`compile`) and prove `fresh_producer_sep` instances for them; tie by comparing observed sharing with the model's.
* Multi-step sessions: result → in-place op on result → check source; source → in-place op on source → check result; and *two* results of different producers from the same source against each other.""",
 'C13': """* Open gap: seeded C13-6 (same edit as C12-1; `_mean` poisons the caller's weights with NaN so a *second* `mean` call with the same weights object is wrong): add two-call / reuse sessions (same weights, same `sigma_k`, same RDMs object reused across mean/rescale/compare/pool/fit calls) and judge the later calls by the property.
* Close `fast_nan_eq_slow_full` (fast whitened path with NaN = V-sub-block formula) using C03's CKA lemmas if available; else for n ≤ small by structure.
* `rescale_converges_full`: prove monotone decrease of the objective or at least that every fixed point is a common-scale solution *and* that a step never increases the weighted squared error.
* NNLS with NaN masks now that the fitter terminates (217b28e5): model through C08's `Fit.nnls` and drop the 2 s timeout special case.
* Fits and pooling use `None` / matrix `sigma_k` only: add variance vectors (e1973338 made `get_v` accept them).
* Leaves: the mask-equality test, NaN-count checks in `_parse_input_rdms` / `_parse_nan_vectors`.""",
 'C14': """* "Inputs are not modified" and row-order invariance for datasets are corr. + oracle only: prove `estimate_perm`-style invariance for the dataset estimators (`covFromMeasurements`, `covFromUnbalanced`) under observation permutation and condition relabelling.
* shrinkage_diag with constant channels (excluded at generation): model the guard, generate it.
* Singular / ill-conditioned covariances: state what `prec_from_*` does (LinAlgError or inverse) as a model outcome on exact singular inputs.
* `prec_from_residuals/measurements/unbalanced` option forwarding (`method`, `dof`, `obs_desc`), integer-typed datasets (c675ae8b), list of datasets with differing channel counts (rejection).
* Leaves: the shrinkage formulas' scalar skeleton (`b2 = min(d2, b2)`, `lambda = max(min(.,1),0)`, `n/dof` rescale) via an own rewriter so an edit breaks `eye_intensity_mem_unit` etc.""",
 'C15': """* Round 2 added the poisson_cv regrouping lemma file: if `unb_poisson_cv_partial` is still partial, finish it.
* dtype and memory-layout invariance are corr. + oracle only: model `ensure_double` / the contiguity normalisation as an explicit layout → row-major read function and prove the kernel input is layout-independent.
* `similarity.c` can be rebuilt with gcc: add to the thorough tier a rebuild of `similarity.c` into a scratch `.so` (outside /repo) and a differential run of the provided `.so` against it on the generated cases (ties the shipped binary to the shipped C text); report honestly that `.pyx` → `.c` cannot be regenerated.
* `calc_one_similarity` (single-pair helper) for every method / weighting / NaN mask; `calc_rdm_unbalanced` on lists of datasets, with `prior_lambda/prior_weight`, `noise` as list (rejected?), cv descriptor of every dtype.
* More leaves from `calc_unbalanced.py` (self/cross combination `self_i + self_j − 2·cross`, weight thresholds, NaN assignment conditions) via an own rewriter.""",
 'C16': """* This slice has had no deepening round yet.  Ragged lists in per-object or Dataset descriptors are not generated; a second save into an open non-empty handle without `overwrite` is `unspecified` in the model — decide from the code what happens and model it.
* Link to C10/C11: `roundtrip_after_history` uses an own small operation language — generalise it over the real C10 `stepE` / C11 `applyOp` state (import those Core modules) so "objects produced by arbitrary structural operations" is a theorem over the same operation alphabet as C10/C11.
* `Result` with every `cv_method`, with `noise_ceil_var`/`diff_var` shapes, `fitter` not saved (observation) — model precisely; `ModelFamily`? `load_*` auto-detection by extension with upper-case / double extensions; `file_type` argument overrides.
* Keys containing `/`, empty strings, very long strings, bytes, numpy scalar types (np.float32, np.int8, bool_), 0-d arrays, empty arrays, `None` in lists, nested dicts in descriptors — extend `Val` and the storability predicate, prove `encode_ok_iff_storable` still exact.
* Leaves: `_write_to_group` / `_read_group` type dispatch order (isinstance chain) via an own rewriter, so reordering the chain breaks a theorem.""",
 'C17': """* `np.quantile` for inner q is corr. only: prove `quantileLin` properties (monotone in q, between neighbours, endpoints, linear interpolation formula equals numpy's default 'linear' method index arithmetic — make that index arithmetic a leaf if it is in rsatoolbox, else a recorded contract).
* NaN support of minmax / geotop / geodesic ("where supported"): model what the code does with NaN there (propagate / raise) and state it.
* Constant RDMs under geodesic; entries equal to coinciding geotop thresholds — model and compare instead of skipping.
* Invariance theorems for whitened measures under the transforms where theory dictates (scale), for `bures` none.  Add Kendall tau-b/tau-a invariance under *any* strictly increasing map applied to both or one argument (done?) and the *non*-invariance witnesses (cosine under shift) as theorems so the boundary of the claim is explicit.
* Leaves: thresholds / comparisons in `geotopological_transform` (`<`, `>=`), the `'sqrt of' + m` naming, `positive_transform`'s comparison, rank method dispatch.""",
 'C18': """* The factor contracts of `qr`/`eigh` are checked numerically per call: strengthen by modelling the post-fix factorisation path (eda2112f) at the level "any factor F with F·Fᵀ = G and the stated shape" and prove reproduction for it *without* further assumptions; check the residual on every real call and make it a required branch.
* "The model's own loop never meets its contract residual for n_channel = n_cond" — investigate and fix (own Cholesky for rank-deficient G: use LDLᵀ with pivoting or eigen-free PSD factor via Gram–Schmidt on the points).
* `make_dataset` options not yet in the model: `noise_cov_trial`, `signal_cov_channel` (outside the reproduction claim but inside "descriptors" and "same-signal" claims), `use_exact_signal` with `n_sim > 1`, `use_same_signal` × `use_exact_signal` combinations; `make_design` with `order` argument; `make_dataset` with a `design` of repeated conditions.
* Orientation of noise covariance is outside the property — still model as coded so edits are flagged as correspondence breaks.
* More leaves through the existing rewriter (`leaves/C18.py`): every scaling constant (`/ n_channel`, `sqrt(signal)`, `sqrt(noise)`), centring matrix entries.""",
 'C19': """* `parallel_*_partial`: keep joblib as contract, but model `evaluate_models_searchlight`'s task construction (one task per centre, which RDM goes to which task, result list order = centre order) as coded and prove per-centre correspondence end-to-end from `get_searchlight_RDMs` output to the evaluation list.
* Chunk points: numpy `linspace` float behaviour differs from ⌊i·n/100⌋ for some n — currently a parameter; make the engine compute the real split points for a wide n range (1001..20000) cheaply (no RDM computation) and check `PtsOk` on all of them (thorough), so the hypothesis of `chunks_partition` is validated, not assumed.
* Cover other RDM methods through searchlights (`method='correlation'`, `crossnobis` with `cv_descriptor` — 'C19-fix-crossnobis-unequal-searchlights.diff' exists in notes: check whether it was applied or is still a proposal, and whether the property covers it).
* Non-cubic voxel grids, anisotropic? (radius in voxels only) — 1-voxel-thick volumes, masks touching the border, radius ≤ 1, huge radius (whole volume), threshold 0 and 1 boundary (`>=`).
* Leaves: the `< radius` comparison, `>= threshold`, chunk limit `1000`, via opaque-call leaves so `<` → `<=` breaks `neighbors_exact`.""",
 'C20': """* More of `io/`: `fmriprep.py` (`find_fmriprep_runs`, `FmriprepRun` getters, `make_design_matrix` confound selection), `hrf.py` table pinning, `bids.py` `BidsLayout.find_*` directory walking with derivatives and multiple sessions, `BidsMriFile`/`BidsTableFile` loaders as contracts.
* HRF ⊛ box / PCHIP are contracts fed from an independent transcription: add properties of the result that *are* provable for any HRF kernel (linearity in events, shift equivariance on the sampling grid, zero before first onset).
* Meadows: JSON multi-task scope and `.mat` single-task rejection rules; stimulus names without extension (currently excluded by assumption) — model what happens.
* MNE: events with repeated ids, `event_id` dict order, `tmin` offsets → time descriptor values (prove the mapping).
* SPM: `get_residuals` / `get_betas` wiring beyond the filter, `relocate_file` with Windows-style paths.
* Leaves: every string constant / separator the parsers rely on (`'-'`, `'_'`, entity order list) as generated definitions so an edit there breaks `bids_roundtrip`.""",
}
pid = sys.argv[1]
extra = sys.argv[2] if len(sys.argv) > 2 else ''
p = props[pid]
os.makedirs('/tmp/w/prompts', exist_ok=True)
txt = f"""You are a verification engineer continuing the Lean-4 proof + correspondence check for property {pid} of rsatoolbox.  Read, in this order and fully: /tmp/w/{pid}/WORKERS.md, /tmp/w/{pid}/WORKERS_R3.md (your brief for this round), the section "### {pid}" of /tmp/w/{pid}/DESIGN.md §6 (and §11 for the seeded changes), /tmp/w/{pid}/notes/{pid}.md (the slice's build report), then the slice's own files and the anchored source in /repo/src/rsatoolbox.

Your private working copy of the framework: /tmp/w/{pid} (complete, already built; work ONLY there; never write to /verif or /repo; scratch git worktrees of /repo go under /tmp/wt/{pid}-*; remove them when done).  Core module(s) you own: lean/Rsa/Core/{{{mods[pid]}}}.lean (plus new Core modules of your own if needed — name them with a {pid}-specific name and say so).

Property {pid} — {p['title']}
Statement: {p['statement']}
Quantifier: {p['quantifier']['text']}
Anchored files: {', '.join(p['anchors']['files'])}

Targets for this round (beyond the generic list in WORKERS_R3.md; do as many as you can, most valuable first; say what you skipped):
{targets[pid]}
{extra}

Work autonomously until done; do not ask questions.  Keep `cd /tmp/w/{pid} && ./check {pid}` green on the unchanged tree at all times (exit 0, ≤ 90 s).  Final message ≤ 40 lines as specified in WORKERS_R3.md."""
open(f'/tmp/w/prompts/{pid}.txt', 'w').write(txt)
print('ok', pid)
