"""C11 — dataset operations keep every observation attached to its own descriptors.

Session style: one case = initial (temporal) dataset + sequence of operations on a
workspace (list of datasets); both sides dump the whole canonical workspace after every
operation (also after a query and after a refused call).  The real workspace holds the very
objects the library returned: `sort_by` is applied in place to the workspace object (no
defensive copy), a value-returning operation may keep its source next to its results
(`keep`), a twin may be built by the constructor from the same dictionaries (`copy` + `ctor`)
-- so state shared between a dataset and what was derived from it is part of what is observed;
in the model objects are values (`applyOp_frame`, `sortBy_frame`, `keep_frame`).  Real side: engines/C11_real.py; model side: Lean driver op `c11.session`
(lean/Rsa/Drv/C11.lean over lean/Rsa/Core/Dataset.lean); oracle: engines/C11_oracle.py.
"""
import itertools
import random
from fractions import Fraction
from lean import close
from engines import C11_real as R
from engines import C11_oracle as O

PROPERTY = 'C11'
LEVEL = 'proof'
P = 'Rsa.Props.C11.'
THEOREMS = [P + n for n in (
    'indicesWhere_exact_in_order', 'gather_getElem', 'gatherObs_cell', 'gatherChan_cell',
    'gatherTime_cell', 'selectionOf_eq', 'split_partitions', 'subset_exact_in_order',
    'subset_time_exact_in_order', 'sort_stable_perm', 'merge_split_multiset', 'odd_even_partition',
    'bin_is_mean_of_bin', 'timeAsObs_entry', 'timeAsChan_entry', 'df_roundtrip',
    'average_by_is_group_mean', 'reachable_inv', 'split_channel_partitions', 'split_time_partitions',
    'tensor_entry', 'constructor_check_sound', 'merge_split_columns',
    'df_classification', 'df_default_class', 'reachable_inv_bin',
    'applyOp_frame', 'sortBy_frame', 'keep_frame', 'timeAsChan_index_order',
    'indicator_mean_pos_iff')]
RULE = ('one case = initial Dataset/TemporalDataset (1-6 observations, sometimes 17-24 for sort '
        'stability; 1-4 channels; 1-4 time points; str/int descriptor columns with duplicate values, '
        'list- or array-typed; optionally a column with missing entries (None in a string column, NaN '
        'in a float column; often constant except for the missing entries, sometimes all missing), a '
        'float-typed column (incl. integral floats), a float dataset descriptor, a channel named like '
        'a descriptor key) + a sequence of <= 8 (thorough <= 30) operations with symbolic '
        'arguments resolved against the current state; directed templates (sort+split+merge, '
        'size-1 axes for the conversions, subset_time with bounds on / between / outside the time '
        'points then bin_time with adjacent and interleaved bins, empty selections, DataFrame round '
        'trips of datasets with missing values / float descriptors incl. twice in a row, odd/even '
        'splits with a single group, merges of parts with different channel counts; sharing '
        'histories: siblings derived by every split / subset kind, bin_time, a constructor-built twin, '
        'the source kept in the workspace or not, then an in-place sort_by of ONE object by an unsorted '
        'key, then reads of the others and of results derived from them; round 5: EVERY initial dataset '
        'has a memory layout of its measurement array -- C, Fortran, strided view into a larger buffer, '
        'negative strides, non-contiguous transposes and combinations -- and a dtype float64 / float32 / '
        'int64 / int32, the arrays the library returns are never normalised between operations on either '
        'the real side or the oracle side, and a template runs subset_time / split_time on singleton '
        'shapes n_obs == 1 / n_channel == 1 / n_time == 1 (where numpy a[:, :, idx] leaves a '
        'Fortran-contiguous buffer) before time_as_channels / time_as_observations; round 7: NON-FINITE '
        'MEASUREMENTS are a value domain of every session -- 15 % of all cases (25 % in the failing-input '
        'search) hold NaN / +inf / -inf / mixtures in a single cell, a few cells, a whole observation row, '
        'a whole channel, a whole time slice or everywhere, and a template puts them into one condition '
        '(time point) of a design with several conditions (bins) before average_by / bin_time, so that the '
        'means of the OTHER groups must stay finite) are mixed '
        'with random sequences; a case is non-trivial when at least one operation was admissible '
        'and changed or queried the workspace; distinct = distinct (initial dataset, operation list)')
BRANCHES = ['op:split_obs', 'op:split_channel', 'op:split_time', 'op:subset_obs', 'op:subset_channel',
            'op:subset_time', 'op:sort_by', 'op:merge', 'op:odd_even', 'op:nested_odd_even',
            'op:bin_time', 'op:time_as_observations', 'op:time_as_channels', 'op:df', 'op:df_default',
            'op:copy',
            'op:average_by', 'op:tensor', 'class:flat', 'class:temporal', 'size1:obs', 'size1:chan',
            'size1:time', 'merge:promoted', 'subset:list', 'subset:scalar', 'subset:empty',
            'sort:temporal-large', 'desc:array', 'desc:list', 'out:inadmissible',
            'init:rejected-length', 'init:rejected-notime', 'init:default-time', 'init:none-descriptors',
            'merge:rejected-mixed', 'alias:merge_subsets', 'alias:convert_to_dataset', 'df:default-name',
            # round 3: missing values / float descriptors in the DataFrame round trip, rejections
            'df:missing-str', 'df:missing-float', 'df:const-except-missing', 'df:all-missing',
            'df:float-unrepresentable', 'df:integral-float', 'df:float-explicit', 'df:name-clash',
            'missing:gathered', 'oe:rejected-one-group', 'merge:rejected-shape',
            'subset_time:open-bound', 'subset_time:single-point',
            'df:missing-dataset-desc', 'bin:non-adjacent',
            # round 4: state shared between a dataset and its derivations; every object re-read
            'keep:source', 'sort:in-place-among-others', 'share:split_channel+sort',
            'share:subset_channel+sort', 'share:split_time+sort', 'share:subset_time+sort',
            'share:bin_time+sort', 'share:ctor+sort', 'share:read-after-sort', 'share:then-subset_obs',
            'share:then-time_as_observations', 'share:then-merge', 'share:then-average_by',
            'frame:reread-after-query', 'frame:reread-after-refusal',
            # round 5: memory layout / dtype of the measurement array an operation is applied to
            'layout:F', 'layout:strided', 'layout:neg', 'layout:perm', 'dtype:float32', 'dtype:int',
            'layout:F+time_as_channels', 'layout:F+time_as_observations',
            'layout:strided+time_as_channels', 'layout:neg+time_as_channels', 'layout:perm+time_as_channels',
            'layout:F-from-subset_time', 'layout:F-from-subset_time+time_as_channels',
            'layout:F-from-subset_time+time_as_observations', 'layout:perm-from-subset_time',
            'layout:from-subset_time+other-op',
            # round 7: non-finite measurements (NaN / +-inf in single cells, whole rows, whole channels)
            'values:nan-cell', 'values:inf-cell', 'values:nonfinite-row', 'values:nonfinite-channel',
            'average:nan-other-group', 'bin:nonfinite-other-bin']
ASSUMPTIONS = [
    'measurements are small integers, so numpy means agree with exact rational means to 1e-9 (1e-6 in a '
    'session whose initial array is float32: numpy averages float32 data in float32); integer-typed '
    'measurement arrays are left out of sessions with a dtype-driven DataFrame round trip (from_df finds '
    'the channels by their float dtype); a measurement may also be NaN / +inf / -inf (round 7; only in '
    'float-typed arrays): such a cell is a value that stays with its own observation / channel / time, and a '
    'mean over cells is, per IEEE 754, NaN iff one of its own cells is NaN or both infinities are among '
    'them, else the infinity among them, else the finite mean; the model side derives "its own cells" '
    'from indicator sessions of the proved model (Props.C11.indicator_mean_pos_iff); `copy()` of a dataset '
    'with a NaN measurement is not required to compare equal to its source (`__eq__` uses ==)',
    'descriptor columns are homogeneous (all int, all float, or all str) apart from missing entries, '
    'and key names of the four descriptor dictionaries are pairwise distinct in the initial dataset '
    '(the operations themselves may duplicate a key consistently); a missing entry is None in a '
    'string column and NaN in a float column (the model has one missing value: a column of nothing '
    'but None is left out of the dtype-driven round trip)',
    'merge_datasets is only called on datasets of one class with identical channel and time '
    'descriptors (its documented precondition) whose columns numpy can concatenate without coercing '
    'a value (one dtype per shared descriptor, no missing entry in a string column, no missing '
    'dataset descriptor); bin_time only on an integer-valued time descriptor; operations whose `by` '
    'column holds a missing entry and operations on a dataset with an empty axis are skipped',
    'odd/even splits with a single (level-2) group and merges of parts with different channel / time '
    'counts must be rejected by the implementation (any exception), as the model has no result']
TRUSTED_EXTRA = ['numpy: np.unique(return_index, return_inverse), np.argsort(kind="stable") (the unique '
                 'stable sorting permutation), fancy indexing, np.isin, np.mean (IEEE 754 on NaN / inf), '
                 'reshape/repeat/tile; '
                 'pandas DataFrame column assignment and selection']

OBS_KEYS, CHAN_KEYS, TIME_EXTRA = ['c', 'r', 's'], ['n', 'g'], ['ph']
OPS_FLAT = ['split_obs', 'split_channel', 'subset_obs', 'subset_channel', 'sort_by', 'merge', 'odd_even',
            'nested_odd_even', 'df', 'df_default', 'copy', 'pick', 'average_by', 'tensor']
OPS_TEMP = ['split_time', 'subset_time', 'bin_time', 'time_as_observations', 'time_as_channels']


# ------------------------------------------------------------------ generation

def _col(rng, n, kind, width):
    if kind == 'str':
        alpha = ['a', 'b', 'c', 'd', 'B', 'aa'][:max(1, width)]
        return [rng.choice(alpha) for _ in range(n)]
    vals = rng.sample(range(-2, 9), max(1, width))
    return [rng.choice(vals) for _ in range(n)]


def _F(k, den=2):
    """float-typed label k/den (exact in binary)"""
    return {'f': str(Fraction(k, den))}


def _missing_col(rng, n, kind):
    """descriptor column with missing entries (None in a string column, NaN in a float column);
    often constant except for the missing entries, sometimes all missing or without any"""
    r = rng.random()
    n_vals = 1 if r < 0.55 else 2
    if kind == 'str':
        vals = rng.sample(['p', 'q', 'pp'], n_vals)
    else:
        den = rng.choice([1, 2, 4])        # den 1: integral floats (2.0)
        vals = [_F(k, den) for k in rng.sample(range(-3, 9), n_vals)]
    p_miss = rng.choice([0.0, 0.3, 0.3, 0.5, 1.0]) if n > 1 else rng.choice([0.0, 1.0, 1.0])
    col = [None if rng.random() < p_miss else rng.choice(vals) for _ in range(n)]
    if n > 1 and p_miss not in (0.0, 1.0) and all(x is None for x in col):
        col[rng.randrange(n)] = vals[0]
    if n > 1 and p_miss not in (0.0, 1.0) and all(x is not None for x in col):
        col[rng.randrange(n)] = None
    return col


def _float_col(rng, n):
    den = rng.choice([1, 2, 2, 4])
    vals = [_F(k, den) for k in rng.sample(range(-3, 9), rng.randint(1, 3))]
    return [rng.choice(vals) for _ in range(n)]


def add_special_columns(rng, init, p_m=0.3, p_f=0.25, p_w=0.08, p_clash=0.03):
    """missing-value column 'm', float column 'f', float dataset descriptor 'w', a channel named
    like a descriptor key"""
    no = len(init['meas'])
    if init['obs'] is None or init['desc'] is None or init['chan'] is None:
        return init
    if rng.random() < p_m:
        kind = rng.choice(['str', 'flt'])
        init['obs'].append(['m', _missing_col(rng, no, kind)])
        init['kinds']['obs:m'] = rng.choice(['list', 'array'])
        # how a missing entry is written: None (string column) or NaN (float column); needed when
        # the column holds nothing else
        init['kinds']['miss:obs:m'] = 'none' if kind == 'str' else 'nan'
    if rng.random() < p_f:
        init['obs'].append(['f', _float_col(rng, no)])
        init['kinds']['obs:f'] = rng.choice(['list', 'array'])
    if rng.random() < p_w:
        init['desc'].append(['w', _F(rng.randint(-2, 5), rng.choice([1, 2]))])
    if rng.random() < p_clash:
        for col in init['chan']:
            if col[0] == 'n' and all(isinstance(x, str) for x in col[1]) and len(set(col[1])) == len(col[1]):
                col[1][rng.randrange(len(col[1]))] = rng.choice([k for k, _ in init['obs']] + ['sub'])
    return init


def gen_init(rng, temporal=None, no=None, nc=None, nt=None, special=True):
    init = _gen_init(rng, temporal, no, nc, nt)
    return add_special_columns(rng, init) if special else init


def _gen_init(rng, temporal=None, no=None, nc=None, nt=None):
    temporal = rng.random() < 0.5 if temporal is None else temporal
    no = no or rng.choice([1, 2, 3, 3, 4, 4, 5, 6])
    nc = nc or rng.choice([1, 2, 2, 3, 4])
    nt = (nt or rng.choice([1, 2, 3, 4])) if temporal else 1
    tags = rng.sample(range(1, 400), no * nc * nt)
    meas = [[[tags[(i * nc + j) * nt + t] for t in range(nt)] for j in range(nc)] for i in range(no)]
    kinds = {}
    obs = []
    for k in rng.sample(OBS_KEYS, rng.randint(1, 3)):
        obs.append([k, _col(rng, no, rng.choice(['str', 'int']), rng.randint(1, 3))])
        kinds['obs:' + k] = rng.choice(['list', 'array'])
    chan = []
    for k in rng.sample(CHAN_KEYS, rng.randint(1, 2)):
        if k == 'n' and rng.random() < 0.7:
            col = rng.sample(['x', 'y', 'z', 'w', 'v'], nc) if rng.random() < 0.6 else rng.sample(range(10, 20), nc)
        else:
            col = _col(rng, nc, rng.choice(['str', 'int']), 2)
        chan.append([k, col])
        kinds['chan:' + k] = rng.choice(['list', 'array'])
    time = []
    if temporal:
        tv = rng.sample(range(0, 12), nt)
        if rng.random() < 0.8:
            tv.sort()
        if nt > 1 and rng.random() < 0.12:
            tv[rng.randrange(nt)] = tv[rng.randrange(nt)]        # duplicate time value
        time.append(['time', tv])
        kinds['time:time'] = 'array' if rng.random() < 0.75 else 'list'
        if rng.random() < 0.4:
            time.append(['ph', _col(rng, nt, 'str', 2)])
            kinds['time:ph'] = rng.choice(['list', 'array'])
    desc = [['sub', rng.randint(1, 9)]]
    if rng.random() < 0.4:
        desc.append(['ses', rng.choice(['pre', 'post'])])
    return {'temporal': temporal, 'meas': meas, 'desc': desc, 'obs': obs, 'chan': chan, 'time': time,
            'kinds': kinds}


def gen_op(rng, name=None, temporal=True):
    name = name or rng.choice(OPS_FLAT + (OPS_TEMP if temporal else []) +
                              ['split_obs', 'subset_obs', 'sort_by', 'merge', 'merge'])
    op = {'name': name, 'at': rng.randrange(4), 'k': rng.randrange(4)}
    if name in R.KEEPABLE and rng.random() < 0.3:
        op['keep'] = True           # the caller keeps the source: results are inserted after it
    if name == 'copy' and rng.random() < 0.4:
        op['ctor'] = True           # a second dataset built by the constructor from the same dictionaries
    if name in ('subset_obs', 'subset_channel'):
        r = rng.random()
        if r < 0.45:
            op.update(scalar=True, vals=[rng.randrange(8)])
        elif r < 0.85:
            op.update(scalar=False, vals=[rng.randrange(8) for _ in range(rng.randint(1, 3))])
        elif r < 0.95:
            op.update(scalar=True, absent=True)
        else:
            op.update(scalar=False, vals=[])
    elif name == 'subset_time':
        if rng.random() < 0.1:
            op.update(absent=True)
        else:
            op.update(lo=rng.randrange(6), hi=rng.randrange(6))
            if rng.random() < 0.15:
                op['hi'] = op['lo']                      # a single time point: t_from == t == t_to
            if rng.random() < 0.35:                      # bounds strictly between / outside the values
                op.update(lo_off=rng.choice([0, 1, 2]), hi_off=rng.choice([0, 1, 2]))
    elif name == 'nested_odd_even':
        op['k2'] = rng.randrange(4)
    elif name in ('merge', 'time_as_observations') and rng.random() < 0.25:
        op['alias'] = True          # deprecated spellings merge_subsets / convert_to_dataset
    elif name == 'df_default' and rng.random() < 0.35:
        op['noname'] = True         # from_df without channel_descriptor (default key 'name')
    elif name == 'bin_time':
        nb = rng.randint(1, 3)
        op['bins'] = [[rng.randrange(6) for _ in range(rng.randint(1, 3))] for _ in range(nb)]
        if rng.random() < 0.4:      # bins (by position) whose members are not adjacent on the time axis
            op['bins'] = rng.choice([[[0, 2], [1, 3]], [[0, 2], [1]], [[3, 0], [2, 1]], [[1], [2, 0]],
                                     [[0, 3]], [[2, 0], [3], [1]]])
    return op


def _df_init(rng, no=None):
    """flat dataset for the DataFrame round trip: unique channel names, a column with missing
    entries and / or a float column"""
    init = gen_init(rng, False, no or rng.choice([1, 2, 3, 4, 5]), special=False)
    init['chan'] = [['n', rng.sample(['x', 'y', 'z', 'w', 'v'], len(init['meas'][0]))]]
    init['kinds']['chan:n'] = rng.choice(['list', 'array'])
    r = rng.random()
    return add_special_columns(rng, init, p_m=1.0 if r < 0.7 else 0.0, p_f=1.0 if r > 0.5 else 0.0,
                               p_w=0.15, p_clash=0.06)


SHARE_KINDS = ['split_channel', 'subset_channel', 'split_time', 'subset_time', 'bin_time', 'ctor',
               'split_obs', 'subset_obs', 'time_as_channels', 'copy']


def _unsorted_col(rng, n, kind):
    """a column with duplicates that is not already in sorted order (n >= 2)"""
    while True:
        col = _col(rng, n, kind, 3)
        if col != sorted(col):
            return col


def _sharing(rng, kind=None):
    """histories that expose state shared between a dataset and what was derived from it: derive
    siblings by every split / subset kind (the source kept in the workspace or not), sort ONE of
    the objects in place by a key that is not already sorted, then read the others -- and results
    derived from the others (subset_obs, time_as_observations, merge, averages, a DataFrame)"""
    kind = kind or rng.choice(SHARE_KINDS)
    temporal = kind in ('split_time', 'subset_time', 'bin_time', 'time_as_channels') or rng.random() < 0.4
    no = rng.choice([2, 3, 3, 4, 5, 6])
    nc = rng.choice([2, 3, 4])
    init = gen_init(rng, temporal, no, nc, nt=(rng.choice([2, 3, 4]) if temporal else None), special=False)
    init['obs'] = [['c', _unsorted_col(rng, no, rng.choice(['str', 'int']))],
                   ['r', list(range(no)) if rng.random() < 0.5 else _col(rng, no, 'int', 3)]]
    init['kinds']['obs:c'] = rng.choice(['list', 'array'])
    init['kinds']['obs:r'] = rng.choice(['list', 'array'])
    init['chan'] = [['g', [j % 2 for j in range(nc)]]]          # two channel groups: sibling parts
    init['kinds']['chan:g'] = rng.choice(['list', 'array'])
    if temporal:
        nt = len(init['meas'][0][0])
        init['time'] = [['time', sorted(rng.sample(range(0, 12), nt))]]
        init['kinds']['time:time'] = 'array' if rng.random() < 0.75 else 'list'
        if rng.random() < 0.5:
            init['time'].append(['ph', [t % 2 for t in range(nt)]])   # two time groups
            init['kinds']['time:ph'] = rng.choice(['list', 'array'])
    keep = rng.random() < 0.6
    if kind == 'ctor':
        derive = {'name': 'copy', 'at': 0, 'k': 0, 'ctor': True, 'keep': True}
    elif kind == 'copy':
        derive = {'name': 'copy', 'at': 0, 'k': 0, 'keep': True}
    elif kind in ('subset_channel', 'subset_obs'):
        derive = {'name': kind, 'at': 0, 'k': 0, 'scalar': rng.random() < 0.5,
                  'vals': [rng.randrange(8) for _ in range(rng.randint(1, 2))], 'keep': True}
    elif kind == 'subset_time':
        derive = {'name': kind, 'at': 0, 'k': rng.randrange(2), 'lo': rng.randrange(4), 'hi': rng.randrange(4),
                  'keep': True}
    elif kind == 'bin_time':
        derive = dict(gen_op(rng, 'bin_time'), at=0, k=1, keep=True)      # k=1: 'time' (after 'ph') or the only key
        derive['k'] = len(init['time']) - 1
    elif kind == 'time_as_channels':
        derive = {'name': kind, 'at': 0, 'k': 0, 'keep': True}
    else:           # split_channel / split_time / split_obs: sibling parts, source kept or not
        derive = {'name': kind, 'at': 0, 'k': rng.randrange(2), 'keep': keep}
    ops = [derive]
    if rng.random() < 0.3:          # a second derivation from one of the objects
        ops.append(dict(gen_op(rng, rng.choice(['split_channel', 'subset_channel', 'split_time', 'subset_time',
                                                'copy'])), keep=rng.random() < 0.7))
    # in-place sort of ONE object by the unsorted key 'c' (k = 0: first key in sorted order)
    ops.append({'name': 'sort_by', 'at': rng.randrange(4), 'k': 0})
    # read the others, and results derived from them
    readers = ['subset_obs', 'merge', 'average_by', 'pick', 'copy', 'split_obs', 'df', 'tensor', 'sort_by',
               'time_as_observations', 'time_as_observations', 'time_as_channels']
    for _ in range(rng.randint(1, 3)):
        ops.append(gen_op(rng, rng.choice(readers)))
    return init, ops


def _directed(rng):
    """templates that reach the corners the property names"""
    t = rng.randrange(17)
    if t == 12 and rng.random() < 0.3:
        # a column of nothing but None becomes a missing *dataset* descriptor; then round trip again
        init = _df_init(rng)
        init['obs'] = [kc for kc in init['obs'] if kc[0] != 'm'] + [['m', [None] * len(init['meas'])]]
        init['kinds']['obs:m'] = rng.choice(['list', 'array'])
        init['kinds']['miss:obs:m'] = 'none'
        return init, [gen_op(rng, 'df'), gen_op(rng, rng.choice(['copy', 'sort_by', 'df'])), gen_op(rng, 'df'),
                      gen_op(rng, 'df_default')]
    if t == 12:     # DataFrame round trips with missing values / float descriptors, then ordinary ops
        init = _df_init(rng)
        ops = [gen_op(rng, rng.choice(['df', 'df', 'df_default'])),
               gen_op(rng, rng.choice(['sort_by', 'subset_obs', 'split_obs', 'copy'])),
               gen_op(rng, rng.choice(['df', 'df_default'])), gen_op(rng, 'df')]
        return init, ops
    if t == 13:     # the missing-value column travels through gathers, then to the DataFrame
        init = _df_init(rng, rng.choice([3, 4, 5, 6]))
        ops = [gen_op(rng, rng.choice(['sort_by', 'subset_obs', 'split_obs'])), gen_op(rng, 'pick'),
               gen_op(rng, rng.choice(['df', 'df_default'])), gen_op(rng, 'df_default')]
        return init, ops
    if t == 14:     # odd/even splits with a single (level-2) group must be rejected
        no = rng.choice([2, 3, 4])
        init = gen_init(rng, rng.random() < 0.3, no, 2, special=False)
        init['obs'] = [['c', [7] * no], ['r', [i % 2 for i in range(no)]]]
        name = rng.choice(['odd_even', 'nested_odd_even'])
        op = {'name': name, 'at': 0, 'k': 0, 'k2': 0} if name == 'odd_even' else \
            {'name': name, 'at': 0, 'k': rng.choice([0, 1]), 'k2': 0}
        return init, [op, gen_op(rng, 'copy')]
    if t == 15:     # merging parts with different channel counts is refused
        nc = rng.choice([3, 4])
        init = gen_init(rng, None, None, nc, special=False)
        init['chan'] = [['g', [0] * (nc - 1) + [1]]]
        init['kinds']['chan:g'] = rng.choice(['list', 'array'])
        return init, [{'name': 'split_channel', 'at': 0, 'k': 0}, {'name': 'merge'}, gen_op(rng, 'pick')]
    if t == 16:     # subset_time with bounds on / between / outside the time points, then binning
        init = gen_init(rng, True, nt=rng.choice([2, 3, 4]))
        return init, [gen_op(rng, 'subset_time'), gen_op(rng, 'subset_time'), gen_op(rng, 'time_as_observations'),
                      gen_op(rng, 'df_default')]
    if t == 0:      # sort + split + merge
        return gen_init(rng), [gen_op(rng, 'sort_by'), gen_op(rng, 'split_obs'), {'name': 'merge'},
                               gen_op(rng, 'sort_by')]
    if t == 1:      # conversions on size-1 axes
        shape = rng.choice([(1, 2, 3), (3, 1, 2), (3, 2, 1), (1, 1, 1), (1, 1, 3), (2, 1, 1)])
        init = gen_init(rng, True, *shape)
        return init, [gen_op(rng, rng.choice(['time_as_observations', 'time_as_channels'])),
                      gen_op(rng, 'sort_by'), gen_op(rng, rng.choice(['df', 'df_default']))]
    if t == 2:      # time handling chain
        init = gen_init(rng, True, nt=rng.choice([3, 4]))
        first = [gen_op(rng, 'subset_time')] if rng.random() < 0.5 else []
        return init, first + [gen_op(rng, 'bin_time'), gen_op(rng, 'time_as_observations')]
    if t == 3:      # temporal sort stability: > 16 rows, few groups
        no = rng.randint(17, 24)
        init = gen_init(rng, True, no, 1, rng.choice([1, 2]))
        init['obs'] = [['c', [rng.choice([0, 1]) for _ in range(no)]]]
        init['kinds']['obs:c'] = rng.choice(['list', 'array'])
        return init, [gen_op(rng, 'sort_by'), gen_op(rng, 'split_obs'), {'name': 'merge'}]
    if t == 4:      # flat sort stability on a long column
        no = rng.randint(17, 24)
        init = gen_init(rng, False, no, 2)
        init['obs'] = [['c', [rng.choice(['u', 'v', 'w']) for _ in range(no)]],
                       ['r', list(range(no))]]
        return init, [gen_op(rng, 'sort_by'), gen_op(rng, 'odd_even'), {'name': 'merge'}, gen_op(rng, 'average_by')]
    if t == 5:      # split on every axis, pick, convert
        init = gen_init(rng, True)
        return init, [gen_op(rng, 'split_time'), gen_op(rng, 'pick'), gen_op(rng, 'split_channel'),
                      gen_op(rng, 'pick'), gen_op(rng, 'time_as_channels')]
    if t == 6:      # odd/even and nested on balanced designs
        no = rng.choice([4, 6, 8])
        init = gen_init(rng, rng.random() < 0.3, no, 2)
        init['obs'] = [['c', [i % 2 for i in range(no)]], ['r', [(i // 2) % 2 for i in range(no)]],
                       ['s', ['p', 'q', 'r', 's'][:no // 2] * 2]]
        return init, [gen_op(rng, rng.choice(['nested_odd_even', 'odd_even'])), {'name': 'merge'},
                      gen_op(rng, 'tensor'), gen_op(rng, 'average_by')]
    if t == 7:      # DataFrame round trip incl. a single observation
        init = gen_init(rng, False, rng.choice([1, 2, 4]))
        init['chan'] = [['n', rng.sample(['x', 'y', 'z', 'w', 'v'], len(init['meas'][0]))]]
        return init, [gen_op(rng, 'df_default'), gen_op(rng, 'subset_obs'), gen_op(rng, 'df'),
                      gen_op(rng, 'sort_by')]
    if t == 8:      # empty selections
        init = gen_init(rng)
        ops = [dict(gen_op(rng, 'subset_obs'), scalar=False, vals=[], absent=False)] if rng.random() < 0.5 \
            else [dict(gen_op(rng, 'subset_time'), absent=True)]
        return init, ops + [gen_op(rng, 'copy')]
    if t == 9:      # split by channel then rows
        init = gen_init(rng, False)
        return init, [gen_op(rng, 'split_channel'), gen_op(rng, 'split_obs'), gen_op(rng, 'pick'),
                      gen_op(rng, 'average_by')]
    if t == 10:     # temporal: time_as_observations then ordinary ops
        init = gen_init(rng, True)
        return init, [gen_op(rng, 'time_as_observations'), gen_op(rng, 'split_obs'), {'name': 'merge'},
                      gen_op(rng, 'subset_obs'), gen_op(rng, 'tensor'), gen_op(rng, 'df_default')]
    if t == 11 and rng.random() < 0.5:
        # temporal dataset, one part converted to a flat one: merge of mixed classes is refused
        init = gen_init(rng, True, no=rng.choice([2, 3, 4]))
        init['obs'] = [['c', [i % 2 for i in range(len(init['meas']))]]]
        return init, [{'name': 'split_obs', 'at': 0, 'k': 0}, {'name': 'time_as_channels', 'at': 0},
                      {'name': 'merge'}, {'name': 'pick', 'at': 1}, gen_op(rng, 'copy')]
    init = gen_init(rng)
    return init, [gen_op(rng, 'split_obs'), gen_op(rng, 'subset_obs'), {'name': 'merge'}, gen_op(rng, 'sort_by')]


def _special_init(rng):
    """initial objects at the constructor's borders: None dictionaries, default time axis, and the
    malformed stream the alignment hypothesis is about (must be rejected, never mis-attached)"""
    t = rng.randrange(6)
    init = gen_init(rng, temporal=(True if t in (1, 4) else None))
    if t == 0:          # None instead of dictionaries
        for ax in rng.sample(['obs', 'chan', 'desc'], rng.randint(1, 3)):
            init[ax] = None
        if init['temporal'] and rng.random() < 0.5:
            init['time'] = None
    elif t == 1:        # time_descriptors=None -> 'time' = arange(n_time)
        init['time'] = None
    elif t in (2, 3):   # one descriptor column too short / too long / a bare string
        axes = ['obs', 'chan'] + (['time'] if init['temporal'] else [])
        ax = rng.choice(axes)
        col = rng.choice(init[ax])
        how = rng.choice(['short', 'long', 'str'])
        if how == 'short':
            col[1] = col[1][:-1]
        elif how == 'long':
            col[1] = col[1] + col[1][:1]
        else:
            col[1] = 'a'
            if len({'obs': init['meas'], 'chan': init['meas'][0], 'time': init['meas'][0][0]}[ax]) == 1:
                col[1] = ['a', 'a']
    elif t == 4:        # time descriptors without the mandatory 'time'
        init['time'] = [['ph', _col(rng, len(init['meas'][0][0]), 'str', 2)]]
    else:               # two classes in one workspace: merge must refuse
        pass
    return init


def _random_case(rng, maxlen):
    init = gen_init(rng)
    ops = [gen_op(rng, temporal=init['temporal']) for _ in range(rng.randint(1, maxlen))]
    return init, ops


def _exhaustive(rng):
    """all sequences of length <= 3 over an instantiated alphabet on two small objects"""
    alpha = [
        {'name': 'split_obs', 'k': 0}, {'name': 'split_channel', 'k': 0}, {'name': 'split_time', 'k': 0},
        {'name': 'subset_obs', 'k': 0, 'scalar': True, 'vals': [0]},
        {'name': 'subset_obs', 'k': 1, 'scalar': False, 'vals': [0, 1]},
        {'name': 'subset_channel', 'k': 0, 'scalar': True, 'vals': [1]},
        {'name': 'subset_time', 'k': 0, 'lo': 0, 'hi': 1},
        {'name': 'sort_by', 'k': 0}, {'name': 'sort_by', 'k': 1}, {'name': 'merge'},
        {'name': 'odd_even', 'k': 0}, {'name': 'nested_odd_even', 'k': 0, 'k2': 1},
        {'name': 'bin_time', 'k': 0, 'bins': [[0, 1], [2]]},
        {'name': 'time_as_observations', 'k': 0}, {'name': 'time_as_channels'},
        {'name': 'df', 'k': 0}, {'name': 'pick', 'at': 1}, {'name': 'average_by', 'k': 0},
        {'name': 'df_default', 'k': 0},
        # round 4: value-returning operations whose source stays in the workspace
        {'name': 'split_channel', 'k': 0, 'keep': True},
        {'name': 'subset_channel', 'k': 0, 'scalar': True, 'vals': [0], 'keep': True},
        {'name': 'subset_time', 'k': 0, 'lo': 0, 'hi': 2, 'keep': True},
    ]
    flat = {'temporal': False, 'meas': [[[11], [12]], [[21], [22]], [[31], [32]], [[41], [42]]],
            'desc': [['sub', 1]], 'obs': [['c', ['b', 'a', 'b', 'a']], ['r', [1, 1, 0, 0]],
                                          ['z', ['p', None, 'p', None]]],
            'chan': [['n', ['x', 'y']]], 'time': [],
            'kinds': {'obs:c': 'list', 'obs:r': 'array', 'chan:n': 'list', 'obs:z': 'list'}}
    temp = {'temporal': True,
            'meas': [[[111, 112, 113], [121, 122, 123]], [[211, 212, 213], [221, 222, 223]],
                     [[311, 312, 313], [321, 322, 323]]],
            'desc': [['sub', 2]], 'obs': [['c', [1, 0, 1]], ['r', ['u', 'v', 'v']]],
            'chan': [['g', [0, 0]]], 'time': [['time', [0, 5, 10]]],
            'kinds': {'obs:c': 'array', 'obs:r': 'list', 'chan:g': 'array', 'time:time': 'array'}}
    for init in (flat, temp):
        for n in (1, 2, 3):
            for seq in itertools.product(alpha, repeat=n):
                yield {'init': init, 'ops': [dict(o) for o in seq]}


LAYOUTS = ['C', 'F', 'strided', 'neg', 'perm', 'F+strided', 'perm+neg', 'F+neg', 'strided+neg']
PERMS = [[2, 0, 1], [1, 0, 2], [0, 2, 1], [1, 2, 0]]       # non-contiguous transposes ([2,0,1]: what a[:, :, idx] leaves)


def gen_layout(rng, kind=None):
    """memory layout of the measurement array the dataset is built from (see C11_real.lay_out):
    C order, Fortran order (np.asfortranarray, loadmat), a strided view into a larger buffer, reversed
    views (negative strides), non-contiguous transposes, and combinations"""
    kind = kind or rng.choice(LAYOUTS)
    lay = {'kind': kind}
    parts = kind.split('+')
    if 'F' in parts:
        lay['perm'] = [2, 1, 0]
    if 'perm' in parts:
        lay['perm'] = list(rng.choice(PERMS))
    if 'strided' in parts:
        steps = [[rng.choice([1, 2, 3]), rng.choice([0, 1])] for _ in range(3)]
        if all(st == 1 for st, _ in steps):
            steps[rng.randrange(3)][0] = 2
        lay['steps'] = steps
    if 'neg' in parts:
        flips = [rng.randrange(2) for _ in range(3)]
        if not any(flips):
            flips[rng.randrange(3)] = 1
        lay['flips'] = flips
    return lay


def add_layout(rng, case, p_c=0.35):
    """round 5: every dataset the session engine builds gets a memory layout and a dtype.  Integer
    measurements are left out of sessions with a dtype-driven DataFrame round trip (`from_df` finds
    the channels by their float dtype: an integer array is outside its documented class)."""
    init = dict(case['init'])
    if 'layout' not in init:
        kind = 'C' if rng.random() < p_c else rng.choice(LAYOUTS[1:])
        if kind != 'C':
            init['layout'] = gen_layout(rng, kind)
    if 'dtype' not in init:
        r = rng.random()
        dt = 'float64' if r < 0.6 else 'float32' if r < 0.8 else rng.choice(['int64', 'int32'])
        if dt.startswith('int') and (init.get('nonfinite') or
                                     any(o['name'] == 'df_default' for o in case['ops'])):
            dt = 'float32' if rng.random() < 0.5 else 'float64'
        if dt != 'float64':
            init['dtype'] = dt
    return dict(case, init=init)


def _layout_conversions(rng):
    """round 5 template: the layouts that ARISE from operations.  numpy's `a[:, :, idx]` (subset_time,
    split_time) leaves a transposed buffer (memory order time, obs, channel) that is Fortran-contiguous
    exactly when n_obs == 1 or n_channel == 1; then the conversions reshape it.  Singleton shapes incl.
    n_time == 1, the source kept or not, both conversions, and the same with user-supplied layouts."""
    shape = rng.choice([(1, 2, 3), (1, 3, 4), (1, 4, 3), (1, 2, 4), (2, 1, 3), (3, 1, 4), (4, 1, 3), (1, 1, 3),
                        (2, 3, 1), (1, 3, 1), (3, 1, 1), (2, 2, 3), (3, 2, 4), (1, 3, 3), (3, 1, 3)])
    init = gen_init(rng, True, *shape, special=False)
    nt = shape[2]
    init['time'] = [['time', sorted(rng.sample(range(0, 12), nt))], ['ph', [t % 2 for t in range(nt)]]]
    init['kinds']['time:time'] = 'array' if rng.random() < 0.75 else 'list'
    init['kinds']['time:ph'] = rng.choice(['list', 'array'])
    r = rng.random()
    if r < 0.45:        # a window of >= 2 time points when there are that many (k = 1: 'time')
        lo = rng.randrange(max(1, nt - 1))
        hi = rng.randrange(lo + 1, nt) if nt > 1 else 0
        derive = [{'name': 'subset_time', 'at': 0, 'k': 1, 'lo': lo, 'hi': hi, 'keep': rng.random() < 0.3}]
    elif r < 0.8:       # two time groups (k = 0: 'ph'), convert one of the parts
        derive = [{'name': 'split_time', 'at': 0, 'k': 0, 'keep': rng.random() < 0.3}]
    elif r < 0.9:       # twice: a window of a part
        derive = [{'name': 'split_time', 'at': 0, 'k': 0}, gen_op(rng, 'subset_time')]
    else:               # no derivation: the user-supplied layout itself
        derive = []
        init['layout'] = gen_layout(rng, rng.choice(['F', 'F', 'perm', 'F+strided', 'F+neg']))
    conv = rng.choice(['time_as_channels', 'time_as_channels', 'time_as_observations'])
    ops = derive + [dict(gen_op(rng, conv), at=rng.randrange(3))]
    if rng.random() < 0.5:
        ops.append(gen_op(rng, rng.choice(['time_as_channels', 'time_as_observations', 'sort_by', 'subset_channel',
                                           'split_obs', 'df', 'average_by'])))
    return init, ops


NF_PATTERNS = ['cell', 'cell', 'cell', 'cells', 'row', 'channel', 'time', 'all']


def gen_nonfinite(rng, init, pattern=None, kinds=None):
    """round 7: the cells [i, j, t, kind] of the initial dataset that hold a non-finite measurement:
    a single cell, a few cells, a whole observation row, a whole channel, a whole time slice, every
    cell; kind NaN (a missing sample), +inf, -inf or a mixture"""
    m = init['meas']
    no, nc, nt = len(m), len(m[0]), len(m[0][0])
    pattern = pattern or rng.choice(NF_PATTERNS)
    kinds = kinds or rng.choice([['nan'], ['nan'], ['nan'], ['inf'], ['-inf'], ['inf', '-inf'],
                                 ['nan', 'inf'], ['nan', 'inf', '-inf']])
    i0, j0, t0 = rng.randrange(no), rng.randrange(nc), rng.randrange(nt)
    if pattern == 'cell':
        pos = [(i0, j0, t0)]
    elif pattern == 'cells':
        allp = [(i, j, t) for i in range(no) for j in range(nc) for t in range(nt)]
        pos = sorted(rng.sample(allp, min(len(allp), rng.randint(2, 4))))
    elif pattern == 'row':
        pos = [(i0, j, t) for j in range(nc) for t in range(nt)]
    elif pattern == 'channel':
        pos = [(i, j0, t) for i in range(no) for t in range(nt)]
    elif pattern == 'time':
        pos = [(i, j, t0) for i in range(no) for j in range(nc)]
    else:
        pos = [(i, j, t) for i in range(no) for j in range(nc) for t in range(nt)]
    single = rng.choice(kinds)
    mixed = len(kinds) > 1 and rng.random() < 0.6
    return [[i, j, t, rng.choice(kinds) if mixed else single] for (i, j, t) in pos]


def add_nonfinite(rng, case, p=0.15):
    """round 7: non-finite measurements are a value domain of every session"""
    init = case['init']
    if 'nonfinite' in init or rng.random() >= p:
        return case
    return dict(case, init=dict(init, nonfinite=gen_nonfinite(rng, init)))


def _nonfinite_means(rng):
    """round 7 template: one observation (time point) holds a non-finite cell / row, the design has
    several conditions (bins): the means of the OTHER conditions (bins) must stay finite"""
    if rng.random() < 0.6:
        no = rng.choice([2, 3, 4, 5, 6])
        init = gen_init(rng, False, no, rng.choice([1, 2, 3]), special=False)
        ng = rng.choice([2, 2, 3]) if no > 2 else 2
        col = [i % ng for i in range(no)]
        rng.shuffle(col)
        if len(set(col)) < 2:
            col[0], col[-1] = 0, 1
        init['obs'] = [['c', col if rng.random() < 0.5 else [['a', 'b', 'c'][x] for x in col]],
                       ['r', list(range(no))]]
        init['kinds']['obs:c'] = rng.choice(['list', 'array'])
        init['kinds']['obs:r'] = rng.choice(['list', 'array'])
        init['nonfinite'] = gen_nonfinite(rng, init, rng.choice(['cell', 'cell', 'row', 'cells']),
                                          rng.choice([['nan'], ['nan'], ['inf'], ['-inf'], ['nan', 'inf']]))
        pre = [gen_op(rng, rng.choice(['sort_by', 'copy', 'subset_channel', 'split_channel', 'odd_even']))] \
            if rng.random() < 0.4 else []
        return init, pre + [{'name': 'average_by', 'at': rng.randrange(2), 'k': 0},
                            gen_op(rng, rng.choice(['tensor', 'split_obs', 'sort_by', 'average_by', 'df']))]
    nt = rng.choice([2, 3, 4])
    init = gen_init(rng, True, nt=nt, special=False)
    init['time'] = [['time', sorted(rng.sample(range(0, 12), nt))]]
    init['kinds']['time:time'] = 'array' if rng.random() < 0.75 else 'list'
    init['nonfinite'] = gen_nonfinite(rng, init, rng.choice(['cell', 'cell', 'time', 'row', 'cells']),
                                      rng.choice([['nan'], ['nan'], ['inf'], ['-inf'], ['inf', '-inf']]))
    bins = {2: [[[0], [1]]], 3: [[[0, 1], [2]], [[0], [1, 2]], [[0, 2], [1]]],
            4: [[[0, 1], [2, 3]], [[0, 2], [1, 3]], [[0], [1, 2, 3]], [[3, 0], [2, 1]]]}[nt]
    return init, [{'name': 'bin_time', 'at': 0, 'k': 0, 'bins': rng.choice(bins)},
                  gen_op(rng, rng.choice(['time_as_observations', 'time_as_channels', 'split_time', 'copy'])),
                  gen_op(rng, rng.choice(['average_by', 'sort_by', 'subset_obs']))]


def generate(rng, tier):
    lrng = random.Random(rng.getrandbits(64))       # layouts / dtypes: every case gets one (round 5)
    nrng = random.Random(lrng.getrandbits(64))      # non-finite measurements (round 7)
    for case in _generate(rng, tier, lrng, nrng):
        yield case


def _generate(rng, tier, lrng, nrng):
    _al = globals()['add_layout']

    def add_layout(r, case, p_c=0.35):          # noqa: F811  (every case: non-finite cells, then layout)
        return _al(r, add_nonfinite(nrng, case), p_c)
    for _ in range(120 if tier == 'quick' else 1500):
        init, ops = _nonfinite_means(nrng)
        yield add_layout(lrng, {'init': init, 'ops': ops})
    if tier == 'quick':
        n_dir, n_rand, maxlen = 900, 600, 8
    else:
        n_dir, n_rand, maxlen = 5000, 10000, 30
        for case in _exhaustive(rng):
            yield add_layout(lrng, case, p_c=0.5)
    for _ in range(n_dir // 8):
        init = _special_init(rng)
        ops = [gen_op(rng, temporal=init['temporal']) for _ in range(rng.randint(1, 4))]
        yield add_layout(lrng, {'init': init, 'ops': ops})
    for _ in range(n_dir):
        init, ops = _directed(rng)
        yield add_layout(lrng, {'init': init, 'ops': ops})
    # round 5: layouts that arise from subset_time / split_time on singleton shapes, then conversions
    for _ in range(250 if tier == 'quick' else 2500):
        init, ops = _layout_conversions(rng)
        yield add_layout(lrng, {'init': init, 'ops': ops}, p_c=0.6)
    # round 4: shared state between a dataset and what was derived from it (every kind in turn)
    for n in range(300 if tier == 'quick' else 3000):
        init, ops = _sharing(rng, SHARE_KINDS[n % len(SHARE_KINDS)])
        yield add_layout(lrng, {'init': init, 'ops': ops})
    for _ in range(n_rand):
        init, ops = _random_case(rng, maxlen)
        yield add_layout(lrng, {'init': init, 'ops': ops})


def search(rng, tier):
    while True:
        r = rng.random()
        init, ops = _nonfinite_means(rng) if r < 0.12 else _directed(rng) if r < 0.35 else \
            _sharing(rng) if r < 0.55 else _layout_conversions(rng) if r < 0.75 else _random_case(rng, 8)
        yield add_layout(rng, add_nonfinite(rng, {'init': init, 'ops': ops}, p=0.25))


# ------------------------------------------------------------------ the two sides

def run_impl(case):
    return R.run_session(case)


NF_KINDS = ('nan', 'inf', '-inf')


def model_requests(case):
    """the session on the proved model; round 7: with non-finite cells, also one INDICATOR session per
    kind (measurement = 1 at the cells of that kind, 0 elsewhere): the model only gathers and averages
    with positive weights, so a result cell of the indicator session is > 0 exactly when one of the
    cells it was taken from / averaged over -- ITS OWN cells, by the proved theorems -- is of that kind"""
    init = {k: v for k, v in case['init'].items() if k not in ('kinds', 'layout', 'dtype', 'nonfinite')}
    reqs = [{'op': 'c11.session', 'init': init, 'ops': case['ops']}]
    nfl = case['init'].get('nonfinite') or []
    for kind in NF_KINDS:
        if any(c[3] == kind for c in nfl):
            cells = {(c[0], c[1], c[2]) for c in nfl if c[3] == kind}
            ind = [[[1 if (i, j, t) in cells else 0 for t in range(len(ch))] for j, ch in enumerate(row)]
                   for i, row in enumerate(init['meas'])]
            reqs.append({'op': 'c11.session', 'init': dict(init, meas=ind), 'ops': case['ops']})
    return reqs


def _unlbl(j):
    if isinstance(j, dict):
        return float(Fraction(j['f'])) if 'f' in j else Fraction(j['q'])
    return j


def _unnum(j):
    if isinstance(j, list):
        return [_unnum(x) for x in j]
    return Fraction(j) if isinstance(j, str) else j


def _un_ds(d):
    return {'temporal': d['temporal'], 'meas': _unnum(d['meas']),
            'desc': {k: _unlbl(v) for k, v in d['desc'].items()},
            'obs': {k: [_unlbl(x) for x in v] for k, v in d['obs'].items()},
            'chan': {k: [_unlbl(x) for x in v] for k, v in d['chan'].items()},
            'time': {k: [_unlbl(x) for x in v] for k, v in d['time'].items()}}


def _un_args(a):
    if a is None:
        return None
    out = {}
    for k, v in a.items():
        if k == 'vals':
            out[k] = [_unlbl(x) for x in v]
        elif k == 'bins':
            out[k] = [[_unlbl(x) for x in b] for b in v]
        elif k in ('lo', 'hi'):
            out[k] = _unlbl(v)
        else:
            out[k] = v
    return out


def _nf_merge(base, inds, inside=False):
    """walk the base result and the indicator results in parallel; inside 'meas' / 'avg' / 'tensor' a
    number becomes NaN / +-inf as IEEE arithmetic on its own cells demands (R.nf_combine)"""
    if isinstance(base, dict):
        return {k: _nf_merge(v, {kd: x[k] for kd, x in inds.items()}, inside or k in ('meas', 'avg', 'tensor'))
                for k, v in base.items()}
    if isinstance(base, list):
        return [_nf_merge(v, {kd: x[n] for kd, x in inds.items()}, inside) for n, v in enumerate(base)]
    if inside and isinstance(base, (int, float, Fraction)) and not isinstance(base, bool):
        k = R.nf_combine([kd for kd, x in inds.items() if x > 0])
        return R.NONFINITE[k] if k else base
    return base


def model_result(case, answers):
    res = _model_result(answers[0])
    nfl = case['init'].get('nonfinite') or []
    kinds = [k for k in NF_KINDS if any(c[3] == k for c in nfl)]
    if not kinds or 'model_error' in res or isinstance(res['init'], str):
        return res
    inds = {}
    for k, a in zip(kinds, answers[1:]):
        inds[k] = _model_result(a)
        if 'model_error' in inds[k]:
            return inds[k]
    return {'init': _nf_merge(res['init'], {k: x['init'] for k, x in inds.items()}),
            'steps': [{key: (_nf_merge(v, {k: x['steps'][n][key] for k, x in inds.items()})
                             if key in ('out', 'ws') else v) for key, v in st.items()}
                      for n, st in enumerate(res['steps'])]}


def _model_result(a):
    if isinstance(a, dict) and 'model_error' in a:
        return a
    steps = []
    for s in a['steps']:
        out = s['out']
        if isinstance(out, dict) and 'state' in out:
            out = {'state': [_un_ds(d) for d in out['state']]}
        elif isinstance(out, dict) and 'query' in out:
            q = out['query']
            out = {'query': {k: (_unnum(v) if k in ('avg', 'tensor') else
                                 [_unlbl(x) for x in v] if k == 'uniq' else v) for k, v in q.items()}}
        step = {'args': _un_args(s['args']), 'out': out}
        if 'ws' in s:
            step['ws'] = [_un_ds(d) for d in s['ws']]
        steps.append(step)
    return {'init': a['init'] if isinstance(a['init'], str) else _un_ds(a['init']), 'steps': steps}


def _diff(a, b, path='', rtol=1e-9):
    """first difference of two canonical values (numbers with tolerance), or None"""
    if isinstance(a, dict) and isinstance(b, dict):
        if sorted(a) != sorted(b):
            return f'{path}: keys {sorted(a)} != {sorted(b)}'
        for k in sorted(a):
            d = _diff(a[k], b[k], f'{path}.{k}', rtol)
            if d:
                return d
        return None
    if isinstance(a, (list, tuple)) and isinstance(b, (list, tuple)):
        if len(a) != len(b):
            return f'{path}: length {len(a)} != {len(b)}'
        for k, (x, y) in enumerate(zip(a, b)):
            d = _diff(x, y, f'{path}[{k}]', rtol)
            if d:
                return d
        return None
    if isinstance(a, bool) or isinstance(b, bool) or isinstance(a, str) or isinstance(b, str) \
            or a is None or b is None:
        return None if type(a) is type(b) and a == b else f'{path}: {a!r} != {b!r}'
    if isinstance(a, (int, float, Fraction)) and isinstance(b, (int, float, Fraction)):
        # labels: a float-typed number is not an integer-typed one (the dtype decides what from_df
        # takes for a channel); measurements and means are compared by value only
        if not any(seg in path for seg in ('.meas', '.avg', '.tensor')) and \
                isinstance(a, float) != isinstance(b, float):
            return f'{path}: {a!r} != {b!r} (integer- vs float-typed)'
        return None if close(float(a), float(b), rtol=rtol) else f'{path}: {a!r} != {b!r}'
    return None if a == b else f'{path}: {a!r} != {b!r}'


def compare(case, impl, model):
    if 'model_error' in model:
        return f'model error {model}'
    if isinstance(impl['init'], str) or isinstance(model['init'], str):
        if impl['init'] != model['init']:
            return (f"initial dataset: constructor {impl['init'] if isinstance(impl['init'], str) else 'accepts'}"
                    f" ({impl.get('exc')}), model {model['init'] if isinstance(model['init'], str) else 'accepts'}")
        o = O.run(case)
        return f"model = implementation, but the oracle says: {o['what']}" if o else None
    # numpy averages float32 measurements in float32 (eps = 6e-8): such sessions are compared with
    # float32 accuracy (labels stay exact; measurements that are merely moved are exact anyway)
    rtol = 1e-6 if case['init'].get('dtype') == 'float32' else 1e-9
    d = _diff(impl['init'], model['init'], 'init')
    if d:
        return f'initial dataset: {d}  [impl != model]'
    model = model['steps']
    for n, si in enumerate(impl['steps']):
        name = case['ops'][n]['name']
        sm = model[n]
        d = _diff(si['args'], sm['args'], 'args')
        if d:
            return f'step {n} ({name}): resolved arguments differ {d}'
        oi, om = si['out'], sm['out']
        if isinstance(oi, dict) and 'exc' in oi:
            return (f"step {n} ({name}): implementation raised {oi['exc']} ({oi.get('msg', '')}), "
                    f"model returns {'a result' if isinstance(om, dict) else om}")
        if isinstance(oi, str) or isinstance(om, str):
            if oi != om:
                return f'step {n} ({name}): impl {oi if isinstance(oi, str) else "result"} vs model ' \
                       f'{om if isinstance(om, str) else "result"}'
        else:
            d = _diff(oi, om, 'out', rtol)
            if d:
                return f'step {n} ({name}): {d}  [impl != model]'
        # every object of the workspace, re-read after a refused call / a query (after a state
        # change `out.state` already is the whole workspace)
        if ('ws' in si) != ('ws' in sm):
            return f'step {n} ({name}): workspace reported by one side only'
        if 'ws' in si:
            d = _diff(si['ws'], sm['ws'], 'ws', rtol)
            if d:
                return f'step {n} ({name}): workspace after the call: {d}  [impl != model]'
    # model and implementation agree: cross-check both against the independent oracle, so that a
    # model that merely mirrors a property-violating implementation cannot pass silently
    o = O.run(case)
    if o:
        return f"model = implementation, but the oracle rejects step {o.get('step')} ({o.get('op')}): {o['what']}"
    return None


# ------------------------------------------------------------------ oracle, features

def oracle(case):
    o = O.run(case)
    if not o:
        return None
    f = _case_features(case)
    f.update(fail_op=o.get('op'), fail_exception=o.get('exception'))
    f['fail_kind'] = ('exception' if o.get('exception') else
                      'foreign-value' if str(o.get('what', '')).startswith('result holds a value') else 'mislabel')
    f['after_tao'] = any(x['name'] == 'time_as_observations' for x in case['ops'][:o.get('step') or 0])
    if o.get('op') is not None and o.get('step') is not None:
        # shape of the dataset the failing operation was applied to (for known-finding matching)
        try:
            ws = [R.build(case['init'])]
            for op in case['ops'][:max(o['step'], 0)] if o['step'] >= 0 else []:
                _, ws, _ = R.apply_step(ws, op)
            op = case['ops'][o['step']] if o['step'] >= 0 else {}
            d = ws[op.get('at', 0) % len(ws)]
            no, nc, nt = R.dims(d)
            f.update(fail_n_obs=no, fail_n_chan=nc, fail_n_time=nt, fail_temporal=R.is_temporal(d))
        except Exception:  # noqa: BLE001
            pass
    o['features'] = f
    return o


def _case_features(case):
    init = case['init']
    no, nc = len(init['meas']), len(init['meas'][0])
    nt = len(init['meas'][0][0])
    return {'temporal': init['temporal'], 'n_obs': no, 'n_chan': nc, 'n_time': nt,
            'n_ops': len(case['ops'])}


def features(case, impl):
    f = _case_features(case)
    br = set()
    br.add('class:temporal' if f['temporal'] else 'class:flat')
    kinds = case['init'].get('kinds', {})
    for k, v in kinds.items():
        if not k.startswith('miss:'):
            br.add('desc:' + v)
    init = case['init']
    if impl is not None and impl['init'] == 'rejected':
        br.add('init:rejected-' + ('notime' if impl.get('exc') == 'Warning' else 'length'))
    if impl is not None and not isinstance(impl['init'], str):
        if init['temporal'] and init['time'] is None:
            br.add('init:default-time')
        if init['obs'] is None or init['chan'] is None or init['desc'] is None:
            br.add('init:none-descriptors')
    steps = impl['steps'] if impl is not None else None
    if steps is not None:
        cur = [impl['init']] if isinstance(impl['init'], dict) else []
        share = {'pending': set(), 'sorted': False}
        for n, s in enumerate(steps):
            op = case['ops'][n]
            out = s['out']
            before = cur
            if isinstance(out, dict) and 'state' in out:
                cur = out['state']
            _round3_branches(br, op, s, before)
            _round4_branches(br, op, s, before, share)
            _round5_branches(br, op, s)
            _round7_branches(br, case, op, s, before)
            if out == 'inadmissible':
                br.add('out:inadmissible')
                continue
            if out == 'rejected':
                if op['name'] == 'merge':
                    br.add('merge:rejected-mixed' if len({d['temporal'] for d in before}) > 1
                           else 'merge:rejected-shape')
                else:
                    br.add('oe:rejected-one-group')
                continue
            if isinstance(out, dict) and 'exc' in out:
                br.add('out:exception')
                continue
            br.add('op:' + op['name'])
            if op.get('alias') and op['name'] == 'merge':
                br.add('alias:merge_subsets')
            if op.get('alias') and op['name'] == 'time_as_observations':
                br.add('alias:convert_to_dataset')
            if op.get('noname') and op['name'] == 'df_default':
                br.add('df:default-name')
            if op['name'] in ('subset_obs', 'subset_channel'):
                a = s['args']
                br.add('subset:scalar' if a.get('scalar') else 'subset:list')
            if isinstance(out, dict) and 'state' in out:
                for d in out['state']:
                    m = d['meas']
                    if len(m) == 0:
                        br.add('subset:empty')
                        continue
                    if len(m) == 1:
                        br.add('size1:obs')
                    if len(m[0]) == 1:
                        br.add('size1:chan')
                    if d['temporal'] and len(m[0]) and len(m[0][0]) == 1:
                        br.add('size1:time')
                    if d['temporal'] and d['time'] and any(len(v) == 0 for v in d['time'].values()):
                        br.add('subset:empty')
                if op['name'] == 'merge' and n > 0:
                    prev = [x for x in steps[:n] if isinstance(x['out'], dict) and 'state' in x['out']]
                    if prev:
                        before_m = prev[-1]['out']['state']
                        after = out['state'][0]
                        if any(k not in after['desc'] for b in before_m for k in b['desc']):
                            br.add('merge:promoted')
                if op['name'] == 'sort_by' and out['state'] and any(
                        d['temporal'] and len(d['meas']) > 16 for d in out['state']):
                    br.add('sort:temporal-large')
    f['branches'] = sorted(br)
    return f


def _round7_branches(br, case, op, step, before):
    """coverage tags of the round-7 input class (non-finite measurements), read off the real side's
    canonical states: the operation was admissible and the dataset it was applied to holds such cells"""
    import math
    out, args = step['out'], step['args']
    if not (isinstance(out, dict) and ('state' in out or 'query' in out)):
        return
    objs = before if op['name'] == 'merge' else \
        [before[args['at']]] if isinstance(args, dict) and args.get('at', 0) < len(before) else []
    for d in objs:
        m = d['meas']
        rows = [[x for ch in r for x in (ch if isinstance(ch, list) else [ch])] for r in m]
        flat = [x for r in rows for x in r]
        if any(math.isnan(x) for x in flat):
            br.add('values:nan-cell')
        if any(math.isinf(x) for x in flat):
            br.add('values:inf-cell')
        if any(r and all(not math.isfinite(x) for x in r) for r in rows) and len(rows) > 1:
            br.add('values:nonfinite-row')
        nc = len(m[0]) if m else 0
        if nc > 1 and any(all(not math.isfinite(x) for r in m for x in (r[j] if isinstance(r[j], list) else [r[j]]))
                          for j in range(nc)):
            br.add('values:nonfinite-channel')
    if 'query' in out and 'avg' in out['query']:
        avg = out['query']['avg']
        for j in range(len(avg[0]) if avg else 0):
            colj = [a[j] for a in avg]
            if any(math.isnan(x) for x in colj) and any(math.isfinite(x) for x in colj):
                br.add('average:nan-other-group')      # the same channel: NaN for one condition, finite for another
    if op['name'] == 'bin_time' and 'state' in out and objs:
        res = out['state'][args['at'] + (1 if op.get('keep') else 0)]['meas']
        for r in res:
            for ch in r:
                if isinstance(ch, list) and any(not math.isfinite(x) for x in ch) and \
                        any(math.isfinite(x) for x in ch):
                    br.add('bin:nonfinite-other-bin')


def _round5_branches(br, op, step):
    """coverage tags of the round-5 input class (memory layout / dtype of the measurement array the
    operation is APPLIED to, read off the real object just before the call): the operation must have
    been admissible and have produced a state / a query result"""
    out = step['out']
    if not (isinstance(out, dict) and ('state' in out or 'query' in out)):
        return
    name = op['name']
    for lay in step.get('lay', []):
        cls, origin = lay['cls'], lay['origin']
        if cls in ('F', 'strided', 'neg', 'perm'):
            br.add('layout:' + cls)
        if lay['dtype'] in ('float32', 'int'):
            br.add('dtype:' + lay['dtype'])
        if name in ('time_as_channels', 'time_as_observations'):
            if cls in ('F', 'strided', 'neg', 'perm'):
                br.add(f'layout:{cls}+{name}')
            if origin in ('subset_time', 'split_time') and cls in ('F', 'perm'):
                # the transposed buffer `a[:, :, idx]` leaves behind: Fortran-contiguous when n_obs == 1
                # or n_channel == 1, a non-contiguous transpose otherwise
                br.add(f'layout:{cls}-from-subset_time')
                br.add(f'layout:{cls}-from-subset_time+{name}')
        elif origin in ('subset_time', 'split_time') and cls in ('F', 'perm'):
            br.add('layout:from-subset_time+other-op')


SHARE_DERIVE = ('split_channel', 'subset_channel', 'split_time', 'subset_time', 'bin_time', 'ctor')


def _round4_branches(br, op, step, before, share):
    """coverage tags of the round-4 input class (state shared between a dataset and what was
    derived from it): a derivation that leaves >= 2 objects in the workspace, then an in-place
    sort_by that really permutes one object while others are present, then reads of the others"""
    out, args, name = step['out'], step['args'], op['name']
    is_state = isinstance(out, dict) and 'state' in out
    if 'ws' in step:
        br.add('frame:reread-after-query' if isinstance(out, dict) else 'frame:reread-after-refusal')
    if share['sorted'] and (is_state or (isinstance(out, dict) and 'query' in out)):
        br.add('share:read-after-sort')
        if name in ('subset_obs', 'time_as_observations', 'merge', 'average_by', 'df'):
            br.add('share:then-' + name)
    if not is_state:
        return
    after = out['state']
    if name in ('merge', 'pick'):
        share['pending'].clear()
        share['sorted'] = False
        return
    kept = bool(op.get('keep')) and name in R.KEEPABLE
    if kept:
        br.add('keep:source')
    kind = 'ctor' if (name == 'copy' and op.get('ctor')) else name
    if kind in SHARE_DERIVE and len(after) >= 2 and (kept or len(after) - len(before) >= 1):
        share['pending'].add(kind)          # source and result, or sibling parts, are in the workspace
    if name == 'sort_by' and len(before) >= 2 and isinstance(args, dict):
        i, by = args['at'], args['by']
        if before[i]['obs'][by] != after[i]['obs'][by]:         # the sort really permuted the object
            br.add('sort:in-place-among-others')
            for k in share['pending']:
                br.add(f'share:{k}+sort')
            share['sorted'] = bool(share['pending'])


def _round3_branches(br, op, step, before):
    """coverage tags of the round-3 input classes, read off the real side's canonical states"""
    out, args = step['out'], step['args']
    is_state = isinstance(out, dict) and 'state' in out
    name = op['name']
    d = before[args['at']] if isinstance(args, dict) and 'at' in args and args['at'] < len(before) else None
    if is_state and name not in ('df', 'df_default', 'copy', 'pick') and \
            any(None in col for x in out['state'] for col in x['obs'].values()):
        br.add('missing:gathered')
    if name == 'subset_time' and is_state:
        if isinstance(args.get('lo'), float) and (op.get('lo_off') or op.get('hi_off')):
            br.add('subset_time:open-bound')
        if isinstance(args.get('hi'), float) and (op.get('lo_off') or op.get('hi_off')):
            br.add('subset_time:open-bound')
        if args.get('lo') == args.get('hi') and any(len(v) == 1 for x in out['state'] for v in x['time'].values()):
            br.add('subset_time:single-point')
    if name == 'bin_time' and is_state and d is not None:
        tcol = d['time'].get(args.get('by'), [])
        for b in args.get('bins', []):
            pos = sorted(t for t, x in enumerate(tcol) if x in b)
            if pos and pos[-1] - pos[0] + 1 != len(pos):
                br.add('bin:non-adjacent')
    if name not in ('df', 'df_default') or d is None or d['temporal'] or not d['meas'] or not d['meas'][0]:
        return
    if is_state and any(v is None for v in d['desc'].values()):
        br.add('df:missing-dataset-desc')
    cols = list(d['obs'].values())
    names = d['chan'].get(args.get('key'), [])
    uniq = len(set(map(repr, names))) == len(names)
    clash = any(isinstance(x, str) and (x in d['obs'] or x in d['desc']) for x in names)
    floaty = [c for c in cols + [[v] for v in d['desc'].values()]
              if c and all(x is None or isinstance(x, (int, float)) for x in c)
              and any(x is None or isinstance(x, float) for x in c)]
    if is_state:
        for c in cols:
            if None in c and any(isinstance(x, str) for x in c):
                br.add('df:missing-str')
            if None in c and any(isinstance(x, float) for x in c):
                br.add('df:missing-float')
            if None in c and len({x for x in c if x is not None}) == 1:
                br.add('df:const-except-missing')
            if c and all(x is None for x in c):
                br.add('df:all-missing')
        if name == 'df' and any(any(isinstance(x, float) for x in c) for c in cols):
            br.add('df:float-explicit')
    elif out == 'inadmissible' and uniq:
        if clash:
            br.add('df:name-clash')
        elif name == 'df_default' and floaty:
            br.add('df:float-unrepresentable')
            if any(all(isinstance(x, float) and x.is_integer() for x in c) for c in floaty):
                br.add('df:integral-float')


def nontrivial_key(case, impl):
    if impl is None:
        return None
    if impl['init'] == 'rejected':
        return ['rejected', case['init']['obs'], case['init']['chan'], case['init']['time']]
    if not any(isinstance(s['out'], dict) for s in impl['steps']):
        return None
    return [case['init']['meas'], case['init']['obs'], case['ops'], case['init'].get('nonfinite')]


def shrink(case, still_fails):
    """drop operations, then observations / channels / time points, while the oracle still fails"""
    cur = case
    changed = True
    while changed:
        changed = False
        for n in range(len(cur['ops']) - 1, -1, -1):
            cand = dict(cur, ops=cur['ops'][:n] + cur['ops'][n + 1:])
            if cand['ops'] and still_fails(cand):
                cur, changed = cand, True
        init = cur['init']
        for axis in ('obs', 'chan', 'time'):
            size = {'obs': len(init['meas']), 'chan': len(init['meas'][0]), 'time': len(init['meas'][0][0])}[axis]
            for p in range(size - 1, -1, -1):
                if size <= 1:
                    break
                ni = _drop(init, axis, p)
                cand = dict(cur, init=ni)
                if still_fails(cand):
                    cur, init, changed = cand, ni, True
                    size -= 1
    return cur


def _drop(init, axis, p):
    ni = dict(init)
    m = init['meas']
    if axis == 'obs':
        ni['meas'] = [r for i, r in enumerate(m) if i != p]
    elif axis == 'chan':
        ni['meas'] = [[c for j, c in enumerate(r) if j != p] for r in m]
    else:
        if not init['temporal']:
            return init
        ni['meas'] = [[[v for t, v in enumerate(c) if t != p] for c in r] for r in m]
    if init.get('nonfinite'):
        a = ('obs', 'chan', 'time').index(axis)
        ni['nonfinite'] = [[*(x - (1 if n == a and x > p else 0) for n, x in enumerate(c[:3])), c[3]]
                           for c in init['nonfinite'] if c[a] != p]
    if init[axis] is not None:
        ni[axis] = [[k, col if isinstance(col, str) else [v for q, v in enumerate(col) if q != p]]
                    for k, col in init[axis]]
    return ni
