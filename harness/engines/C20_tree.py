"""C20 / fMRIPrep runs in a real BIDS tree written by the harness (io/bids.py file accessors,
BidsLayout.find_mri_derivative_files, io/fmriprep.py: find_fmriprep_runs, FmriprepRun.*).

Every file's content is a function of its *path* (its position `pid` in the sorted list of written
paths), so "which file did the accessor read" is observable: the Lean model names the paths
(look-ups as entity substitutions), the real code reads files, the contents must agree."""
import hashlib
import json
import os
import shutil
import tempfile
from engines.C20_bids import fmt, label

CF = ['global_signal', 'csf', 'white_matter', 'trans_x', 'trans_y', 'trans_z', 'rot_x', 'rot_y', 'rot_z']
KEY = 'derivatives/fmriprep/desc-aparcaseg_dseg.tsv'
_TMP = None


def tmpdir():
    global _TMP
    if _TMP is None:
        _TMP = tempfile.mkdtemp(prefix='c20tree')
        import atexit
        atexit.register(shutil.rmtree, _TMP, True)
    return _TMP


def run_ent(rng, sub, ses, task, run, space):
    return {'derivative': 'fmriprep', 'sub': sub, 'ses': ses, 'task': task, 'run': run,
            'space': space, 'desc': 'preproc', 'modality': 'func', 'suffix': 'bold', 'ext': 'nii.gz'}


def cf_choice(rng, form=None):
    """requested confound names: None / [] (both mean the default nine), a subset in any order,
    the whole list reversed, or a list naming a column the table does not have"""
    form = form or rng.choice(['none', 'subset', 'subset', 'empty', 'reversed', 'missing'])
    if form == 'none':
        return None
    if form == 'empty':
        return []
    if form == 'reversed':
        return CF[::-1]
    if form == 'missing':
        return [rng.choice(CF), 'framewise_displacement']
    return rng.sample(CF, 3)


def tree_case(rng, shape, tasks=None, cf=None):
    """shape: list of (ses?, task?, run?, space?) presence tuples, one per run"""
    runs, seen = [], set()
    subs = [label(rng).replace('.', '') for _ in range(2)]
    task_pool = ['rest', 'main', 'loc', 'nback']
    for k, (has_ses, has_task, has_run, has_space) in enumerate(shape):
        e = run_ent(rng, subs[k % 2], ('0%d' % (1 + (k // 2) % 2)) if has_ses else None,
                    task_pool[k % 4] if has_task else None,
                    str(1 + k // 2) if has_run else None,
                    rng.choice(['MNI152', 'T1w']) if has_space else None)
        p = fmt(e)
        if p not in seen:
            seen.add(p)
            runs.append(e)
    return {'kind': 'tree', 'runs': runs, 'tasks': tasks,
            'masked': rng.random() < 0.5, 'collapse': rng.random() < 0.5,
            'cf_names': cf_choice(rng, cf)}


def gen(rng, tier):
    k = 1 if tier == 'quick' else 10
    # directed skeleton
    yield tree_case(rng, [(1, 1, 1, 1), (0, 1, 1, 0)], cf='none')            # full / no session
    yield tree_case(rng, [(0, 1, 0, 0), (1, 0, 1, 1)], cf='empty')           # task w/o run, run w/o task
    yield tree_case(rng, [(0, 0, 0, 0)], cf='missing')                       # bare
    yield tree_case(rng, [(1, 1, 1, 1)] * 4, tasks=['main', 'rest'], cf='reversed')   # task filter, order of tasks
    yield tree_case(rng, [(0, 1, 1, 0)] * 3, tasks=['nothere'], cf='subset')  # nothing found
    c = tree_case(rng, [(0, 1, 1, 0)])
    c['no_derivative'] = True
    yield c
    for _ in range(8 * k):
        shape = [tuple(rng.random() < 0.6 for _ in range(4)) for _ in range(rng.randint(1, 5))]
        tasks = None
        if rng.random() < 0.4:
            tasks = rng.sample(['rest', 'main', 'loc', 'nback'], rng.randint(1, 2))
        yield tree_case(rng, shape, tasks)


def layout(case):
    """all files of the tree: {relpath: kind}"""
    files = {}
    for e in case['runs']:
        files[fmt(e)] = 'bold'
        files[fmt(dict(e, ext='json'))] = 'json'
        files[fmt(dict(e, derivative=None, space=None, desc=None, suffix='events', ext='tsv'))] = 'events'
        files[fmt(dict(e, desc='confounds', suffix='timeseries', ext='tsv', space=None))] = 'confounds'
        files[fmt(dict(e, desc='brain', suffix='mask'))] = 'mask'
        files[fmt(dict(e, desc='aparcaseg', suffix='dseg'))] = 'parc'
        # distractors the search must not return: another suffix without desc, the same name in
        # another derivative and in the raw tree
        files[fmt(dict(e, desc=None, suffix='boldref'))] = 'other'
        files[fmt(dict(e, derivative='other-pipe'))] = 'other'
        files[fmt(dict(e, derivative=None))] = 'other'
    files[KEY] = 'key'
    return files


def pid_of(case):
    return {p: i for i, p in enumerate(sorted(layout(case)))}


def array_of(kind, pid):
    import numpy as np
    if kind == 'bold':
        return (pid * 100 + np.arange(12, dtype=float)).reshape(2, 2, 1, 3)
    if kind == 'mask':
        m = ((np.arange(4) + pid) % 2 == 0).astype(float).reshape(2, 2, 1)
        return m
    if kind == 'parc':
        return ((np.arange(4) + pid) % 3 + 1).astype(float).reshape(2, 2, 1)
    return np.zeros((2, 2, 1))


def build(case):
    root = os.path.join(tmpdir(), hashlib.sha1(json.dumps(case, sort_keys=True).encode()).hexdigest()[:12])
    if os.path.isdir(root):
        return root
    pids = pid_of(case)
    for p, kind in layout(case).items():
        if case.get('no_derivative') and p.startswith('derivatives'):
            continue
        full = os.path.join(root, p)
        os.makedirs(os.path.dirname(full), exist_ok=True)
        pid = pids[p]
        with open(full, 'w') as fh:
            if kind == 'json':
                json.dump({'id': pid, 'RepetitionTime': 2.0}, fh)
            elif kind == 'events':
                fh.write('onset\tduration\ttrial_type\n')
                for i, tt in enumerate([f'p{pid}b', f'p{pid}a', f'p{pid}b']):
                    fh.write(f'{10 * i}\t5\t{tt}\n')
            elif kind == 'confounds':
                fh.write('\t'.join(CF) + '\n')
                for i in range(3):
                    fh.write('\t'.join(str(pid + 0.25 * i + j) for j in range(len(CF))) + '\n')
            elif kind == 'key':
                fh.write('index\tname\n1\tL1\n2\tL2\n3\tL3\n')
    os.makedirs(root, exist_ok=True)
    return root


class _Nib:
    """stand-in for nibabel: an image's data is a function of its path"""
    def __init__(self, root, case):
        self.root, self.kinds, self.pids = root, layout(case), pid_of(case)

    def load(self, fpath):
        rel = os.path.relpath(fpath, self.root)
        if not os.path.exists(fpath):
            raise FileNotFoundError(fpath)
        arr = array_of(self.kinds.get(rel, 'other'), self.pids.get(rel, -1))

        class Img:
            def get_fdata(self_inner):
                return arr
        return Img()


def _try(fn):
    try:
        return fn()
    except Exception as exc:  # noqa: BLE001
        return {'exc': type(exc).__name__}


def impl(case):
    import rsatoolbox.io.bids as rbids
    from rsatoolbox.io.fmriprep import find_fmriprep_runs
    root = build(case)
    nib = _Nib(root, case)
    saved = rbids.import_nibabel
    rbids.import_nibabel = lambda mock=None: nib
    try:
        try:
            runs = find_fmriprep_runs(root, tasks=case['tasks'])
        except ValueError:
            return {'exc': 'ValueError'}
        out = []
        for r in runs:
            def cf():
                df = r.get_confounds(case['cf_names'])
                return {'columns': list(df.columns), 'first': [float(v) for v in df.iloc[0]]}
            out.append({
                'path': r.boldFile.relpath, 'sub': r.sub, 'ses': r.ses, 'run': r.run,
                'descriptors': _try(lambda: dict(r.get_dataset_descriptors())),
                'meta': _try(lambda: r.get_meta()['id']),
                'events': _try(lambda: list(r.get_events()['trial_type'])),
                'confounds': _try(cf),
                'mask': _try(lambda: r.get_mask().ravel().tolist()),
                'parc': _try(lambda: r.get_parcellation().ravel().tolist()),
                'obs': _try(lambda: [str(x) for x in
                                     r.get_obs_descriptors(case['collapse'])['trial_type']]),
                'channel': _try(lambda: [str(x) for x in
                                         r.get_channel_descriptors(case['masked'])['aparcaseg']]),
                'data': _try(lambda: r.get_data(case['masked']).tolist()),
                'repr': repr(r),
                'to_descriptors_keys': _try(lambda: sorted(r.to_descriptors(case['collapse'],
                                                                            case['masked']))),
            })
        return out
    finally:
        rbids.import_nibabel = saved


def requests(case):
    files = [p for p in sorted(layout(case))
             if not (case.get('no_derivative') and p.startswith('derivatives'))]
    # the derivative / description searched for and the desc / suffix of every sibling are the
    # model's own (regenerated from the source); the table's column names are the file's
    return [{'op': 'c20.tree', 'files': files, 'tasks': case['tasks'],
             'cf_names': case['cf_names'], 'cf_table': CF}]


def expected_view(case, path, descriptors, paths, cols):
    """what the accessors must return when they read the files at `paths` (name -> relpath)"""
    kinds, pids = layout(case), pid_of(case)
    if case.get('no_derivative'):
        kinds = {p: k for p, k in kinds.items() if not p.startswith('derivatives')}

    def read(name, kind):
        p = paths[name]
        if kinds.get(p) is None:
            return None
        return pids[p] if kind is None else array_of(kind, pids[p])
    out = {'path': path, 'descriptors': descriptors}
    pid = read('meta', None)
    out['meta'] = pid if pid is not None else {'exc': 'FileNotFoundError'}
    pid = read('events', None)
    tt = None if pid is None else [f'p{pid}b', f'p{pid}a', f'p{pid}b']
    out['events'] = tt if tt else {'exc': 'FileNotFoundError'}
    pid = read('confounds', None)
    out['confounds'] = {'exc': 'FileNotFoundError'} if pid is None else cols if isinstance(cols, dict) \
        else {'columns': cols, 'first': [pid + float(CF.index(n)) for n in cols]}
    mask = read('mask', 'mask')
    parc = read('parc', 'parc')
    bold = array_of('bold', pids[path]) if path in pids else None
    out['mask'] = {'exc': 'FileNotFoundError'} if mask is None else mask.astype(bool).ravel().tolist()
    out['parc'] = {'exc': 'FileNotFoundError'} if parc is None else parc.astype(int).ravel().tolist()
    if tt is None:
        out['obs'] = {'exc': 'FileNotFoundError'}
    elif case['collapse']:
        out['obs'] = [tt[0], tt[1]]
    else:
        out['obs'] = tt
    key_ok = kinds.get(paths['key']) == 'key'
    if parc is None or not key_ok or (case['masked'] and mask is None):
        out['channel'] = {'exc': 'FileNotFoundError'}
    else:
        ix = parc.astype(int)[mask.astype(bool)] if case['masked'] else parc.astype(int).ravel()
        out['channel'] = [f'L{i}' for i in ix.tolist()]
    if bold is None or (case['masked'] and mask is None):
        out['data'] = {'exc': 'FileNotFoundError'}
    elif case['masked']:
        out['data'] = bold[mask.astype(bool), :].tolist()
    else:
        out['data'] = bold.reshape([-1, bold.shape[-1]]).tolist()
    bad = [out[k] for k in ('obs', 'channel') if isinstance(out[k], dict)]
    out['to_descriptors_keys'] = bad[0] if bad else ['channel_descriptors', 'descriptors', 'obs_descriptors']
    return out


def result(case, answers):
    a = answers[0]
    if not isinstance(a, list):
        return a
    if case.get('no_derivative'):
        return {'exc': 'ValueError'}
    out = []
    for r in a:
        if 'exc' in r:
            out.append(r)
            continue
        v = expected_view(case, r['path'], r['descriptors'],
                          {k: r[k] for k in ('meta', 'events', 'confounds', 'mask', 'parc', 'key')},
                          r['confound_cols'])
        v.update(sub=r['ent']['sub'], ses=r['ent']['ses'], run=r['ent']['run'],
                 repr='<FmriprepRun [%s]>' % r['repr'])
        out.append(v)
    return out


def oracle(case):
    """runs found = the bold files of the tree (of the requested tasks), each with the descriptors
    its name encodes and every accessor reading the sibling file of the same run"""
    out = impl(case)
    feats = {'tree_tasks': case['tasks'] is not None}
    if case.get('no_derivative'):
        return None
    if isinstance(out, dict):
        return {'what': 'fMRIPrep tree not searched', 'observed': out, 'expected': 'runs', 'features': feats}
    want = sorted(case['runs'], key=fmt)
    if case['tasks'] is not None:
        want = [e for t in case['tasks'] for e in want if e['task'] == t]
    if [r['path'] for r in out] != [fmt(e) for e in want]:
        return {'what': 'runs found differ from the preproc bold files of the tree',
                'observed': [r['path'] for r in out], 'expected': [fmt(e) for e in want],
                'features': feats}
    for r, e in zip(out, want):
        f = dict(feats, has_run=e['run'] is not None, has_task=e['task'] is not None)
        descs = {k: e[k] for k in ('sub', 'ses', 'run', 'task') if e[k] is not None}
        if r['descriptors'] != descs:
            return {'what': 'dataset descriptors are not the sub/ses/run/task entities of the file name',
                    'observed': r['descriptors'], 'expected': descs, 'features': f}
        paths = {'meta': fmt(dict(e, ext='json')),
                 'events': fmt(dict(e, derivative=None, space=None, desc=None, suffix='events', ext='tsv')),
                 'confounds': fmt(dict(e, desc='confounds', suffix='timeseries', ext='tsv', space=None)),
                 'mask': fmt(dict(e, desc='brain', suffix='mask')),
                 'parc': fmt(dict(e, desc='aparcaseg', suffix='dseg')), 'key': KEY}
        names = case['cf_names'] or CF
        exp = expected_view(case, fmt(e), descs, paths,
                            names if all(n in CF for n in names) else {'exc': 'KeyError'})
        for k in ('meta', 'events', 'confounds', 'mask', 'parc', 'obs', 'channel', 'data'):
            if r[k] != exp[k]:
                return {'what': f'{k}: the accessor did not return the content of the sibling file of its run',
                        'observed': r[k], 'expected': exp[k], 'run': fmt(e), 'features': f}
    return None


def feats(case, impl_res):
    b = ['tree:search']
    if case['tasks'] is not None:
        b.append('tree:tasks')
    if case.get('no_derivative'):
        b.append('tree:no_derivative')
    if isinstance(impl_res, list) and not impl_res:
        b.append('tree:empty')
    for e in case['runs']:
        if e['task'] is not None and e['run'] is None:
            b.append('tree:task_without_run')
        if e['task'] is None and e['run'] is not None:
            b.append('tree:run_without_task')
        if e['ses'] is not None:
            b.append('tree:ses')
    by_sub = {}
    for e in case['runs']:
        if e['ses'] is not None:
            by_sub.setdefault(e['sub'], set()).add(e['ses'])
    if any(len(v) > 1 for v in by_sub.values()):
        b.append('tree:two_sessions')
    b.append('tree:masked' if case['masked'] else 'tree:unmasked')
    cf = case['cf_names']
    b.append('tree:cf_default' if cf is None else 'tree:cf_empty' if cf == [] else
             'tree:cf_missing' if any(n not in CF for n in cf) else 'tree:cf_named')
    return {'kind': 'tree', 'tree_tasks': case['tasks'] is not None, 'branches': sorted(set(b))}


BRANCHES = ['tree:search', 'tree:tasks', 'tree:no_derivative', 'tree:empty', 'tree:task_without_run',
            'tree:run_without_task', 'tree:ses', 'tree:cf_default', 'tree:cf_empty', 'tree:cf_missing',
            'tree:cf_named', 'tree:two_sessions']
