"""C03 — RDM comparison measures equal their definitions for every pair of RDMs.

Engine interface (see harness/run_check.py):
  THEOREMS, LEVEL, RULE, BRANCHES, generate, run_impl, model_requests, model_result,
  compare, oracle, features, nontrivial_key, search, shrink

Case kinds
  compare : two stacks of RDM vectors over n conditions (numbers are ints or "p/q"
            dyadics, exactly representable as doubles), a method, sigma_k
            (None | {'vec': [...]} | {'mat': [[...]]}), how the stacks are passed
            ('array' | 'rdms' | 'mixed'), a simultaneous condition permutation.
            The real `compare()` is run on arrays, on RDMs objects and on the permuted
            conditions; the Lean model (Rsa.Core.Compare via the driver) on the plain and
            on the permuted vectors.
  getv    : `_get_v(n, sigma_k)` against the model's V (exact rationals), as coded and as defined
  ranks   : `scipy.stats.rankdata` against the model's tie-averaged ranks (exact)
  session : (round 4) the SAME two objects (float64 ndarrays, RDMs objects, read-only arrays,
            non-contiguous views, one object passed twice) handed to 2-4 successive `compare()` calls
            with different methods; every call is judged against the definition on a pristine copy
            of the original stacks, the inputs must be bit-identical after every call, and a valid
            read-only input must not raise.  Model: `Rsa.Compare.sessionRun` (heap model of a call,
            aliasing / in-place flags regenerated from the source text).
  value scales (round 5): a `compare`, `session` or `riem` case may carry `scale = {'x': [e..], 'y': [e..]}`,
            one exponent per RDM: the RDM handed to the library (and, exactly, to the model) is the listed
            one times 2**e, e in -90..+60 (both stacks, one stack only, single RDMs of a stack, mixed).
            `_eff(case)` materialises the exact values; measures are judged by the definition evaluated on
            max-normalised vectors (oracle) and by their scale laws (every similarity is invariant under
            positive scaling of either argument, the squared Bures metric is homogeneous of degree 1).
"""
import importlib
import itertools
import math
from fractions import Fraction as F

import numpy as np

from lean import rat, unrat, fbits, unfbits, deep, close
from engines import C03_oracle as orc

PROPERTY = 'C03'
LEVEL = 'proof'
P = 'Rsa.Props.C03.'
THEOREMS = [P + n for n in (
    'compareAll_entry', 'compareAll_shape',
    'cosine_def', 'cosine_symm', 'cosine_abs_le_one', 'cosine_self', 'cosine_perm',
    'corr_def', 'corr_symm', 'corr_abs_le_one', 'corr_self', 'corr_perm',
    'spearman_symm', 'spearman_abs_le_one', 'spearman_self', 'spearman_perm',
    'pair_classes', 'tauA_algo_eq_spec', 'tauA_symm', 'tauA_range', 'tauA_perm', 'tauA_self',
    'tauA_self_ties_witness',
    'tauB_algo_eq_spec', 'tauB_symm', 'tauB_range', 'tauB_perm', 'tauB_self',
    'rhoA_def', 'rankOf_mean_of_positions', 'rhoA_symm', 'rhoA_perm', 'rhoA_self_no_ties', 'rhoA_range_partial',
    'getV_entry', 'getV_none_eq_identity', 'getV_vec_eq_diag', 'getV_symm', 'vSpec_cond_perm',
    'whitened_symm', 'whitened_abs_le_one', 'whitened_self', 'whitened_perm',
    'cond_perm_entries', 'measures_cond_perm',
    'centreKernel_symm', 'centreKernel_row_sum', 'centreKernel_perm',
    'bures_symm_partial', 'bures_self_partial', 'bures_metric_self_partial',
    'whitened_fast_eq_V', 'whitened_corr_fast_eq_V', 'rhoA_coded_eq', 'fast_coded_eq', 'accepts_iff',
    'getV_none_posDef', 'whitened_none_props',
    # round 3
    'rank_sum_sq_le', 'rhoA_range', 'rhoA_range_full_holds',
    'getV_vec_posDef', 'whitened_vec_props',
    'denseRanks_order', 'sortAndRank_keeps_counts', 'tauA_passes_sorted_counts',
    'runTies_counts_joint_ties', 'bincountTies_counts_ties', 'tauA_twoPass_eq_spec',
    'cosine_coded_eq', 'getV_coded_eq', 'cov_route_iff', 'nCond_recovery', 'cka_steps_coded_eq',
    'whitened_dispatch_eq', 'bures_coded_eq',
    'sigmaHat_entry', 'riemGram_value', 'negRiem_contract',
    'bures_symm', 'bures_self', 'bures_cond_perm', 'bures_nonneg',
    'getV_gram_psd', 'whitened_psd_props',
    # round 4: reuse sessions
    'session_call_pure', 'session_results_eq_definition', 'coded_call_safe', 'compare_session_pure',
    'session_corr_is_corr', 'session_alias_inplace_witness',
    # round 5: positive scaling
    'cosine_guard_scale_free', 'cosine_scale', 'corr_scale', 'cosine_coded_scale', 'spearman_scale',
    'rhoA_scale', 'tau_scale', 'whitened_scale', 'whitened_fast_scale',
)]
RULE = ('cases come from one PRNG: kind compare (n = 3..7 conditions, stacks of 1..4 RDMs, '
        'small integer / quarter-valued dissimilarities with many ties, negatives, occasional '
        'constant or zero RDMs and repeated RDMs; every method; sigma_k None / positive '
        'vector / SPD matrix; arrays, RDMs objects or mixed; a simultaneous condition '
        'permutation; squared Euclidean distances of integer point sets for the Bures '
        'measures), kind getv (V against the definition, exact) and kind ranks (rankdata, '
        'exact), kind session (the same two float64 objects - ndarray, RDMs, read-only, strided view, '
        'mixed, one object twice - through 2-4 successive compare() calls, shift-invariant measures '
        'first, then non-invariant ones; inputs bit-identical after every call); about 40 % of the compare / session / '
        'riem cases carry value scales: RDMs multiplied by exact powers of two 2^-90 .. 2^+60 (both stacks, one stack, '
        'single RDMs of a stack, mixed), the model is fed the exact values. A case is non-trivial when at least one compared RDM is non-constant; '
        'distinct = distinct (kind, method, n, stacks, sigma_k, input form, permutation).')
METHODS = ['cosine', 'corr', 'spearman', 'kendall', 'tau-b', 'tau-a', 'rho-a',
           'corr_cov', 'cosine_cov', 'bures', 'bures_metric']
EXACT = ('tau-a', 'rho-a')
BRANCHES = (['method:' + m for m in METHODS] +
            ['sigma:none', 'sigma:vec', 'sigma:vec_const', 'sigma:mat',
             'input:array', 'input:rdms', 'input:mixed', 'perm', 'ties', 'no_ties', 'negative',
             'zero_norm', 'kendall_nan', 'stack>1', 'self_pair', 'kind:getv', 'kind:ranks',
             'fast_path_vs_V', 'input:array1d', 'kind:reject', 'reject:method', 'reject:shape',
             'getv:matrix_get_v', 'bures:second_way',
             'input:rdms_sq', 'dtype:int-int', 'dtype:int-float', 'dtype:float-float', 'dtype:float32',
             'dtype:bool', 'layout:C', 'layout:F', 'layout:strided',
             # round 3
             'coded_vs_spec', 'kind:passes', 'passes:joint_ties', 'passes:joint_run>=3', 'passes:no_ties',
             'passes:xtie_only', 'kind:riem', 'riem:sigma_none', 'riem:sigma_mat', 'riem:full_run',
             # round 4
             'kind:session', 'session:ndarray', 'session:rdms', 'session:mixed', 'session:readonly',
             'session:view', 'session:rdms_readonly', 'session:same_object', 'session:centre_then_noninv',
             'session:rank_then_noninv', 'session:bures_after', 'session:cov_after', 'session:len>=3',
             'session:stack>1', 'session:sigma_refilled', 'single_call_inputs_intact',
             # round 5: value scales
             'scale:tiny', 'scale:huge', 'scale:one-sided', 'scale:both', 'scale:within_stack',
             'scale:self_pair', 'scale:law_checked', 'session:scaled', 'session:scale_tiny', 'riem:scaled'] +
            ['scale:tiny:' + m for m in METHODS])
ASSUMPTIONS = [
    'IEEE evaluation of either side is within the stated tolerance of the real value '
    '(inputs are small integers / quarters, n <= 7, well-conditioned sigma_k)',
    'scipy.sparse.linalg.cg returns s with V s = r up to its rtol 1e-5 (tolerance 2e-4 on whitened '
    'measures with a given sigma_k); np.linalg.eigh returns an eigen-decomposition (Bures, 1e-5)',
]
TRUSTED_EXTRA = [
    'contract: scipy.stats.rankdata(method=average) = count form of tie-averaged ranks (checked exactly, kind ranks)',
    'contract: scipy.stats._stats._kendall_dis returns the number of discordant pairs of its sorted input '
    '(checked through tau-a / tau-b agreement with exact pair counts)',
    'contract: scipy.sparse.linalg.cg solves V s = r; np.linalg.eigh diagonalises a symmetric matrix',
    'contract (tauA_twoPass_eq_spec): _kendall_dis(x, y) = number of discordant pairs when (x, y) are rank '
    'vectors sorted by x and, among equal x, by y - the precondition is proved (tauA_passes_sorted_counts)',
    'contract (bures_*): Asq @ Asq = A and eigvalsh = roots of the characteristic polynomial with multiplicity',
    'contract (negRiem_contract): scipy.optimize.minimize(Nelder-Mead) returns a point not worse than its start; '
    'scipy.linalg.eigvalsh(A, B) are the generalised eigenvalues (parameters of the model)',
]

_cmp = importlib.import_module('rsatoolbox.rdm.compare')


# ------------------------------------------------------------------ helpers

def _fl(v):
    return float(unrat(v))


def _arr(stack):
    return np.array([[_fl(v) for v in row] for row in stack], dtype=float)


def _sigma_np(sig):
    if sig is None:
        return None
    if 'vec' in sig:
        return np.array([_fl(v) for v in sig['vec']], dtype=float)
    return np.array([[_fl(v) for v in row] for row in sig['mat']], dtype=float)


def tri_pairs(n):
    return [(i, j) for i in range(n) for j in range(i + 1, n)]


def permute_vec(vec, n, perm):
    """vector of the RDM whose condition k is the old condition perm[k]"""
    pos = {p: k for k, p in enumerate(tri_pairs(n))}
    out = []
    for (i, j) in tri_pairs(n):
        a, b = perm[i], perm[j]
        out.append(vec[pos[(a, b) if a < b else (b, a)]])
    return out


def permute_sigma(sig, perm):
    if sig is None:
        return None
    if 'vec' in sig:
        return {'vec': [sig['vec'][p] for p in perm]}
    return {'mat': [[sig['mat'][p][q] for q in perm] for p in perm]}


def _mat_out(m):
    return [[None if (isinstance(v, float) and math.isnan(v)) else float(v) for v in row]
            for row in np.asarray(m, dtype=float).tolist()]


DTYPES = {'float64': np.float64, 'float32': np.float32, 'int64': np.int64, 'int32': np.int32,
          'bool': np.bool_}


def dtype_ok(stack, dtype):
    """can every value of the stack be stored exactly in that numpy dtype?"""
    vals = [unrat(v) for r in stack for v in r]
    if dtype == 'float64':
        return True
    if dtype == 'float32':
        return all(F(float(np.float32(float(v)))) == v for v in vals)
    if dtype == 'bool':
        return all(v in (0, 1) for v in vals)
    return all(v.denominator == 1 and abs(v) < 2 ** 31 for v in vals)


def _typed(stack, dtype, layout):
    """the stack as a 2-D ndarray of the given dtype and memory layout (same values)"""
    a = _arr(stack).astype(DTYPES[dtype])
    if layout == 'F':
        a = np.asfortranarray(a)
    elif layout == 'strided':
        big = np.zeros((2 * a.shape[0], 2 * a.shape[1] + 1), dtype=a.dtype)
        big[::2, 1::2] = a
        a = big[::2, 1::2]            # non-contiguous view
    return a


def _snap(obj):
    """bit pattern of the caller's data: an ndarray, or the dissimilarities of an RDMs object"""
    a = obj if isinstance(obj, np.ndarray) else obj.dissimilarities
    return (a.dtype.str, a.shape, np.ascontiguousarray(a).tobytes())


def _call(x, y, method, sigma, form, dtypes=('float64', 'float64'), layout='C'):
    from rsatoolbox.rdm import RDMs
    from scipy.spatial.distance import squareform
    try:
        xa, ya = _typed(x, dtypes[0], layout), _typed(y, dtypes[1], layout)
        if form == 'array1d':        # a single RDM passed as a 1-D vector (`reshape(1, -1)` branch)
            xa = xa[0] if len(x) == 1 else xa
            ya = ya[0] if len(y) == 1 else ya
        if form in ('rdms', 'mixed'):
            xa = RDMs(dissimilarities=xa)
        if form == 'rdms':
            ya = RDMs(dissimilarities=ya)
        if form == 'rdms_sq':        # RDMs objects built from stacks of square matrices
            xa = RDMs(dissimilarities=np.array([squareform(v) for v in xa]))
            ya = RDMs(dissimilarities=np.array([squareform(v) for v in ya]))
        before = (_snap(xa), _snap(ya))
        with np.errstate(all='ignore'):
            import warnings
            with warnings.catch_warnings():
                warnings.simplefilter('ignore')
                res = _mat_out(_cmp.compare(xa, ya, method=method, sigma_k=_sigma_np(sigma)))
        if (_snap(xa), _snap(ya)) != before:
            return {'exc': 'InputModified'}      # compare() changed the caller's data
        return res
    except (ValueError, TypeError, AssertionError, IndexError, ZeroDivisionError,
            np.linalg.LinAlgError, AttributeError) as exc:
        return {'exc': type(exc).__name__}


def case_dtypes(case):
    return tuple(case.get('dtypes', ('float64', 'float64')))



# ------------------------------------------------------------------ value scales (round 5)

TINY = [-90, -80, -70, -60, -50]          # norm of an O(1..100) RDM far below any absolute epsilon
HUGE = [40, 50, 60]
MID = [-35, -20, -8, 12, 25]


def _pow2(v, e):
    """v * 2**e, exactly"""
    return rat(F(unrat(v)) * F(2) ** e)


def _eff(case):
    """the case with the exact values that are handed to the library and to the model: RDM k of stack s is
    the listed vector times 2**scale[s][k].  Idempotent; the listed (unscaled) stacks stay in `base`."""
    sc = case.get('scale')
    if not sc:
        return case
    x = [[_pow2(v, e) for v in r] for r, e in zip(case['x'], sc['x'])]
    y = x if case.get('same') else [[_pow2(v, e) for v in r] for r, e in zip(case['y'], sc['y'])]
    return dict(case, x=x, y=y, scale=None, scale_of={'x': list(sc['x']), 'y': list(sc['x'] if case.get('same') else sc['y'])},
                base={'x': case['x'], 'y': case['x'] if case.get('same') else case['y']})


def _scale(rng, nx, ny, mode=None, cls=None):
    """exponents for every RDM of the two stacks.  mode: both | one | single | mixed; cls: tiny | huge | mid"""
    mode = mode or rng.choice(['both', 'both', 'one', 'one', 'single', 'mixed'])
    cls = cls or rng.choice(['tiny', 'tiny', 'tiny', 'huge', 'mid'])
    pal = {'tiny': TINY, 'huge': HUGE, 'mid': MID}[cls]
    e = rng.choice(pal)
    if mode == 'both':
        sx, sy = [e] * nx, [e] * ny
    elif mode == 'one':
        sx, sy = ([e] * nx, [0] * ny) if rng.random() < 0.5 else ([0] * nx, [e] * ny)
    elif mode == 'single':
        sx, sy = [0] * nx, [0] * ny
        if rng.random() < 0.5:
            sx[rng.randrange(nx)] = e
        else:
            sy[rng.randrange(ny)] = e
    else:
        pool = pal + pal + [0] + rng.choice([TINY, HUGE, MID])
        sx, sy = [rng.choice(pool) for _ in range(nx)], [rng.choice(pool) for _ in range(ny)]
        sx[rng.randrange(nx)] = e
    if all(v == 0 for v in sx + sy):
        sx[0] = e
    return {'x': sx, 'y': sy}


SCALE_PLAN = [('both', 'tiny'), ('one', 'tiny'), ('single', 'tiny'), ('both', 'huge'), ('mixed', 'tiny'),
              ('one', 'huge'), ('mixed', None), ('single', 'huge'), ('both', 'mid'), ('one', 'tiny')]


def scale_tags(sc):
    """coverage tags of a scale record (exponents per RDM)"""
    if not sc:
        return []
    ex, ey = sc['x'], sc['y']
    br = []
    if min(ex + ey) <= -50:
        br.append('scale:tiny')
    if max(ex + ey) >= 40:
        br.append('scale:huge')
    ux, uy = len(set(ex)) == 1, len(set(ey)) == 1
    if ux and uy and ((ex[0] == 0) != (ey[0] == 0)):
        br.append('scale:one-sided')
    if ux and uy and ex[0] == ey[0] != 0:
        br.append('scale:both')
    if not ux or not uy:
        br.append('scale:within_stack')
    return br


def _unit(case, i, j):
    """2**(larger exponent of the pair): the factor by which the absolute tolerance of the (degree-1
    homogeneous) squared Bures metric is transported; 1.0 for a case without scales"""
    sc = case.get('scale_of') or case.get('scale')
    if not sc:
        return 1.0
    return float(F(2) ** max(sc['x'][i], sc['y'][j]))

# ------------------------------------------------------------------ generation

def _q(rng, lo, hi, den=1):
    return rat(F(rng.randint(lo, hi), den))


def _vector(rng, m, style):
    if style == 'ties':
        return [rng.randint(0, 3) for _ in range(m)]
    if style == 'neg':
        return [rng.randint(-3, 6) for _ in range(m)]
    if style == 'quarters':
        return [_q(rng, -4, 24, 4) for _ in range(m)]
    if style == 'distinct':
        vals = rng.sample(range(-5, 4 * m), m)
        return vals
    if style == 'binary':
        return [rng.randint(0, 1) for _ in range(m)]
    if style == 'const':
        return [rng.choice([0, 1, 2])] * m
    raise ValueError(style)


def _euclid(rng, n):
    """squared Euclidean distances of n distinct integer points in 2-4 dimensions"""
    d = rng.randint(2, 4)
    while True:
        pts = [[rng.randint(-3, 3) for _ in range(d)] for _ in range(n)]
        if len({tuple(p) for p in pts}) == n:
            break
    return [sum((a - b) ** 2 for a, b in zip(pts[i], pts[j])) for i, j in tri_pairs(n)]


def _euclid_full(rng, n):
    """squared Euclidean distances of n affinely independent integer points (the second-moment
    matrix relative to condition 0 is positive definite, as `_riemannian_distance` needs)"""
    base = [rng.randint(-2, 2) for _ in range(n - 1)]
    pts = [base]
    for i in range(n - 1):
        row = [rng.randint(-1, 1) if k < i else (rng.choice([1, 2, 3]) if k == i else 0) for k in range(n - 1)]
        pts.append([b + r for b, r in zip(base, row)])
    return [sum((a - b) ** 2 for a, b in zip(pts[i], pts[j])) for i, j in tri_pairs(n)]


def _sigma(rng, n, kind):
    if kind == 'none':
        return None
    if kind == 'vec_const':
        c = rng.choice([1, 2, '1/2'])
        return {'vec': [c] * n}
    if kind == 'vec':
        while True:
            v = [rng.choice(['1/2', 1, '3/2', 2, 3, 4]) for _ in range(n)]
            if len(set(map(str, v))) > 1:
                return {'vec': v}
    # SPD matrix: B Bᵀ / 4 + I with small integer B (exact in doubles, well conditioned)
    b = [[rng.randint(-2, 2) for _ in range(n)] for _ in range(n)]
    m = [[rat(F(sum(b[i][k] * b[j][k] for k in range(n)), 4) + (1 if i == j else 0))
          for j in range(n)] for i in range(n)]
    return {'mat': m}


def _compare_case(rng, method, nmax, k=None):
    n = rng.randint(3, nmax)
    m = n * (n - 1) // 2
    nx, ny = rng.choice([1, 1, 2, 3, 4]), rng.choice([1, 2, 2, 3, 4])
    if method.startswith('bures'):
        x = [_euclid(rng, n) for _ in range(nx)]
        y = [_euclid(rng, n) for _ in range(ny)]
    else:
        styles = ['ties', 'ties', 'neg', 'quarters', 'distinct', 'distinct', 'binary']
        if rng.random() < 0.1:
            styles = ['binary']          # 0/1 (categorical) RDMs: may be passed as bool arrays
        x = [_vector(rng, m, rng.choice(styles)) for _ in range(nx)]
        y = [_vector(rng, m, rng.choice(styles)) for _ in range(ny)]
        r = rng.random()
        if r < 0.08:
            x[rng.randrange(nx)] = _vector(rng, m, 'const')
        elif r < 0.14:
            y[rng.randrange(ny)] = _vector(rng, m, 'const')
    if rng.random() < 0.3:          # an RDM compared with itself
        y[rng.randrange(ny)] = list(x[rng.randrange(nx)])
    sigma = None
    if method in ('corr_cov', 'cosine_cov'):
        sigma = _sigma(rng, n, rng.choice(['none', 'vec', 'vec', 'vec_const', 'mat', 'mat']))
    perm = list(range(n))
    if rng.random() < 0.7:
        rng.shuffle(perm)
    form = rng.choice(['array', 'array', 'rdms', 'rdms', 'mixed', 'rdms_sq'])
    if (nx == 1 or ny == 1) and rng.random() < 0.35:
        form = 'array1d'
    # numpy dtype of each stack drawn independently (only dtypes that hold the values exactly),
    # and the memory layout of the arrays handed to the library
    wish = ['float64', 'float64', 'float32', 'int64', 'int64', 'int32', 'bool']
    dtypes = []
    for st in (x, y):
        d = rng.choice(wish)
        if dtype_ok(st, 'bool') and rng.random() < 0.5:
            d = 'bool'
        if d == 'bool' and not dtype_ok(st, 'bool'):
            d = 'int64'
        dtypes.append(d if dtype_ok(st, d) else 'float64')
    if dtype_ok(x, 'int64') and dtype_ok(y, 'int64') and rng.random() < 0.25:
        dtypes = [rng.choice(['int64', 'int32']), rng.choice(['int64', 'int32'])]
    layout = rng.choice(['C', 'C', 'F', 'strided'])
    case = {'kind': 'compare', 'method': method, 'n': n, 'x': x, 'y': y, 'sigma': sigma,
            'form': form, 'dtypes': dtypes, 'layout': layout,
            'perm': None if perm == list(range(n)) else perm}
    # value scales: 2 of every 5 cases of a method (stratified over the plan when k is given)
    if (k % 5 in (1, 3)) if k is not None else (rng.random() < 0.4):
        mode, cls = SCALE_PLAN[(k // 5 * 2 + (k % 5 == 3)) % len(SCALE_PLAN)] if k is not None else (None, None)
        case['scale'] = _scale(rng, nx, ny, mode, cls)
        eff = _eff(case)
        case['dtypes'] = [d if d.startswith('float') and dtype_ok(st, d) else 'float64'
                          for d, st in zip(dtypes, (eff['x'], eff['y']))]
    return case


def _reject_case(rng):
    """the malformed stream the dispatch itself speaks about: unknown method name, or stacks
    whose RDMs have different numbers of conditions"""
    n = rng.randint(3, 5)
    m = n * (n - 1) // 2
    if rng.random() < 0.5:
        method = rng.choice(['tau-c', 'pearson', 'Cosine', 'cosine ', '', 'kendall-tau', 'rho_a', 'corr-cov'])
        ny_len = m
    else:
        method = rng.choice(METHODS)
        n2 = rng.choice([k for k in range(3, 7) if k != n])
        ny_len = n2 * (n2 - 1) // 2
    x = [_vector(rng, m, 'neg') for _ in range(rng.randint(1, 3))]
    y = [_vector(rng, ny_len, 'neg') for _ in range(rng.randint(1, 3))]
    return {'kind': 'reject', 'method': method, 'x': x, 'y': y,
            'form': rng.choice(['array', 'rdms', 'mixed'])}


def _passes_case(rng, tier):
    m = rng.randint(2, 12 if tier == 'quick' else 28)
    style = rng.choice(['joint', 'joint', 'ties', 'neg', 'quarters', 'distinct', 'xconst'])
    if style == 'joint':
        # few distinct (x, y) pairs: long runs of jointly tied entries
        pool = [(rng.randint(0, 2), rng.randint(0, 2)) for _ in range(rng.randint(1, 3))]
        pts = [rng.choice(pool) for _ in range(m)]
        x, y = [p[0] for p in pts], [p[1] for p in pts]
    elif style == 'xconst':
        x, y = [rng.choice([0, 1])] * m, _vector(rng, m, 'distinct')
    else:
        x, y = _vector(rng, m, style), _vector(rng, m, rng.choice(['ties', 'neg', 'distinct']))
    return {'kind': 'passes', 'x': x, 'y': y}


def _riem_case(rng, tier, full, k=None):
    n = rng.randint(3, 5 if full else 7)
    gen = _euclid_full if full else _euclid
    x = [gen(rng, n) for _ in range(rng.choice([1, 2]))]
    y = [gen(rng, n) for _ in range(rng.choice([1, 2]))]
    sigma = _sigma(rng, n, rng.choice(['none', 'mat']))
    case = {'kind': 'riem', 'n': n, 'x': x, 'y': y, 'sigma': sigma, 'full': full,
            'form': rng.choice(['array', 'rdms'])}
    if k is not None and k % 2 == 1:
        case['scale'] = _scale(rng, len(x), len(y))
    return case

SHIFT_INV = ['corr', 'corr_cov', 'corr', 'corr_cov', 'spearman', 'rho-a', 'kendall', 'tau-a']
NON_INV = ['cosine', 'cosine_cov', 'bures', 'bures_metric', 'cosine', 'cosine_cov']
CONTAINERS = ['ndarray', 'rdms', 'mixed', 'readonly', 'view', 'rdms_readonly']


def _session_case(rng, nmax=6, k=None):
    """the same two objects through 2-4 successive compare() calls: shift-invariant measures first
    (they may centre / rank), then measures that are not invariant to a row shift"""
    n = rng.randint(3, nmax)
    m = n * (n - 1) // 2
    k1, k2 = rng.choice([1, 1, 2]), rng.choice([1, 1, 2])
    refill = None
    r = rng.random()
    if k is not None:                             # stratified: every container / shape of session is reached
        r = 0.0 if k % 8 == 5 else (0.2 if k % 8 == 2 else 0.5)
    if r < 0.12:                                  # whitened measures with a sigma_k array the caller refills
        names = [rng.choice(['cosine_cov', 'corr_cov']) for _ in range(rng.randint(2, 3))]
        refill = rng.choice(['vec', 'mat'])
    elif r < 0.27:                                # any order, any methods
        names = [rng.choice(METHODS) for _ in range(rng.randint(2, 4))]
    else:
        names = [rng.choice(SHIFT_INV) for _ in range(k1)] + [rng.choice(NON_INV) for _ in range(k2)]
    steps = []
    for nm in names:
        sg = None
        if nm in ('corr_cov', 'cosine_cov'):
            sg = _sigma(rng, n, refill or rng.choice(['none', 'none', 'vec', 'mat']))
        steps.append({'method': nm, 'sigma': sg})
    nx, ny = rng.choice([1, 2, 3]), rng.choice([1, 2, 3])
    if any(nm.startswith('bures') for nm in names) or rng.random() < 0.4:
        x = [_euclid(rng, n) for _ in range(nx)]
        y = [_euclid(rng, n) for _ in range(ny)]
    else:
        styles = ['ties', 'neg', 'quarters', 'distinct', 'distinct']
        x = [_vector(rng, m, rng.choice(styles)) for _ in range(nx)]
        y = [_vector(rng, m, rng.choice(styles)) for _ in range(ny)]
    same = rng.random() < 0.15 if k is None else (k % 7 == 3)
    cont = rng.choice(CONTAINERS) if k is None else CONTAINERS[k % len(CONTAINERS)]
    case = {'kind': 'session', 'n': n, 'x': x, 'y': x if same else y, 'same': same,
            'container': cont, 'steps': steps}
    # value scales: every second block of six (so every container is reached scaled and unscaled)
    if ((k // 6) % 2 == 1) if k is not None else (rng.random() < 0.4):
        mode, cls = SCALE_PLAN[(k // 12) % len(SCALE_PLAN)] if k is not None else (None, None)
        sc = _scale(rng, len(x), len(y), mode, cls)
        if same:
            sc['y'] = sc['x']
        case['scale'] = sc
    return case


def generate(rng, tier):
    per_method = 36 if tier == 'quick' else 900
    nmax = 6 if tier == 'quick' else 7
    for k in range(per_method):
        for method in METHODS:
            yield _compare_case(rng, method, nmax, k)
    for _ in range(24 if tier == 'quick' else 300):
        yield _reject_case(rng)
    for _ in range(20 if tier == 'quick' else 400):
        n = rng.randint(2, nmax)
        yield {'kind': 'getv', 'n': n, 'sigma': _sigma(rng, n, rng.choice(['none', 'vec', 'vec_const', 'mat']))}
    for _ in range(20 if tier == 'quick' else 400):
        m = rng.randint(1, 21)
        yield {'kind': 'ranks', 'x': _vector(rng, m, rng.choice(['ties', 'neg', 'quarters', 'distinct', 'const']))}
    for _ in range(60 if tier == 'quick' else 1500):
        yield _passes_case(rng, tier)
    for k in range(14 if tier == 'quick' else 200):
        yield _riem_case(rng, tier, full=(k % 7 == 0), k=k)
    for k in range(72 if tier == 'quick' else 1500):
        yield _session_case(rng, nmax, k)
    if tier == 'thorough':
        # exhaustive: all pairs of 3-condition RDMs with entries in {0,1,2} for the rank / count measures
        vals = list(itertools.product(range(3), repeat=3))
        for method in ('tau-a', 'kendall', 'rho-a', 'spearman'):
            for a in vals:
                yield {'kind': 'compare', 'method': method, 'n': 3, 'x': [list(a)],
                       'y': [list(b) for b in vals], 'sigma': None, 'form': 'array', 'perm': [2, 0, 1],
                       'dtypes': ['int64', 'int64'] if sum(a) % 2 else ['float64', 'int32'],
                       'layout': 'C'}


def search(rng, tier):
    """failing-input search: the same space, smaller sizes first, every method and sigma kind"""
    for k in range(100000):
        if k % 3 == 2:
            yield _session_case(rng, 4 if k < 200 else 6)      # multi-call sessions on the same objects
            continue
        method = METHODS[k % len(METHODS)]
        yield _compare_case(rng, method, 4 if k < 200 else 6)


# ------------------------------------------------------------------ implementation side

def _impl_passes(case):
    x = np.array([_fl(v) for v in case['x']], dtype=float)
    y = np.array([_fl(v) for v in case['y']], dtype=float)
    from scipy.stats._stats import _kendall_dis
    np.seterr(all='ignore')
    v1, v2 = _cmp._sort_and_rank(x, y)
    out = {'x1': [rat(F(float(a))) for a in v1], 'y1': [int(a) for a in v2]}
    v2, v1 = _cmp._sort_and_rank(v2, v1)
    out.update({'x2': [int(a) for a in v1], 'y2': [int(a) for a in v2],
                'xtie': int(_cmp._count_rank_tie(v1)[0]), 'ytie': int(_cmp._count_rank_tie(v2)[0]),
                'dis': int(_kendall_dis(v1, v2))})
    tau = float(_cmp._tau_a(x.copy(), y.copy()))
    tot = len(case['x']) * (len(case['x']) - 1) // 2
    out['tau'] = None if math.isnan(tau) else tau
    # joint ties as the code counted them, recovered from its own result (exact for these sizes)
    if tot > 0 and not math.isnan(tau) and abs(tau) < 1:
        cmd = round(tau * tot)
        out['ntie'] = cmd - tot + out['xtie'] + out['ytie'] + 2 * out['dis']
    from rsatoolbox.util.rdm_utils import _get_n_from_length, _get_n_from_reduced_vectors
    out['n_from_len'] = int(_get_n_from_length(len(case['x'])))
    out['n_from_reduced'] = int(_get_n_from_reduced_vectors(x.reshape(1, -1)))
    return out


def _impl_riem(case):
    rec = []
    orig = _cmp._riemannian_distance

    def recorder(vg1, vg2, sig):
        rec.append((np.array(vg1, dtype=float), np.array(vg2, dtype=float), np.array(sig, dtype=float)))
        return 0.0 if not case['full'] else orig(vg1, vg2, sig)
    _cmp._riemannian_distance = recorder
    try:
        res = _call(case['x'], case['y'], 'neg_riem_dist', case['sigma'], case['form'])
    finally:
        _cmp._riemannian_distance = orig
    if isinstance(res, dict):
        return res
    nx, ny = len(case['x']), len(case['y'])
    if len(rec) != nx * ny:
        return {'exc': f'{len(rec)} calls of _riemannian_distance for {nx} x {ny} RDMs'}
    q = lambda a: rat(F(float(a)))      # noqa: E731
    out = {'vec_g_x': [[q(a) for a in rec[i * ny][0]] for i in range(nx)],
           'vec_g_y': [[q(a) for a in rec[j][1]] for j in range(ny)],
           'sigma_hat': [[q(a) for a in row] for row in rec[0][2]],
           'same_sigma': all(np.array_equal(r[2], rec[0][2]) for r in rec),
           'shape': [len(res), len(res[0]) if res else 0]}
    if case['full']:
        out['value'] = res
        # the objective at the start of the search, from the recorded arguments
        from scipy import linalg
        from scipy.spatial.distance import squareform
        n = case['n']
        start = []
        for i in range(nx):
            row = []
            for j in range(ny):
                g1, g2, sg = rec[i * ny + j]
                a = np.diag(g1[:n - 1]) + squareform(g1[n - 1:])
                b = np.diag(g2[:n - 1]) + squareform(g2[n - 1:])
                row.append(float(np.sqrt((np.log(linalg.eigvalsh(a + sg, b)) ** 2).sum())))
            start.append(row)
        out['start'] = start
    return out


LIB_EXC = (ValueError, TypeError, AssertionError, IndexError, ZeroDivisionError, KeyError,
           np.linalg.LinAlgError, AttributeError, OverflowError, RuntimeError)


def run_impl(case):
    """exceptions of the library (also of its private helpers called directly) become {'exc': name}"""
    try:
        return _run_impl(_eff(case))
    except LIB_EXC as exc:
        return {'exc': type(exc).__name__}

def _session_objects(case):
    """the two objects of a session (built once, then reused by every call) and everything whose
    bits must stay the same: the arrays themselves and, for views, the buffers they look into"""
    from rsatoolbox.rdm import RDMs
    cont = case['container']

    def arr(stack):
        a = _arr(stack)
        keep = [a]
        if cont == 'view':
            big = np.zeros((2 * a.shape[0], 2 * a.shape[1] + 1), dtype=float)
            big[::2, 1::2] = a
            a = big[::2, 1::2]
            keep = [a, big]
        if cont in ('readonly', 'rdms_readonly'):
            a.setflags(write=False)
        return a, keep
    xa, kx = arr(case['x'])
    if case.get('same'):
        ya, ky = xa, []
    else:
        ya, ky = arr(case['y'])
    xo, yo = xa, ya
    if cont in ('rdms', 'mixed', 'rdms_readonly'):
        xo = RDMs(dissimilarities=xa)
        kx.append(xo)
    if case.get('same'):
        yo = xo
    elif cont in ('rdms', 'rdms_readonly'):
        yo = RDMs(dissimilarities=ya)
        ky.append(yo)
    return xo, yo, kx + ky


def _session_steps(case):
    """run the calls one after the other on the same objects; after each: result, inputs intact?"""
    import warnings
    xo, yo, keep = _session_objects(case)
    before = [_snap(k) for k in keep]
    out = []
    bufs = {}            # one sigma_k array per shape, refilled in place by the "caller" between calls
    for st in case['steps']:
        sg = _sigma_np(st['sigma'])
        if sg is not None:
            if sg.shape in bufs:
                bufs[sg.shape][...] = sg
            else:
                bufs[sg.shape] = sg.copy()
            sg = bufs[sg.shape]
        sg_before = None if sg is None else sg.tobytes()
        try:
            with np.errstate(all='ignore'), warnings.catch_warnings():
                warnings.simplefilter('ignore')
                res = _mat_out(_cmp.compare(xo, yo, method=st['method'], sigma_k=sg))
        except LIB_EXC as exc:
            res = {'exc': type(exc).__name__}
        out.append({'result': res, 'intact': [_snap(k) for k in keep] == before
                    and (sg is None or sg.tobytes() == sg_before)})
    return out


def _run_impl(case):
    if case['kind'] == 'session':
        return _session_steps(case)
    if case['kind'] == 'passes':
        return _impl_passes(case)
    if case['kind'] == 'riem':
        return _impl_riem(case)
    if case['kind'] == 'getv':
        v = _cmp._get_v(case['n'], _sigma_np(case['sigma']))
        out = [[rat(F(float(a))) for a in row] for row in np.asarray(v.todense()).tolist()]
        if True:
            # util/matrix.py:get_v, the public twin of _get_v (None, a variance vector or a matrix)
            from rsatoolbox.util.matrix import get_v
            v2 = get_v(case['n'], _sigma_np(case['sigma']))
            return {'_get_v': out, 'get_v': [[rat(F(float(a))) for a in row]
                                             for row in np.asarray(v2.todense()).tolist()]}
        return {'_get_v': out}
    if case['kind'] == 'reject':
        r = _call(case['x'], case['y'], case['method'], None, case['form'])
        return r if isinstance(r, dict) else 'ok'
    if case['kind'] == 'ranks':
        import scipy.stats
        return [rat(F(float(a))) for a in scipy.stats.rankdata(np.array([_fl(v) for v in case['x']]))]
    n, perm = case['n'], case['perm']
    dt, lay = case_dtypes(case), case.get('layout', 'C')
    out = {'array': _call(case['x'], case['y'], case['method'], case['sigma'], 'array', dt, lay)}
    if case['form'] != 'array':
        out[case['form']] = _call(case['x'], case['y'], case['method'], case['sigma'], case['form'], dt, lay)
    if perm is not None:
        xp = [permute_vec(v, n, perm) for v in case['x']]
        yp = [permute_vec(v, n, perm) for v in case['y']]
        out['perm'] = _call(xp, yp, case['method'], permute_sigma(case['sigma'], perm), case['form'], dt, lay)
    if case['method'].startswith('bures'):
        # the alternative implementations kept beside the ones `compare` calls
        f = _cmp._bures_similarity_second_way if case['method'] == 'bures' else _cmp._sq_bures_metric_second_way
        gx = [orc.kernel(n, [F(unrat(v)) for v in r]) for r in case['x']]
        gy = [orc.kernel(n, [F(unrat(v)) for v in r]) for r in case['y']]
        out['second_way'] = _mat_out([[f(a, b) for b in gy] for a in gx])
    return out


# ------------------------------------------------------------------ model side

def _sigma_wire(sig, enc):
    if sig is None:
        return None
    if 'vec' in sig:
        return [enc(v) for v in sig['vec']]
    return [[enc(v) for v in row] for row in sig['mat']]


def _req(method, n, x, y, sigma):
    if method.replace('_spec', '') in EXACT:
        return {'op': 'c03.compare', 'method': method, 'n': n, 'exact': True,
                'x': [[rat(unrat(v)) for v in r] for r in x], 'y': [[rat(unrat(v)) for v in r] for r in y]}
    enc = lambda v: fbits(_fl(v))   # noqa: E731
    return {'op': 'c03.compare', 'method': method, 'n': n,
            'x': [[enc(v) for v in r] for r in x], 'y': [[enc(v) for v in r] for r in y],
            'sigma': _sigma_wire(sigma, enc)}


SPEC_TWIN = ('cosine', 'corr', 'spearman', 'tau-a', 'rho-a', 'corr_cov', 'cosine_cov', 'bures', 'bures_metric')


def model_requests(case):
    case = _eff(case)
    if case['kind'] == 'session':
        enc = lambda v: fbits(_fl(v))   # noqa: E731
        return [{'op': 'c03.session', 'n': case['n'], 'same': bool(case.get('same')),
                 'x': [[enc(v) for v in r] for r in case['x']], 'y': [[enc(v) for v in r] for r in case['y']],
                 'steps': [{'method': st['method'], 'sigma': _sigma_wire(st['sigma'], enc)}
                           for st in case['steps']]}]
    if case['kind'] == 'passes':
        return [{'op': 'c03.passes', 'x': [rat(unrat(v)) for v in case['x']],
                 'y': [rat(unrat(v)) for v in case['y']]}]
    if case['kind'] == 'riem':
        sg = _sigma_wire(case['sigma'], lambda v: rat(unrat(v)))
        return [{'op': 'c03.riem', 'n': case['n'], 'x': [rat(unrat(v)) for v in r], 'sigma': sg}
                for r in case['x'] + case['y']]
    if case['kind'] == 'getv':
        return [{'op': 'c03.getv', 'n': case['n'],
                 'sigma': _sigma_wire(case['sigma'], lambda v: rat(unrat(v)))}]
    if case['kind'] == 'ranks':
        return [{'op': 'c03.ranks', 'x': [rat(unrat(v)) for v in case['x']]}]
    if case['kind'] == 'reject':
        return [{'op': 'c03.accepts', 'method': case['method'], 'lx': len(case['x'][0]),
                 'ly': len(case['y'][0])}]
    n, perm, method = case['n'], case['perm'], case['method']
    reqs = [_req(method, n, case['x'], case['y'], case['sigma'])]
    if perm is not None:
        xp = [permute_vec(v, n, perm) for v in case['x']]
        yp = [permute_vec(v, n, perm) for v in case['y']]
        reqs.append(_req(method, n, xp, yp, permute_sigma(case['sigma'], perm)))
    if method in SPEC_TWIN:
        # the same measure through the definitions the theorems speak about (`*_coded_eq`,
        # `tauA_twoPass_eq_spec`, `whitened_fast_eq_V`): coded path and definition must agree
        reqs.append(_req(method + '_spec', n, case['x'], case['y'], case['sigma']))
    if case.get('base'):
        # the model on the listed (unscaled) stacks: the scale laws (`*_scale` theorems) say what the
        # scaled result must be
        reqs.append(_req(method, n, case['base']['x'], case['base']['y'], case['sigma']))
    return reqs


def _decode(case, ans):
    if isinstance(ans, dict):
        return ans
    if case['method'] in EXACT:
        return [[None if v is None else float(unrat(v)) for v in row] for row in ans]
    return [[None if v is None else unfbits(v) for v in row] for row in ans]


def _dec_f(m):
    return [[None if v is None else unfbits(v) for v in row] for row in m]


def model_result(case, answers):
    if case['kind'] == 'session':
        a = answers[0]
        if not isinstance(a, dict) or 'results' not in a:
            return {'model_error': a}
        return {'results': [_dec_f(m) for m in a['results']], 'spec': [_dec_f(m) for m in a['spec']],
                'cells': [_dec_f(m) for m in a['cells']]}
    if case['kind'] in ('getv', 'ranks', 'reject', 'passes'):
        return answers[0]
    if case['kind'] == 'riem':
        return {'x': answers[:len(case['x'])], 'y': answers[len(case['x']):]}
    out = {'base': _decode(case, answers[0])}
    k = 1
    if case['perm'] is not None:
        out['perm'] = _decode(case, answers[k])
        k += 1
    if case['method'] in SPEC_TWIN:
        out['spec'] = _decode(case, answers[k])
        k += 1
    if case.get('scale'):
        out['unscaled'] = _decode(case, answers[k])
    return out


# ------------------------------------------------------------------ comparison

def tolerance(case):
    m = case['method']
    if 'float32' in case_dtypes(case):
        base = 2e-4 if (m in ('corr_cov', 'cosine_cov') and case['sigma'] is not None) else 2e-5
        return base, base      # numpy evaluates float32 stacks (partly) in single precision
    if m.startswith('bures'):
        return 1e-5, 1e-5
    if m in ('corr_cov', 'cosine_cov') and case['sigma'] is not None:
        return 2e-4, 2e-4          # scipy cg, rtol 1e-5 inside
    return 1e-9, 1e-11


def _diff_matrix(a, b, rtol, atol, undefined_ok, unit=None):
    """a = implementation, b = model; None = NaN / undefined; unit(i, j) multiplies the absolute tolerance
    (squared Bures metric of scaled RDMs: the tolerance is transported by the scale law)"""
    if isinstance(a, dict) or isinstance(b, dict):
        return None if a == b else f'{a} != {b}'
    if len(a) != len(b) or any(len(r) != len(s) for r, s in zip(a, b)):
        return f'shape {len(a)}x{len(a[0]) if a else 0} != {len(b)}x{len(b[0]) if b else 0}'
    for i, (r, s) in enumerate(zip(a, b)):
        for j, (u, v) in enumerate(zip(r, s)):
            if v is None:
                # the definition is 0/0 here: the code may answer NaN or its guard value 0
                if undefined_ok and (u is None or u == 0.0):
                    continue
                if u is None:
                    continue
                return f'[{i}][{j}]: impl {u!r}, model undefined'
            if u is None:
                return f'[{i}][{j}]: impl nan, model {v!r}'
            if not close(u, v, rtol, atol * (unit(i, j) if unit else 1.0)):
                return f'[{i}][{j}]: impl {u!r} != model {v!r}'
    return None


def compare(case, impl, model):
    case = _eff(case)
    if isinstance(model, dict) and 'model_error' in model:
        return f'model error {model}'
    if case['kind'] in ('getv', 'ranks', 'passes', 'riem', 'session') and isinstance(impl, dict) and set(impl) == {'exc'}:
        return f"{case['kind']}: the library raised {impl['exc']} on valid input"
    if case['kind'] == 'session':
        orig = [[[_fl(v) for v in r] for r in case['x']], [[_fl(v) for v in r] for r in case['y']]]
        if model['cells'] != orig:
            return 'model: the heap model as coded changes the caller\'s stacks during the session'
        for k, st in enumerate(case['steps']):
            d = _diff_matrix(model['results'][k], model['spec'][k], 0.0, 0.0, True)
            if d:
                return (f"model: call {k} ({st['method']}) of the session as coded is not the measure of the "
                        f"original stacks: {d}")
        for k, st in enumerate(case['steps']):
            r = impl[k]
            if isinstance(r['result'], dict):
                return f"session call {k} ({st['method']}, {case['container']}): the library raised {r['result']}"
            rtol, atol = tolerance({'method': st['method'], 'sigma': st['sigma']})
            d = _diff_matrix(r['result'], model['spec'][k], rtol, atol,
                             st['method'] in ('corr_cov', 'cosine_cov'),
                             (lambda i, j: _unit(case, i, j)) if st['method'] == 'bures_metric' else None)
            if d:
                return f"session call {k} ({st['method']} after {[t['method'] for t in case['steps'][:k]]}) {d}"
            if not r['intact']:
                return f"session call {k} ({st['method']}) modified its input ({case['container']})"
        return None
    if case['kind'] == 'getv':
        if model['coded'] != model['spec']:
            return 'model: V as coded differs from V as defined'
        b = [[unrat(v) for v in r] for r in model['spec']]
        for key, val in impl.items():
            a = [[unrat(v) for v in r] for r in val]
            if a != b:
                return f'{key} differs from the definition: {val} != {model["spec"]}'
        return None
    if case['kind'] == 'passes':
        if isinstance(impl, dict) and 'exc' in impl:
            return f'passes: impl raised {impl}'
        for key in ('x1', 'y1', 'x2', 'y2', 'xtie', 'ytie', 'dis', 'ntie', 'n_from_len', 'n_from_reduced'):
            if key not in impl:
                continue
            a, b = impl[key], model[key]
            if key == 'x1':
                a, b = [unrat(v) for v in a], [unrat(v) for v in b]
            if a != b:
                return f'_tau_a passes: {key} impl {impl[key]} != model {model[key]}'
        if unrat(model['tau']) != unrat(model['spec']):
            return f"model: two-pass tau-a {model['tau']} differs from the definition {model['spec']}"
        if impl['tau'] is not None and not close(impl['tau'], float(unrat(model['tau'])), 1e-12, 1e-14):
            return f"_tau_a: impl {impl['tau']!r} != model {model['tau']}"
        return None
    if case['kind'] == 'riem':
        if isinstance(impl, dict) and 'exc' in impl:
            return f'neg_riem_dist: impl raised {impl}'
        for side in ('x', 'y'):
            for k, ans in enumerate(model[side]):
                if ans['g'] != ans['g_spec']:
                    return f'model: G as coded differs from the reference-condition Gram matrix ({side}[{k}])'
                a = [unrat(v) for v in impl['vec_g_' + side][k]]
                b = [unrat(v) for v in ans['vec_g']]
                if a != b:
                    return f'vector @ T.T ({side}[{k}]): impl {impl["vec_g_" + side][k]} != model {ans["vec_g"]}'
        a = [[unrat(v) for v in r] for r in impl['sigma_hat']]
        b = [[unrat(v) for v in r] for r in model['x'][0]['sigma_hat']]
        if a != b or not impl['same_sigma']:
            return f'sigma_k_hat: impl {impl["sigma_hat"]} != model {model["x"][0]["sigma_hat"]}'
        if impl['shape'] != [len(case['x']), len(case['y'])]:
            return f'shape {impl["shape"]}'
        if case['full']:
            for i, row in enumerate(impl['value']):
                for j, v in enumerate(row):
                    if v is None or v > 1e-12 or v < -impl['start'][i][j] - 1e-9:
                        return (f'neg_riem_dist[{i}][{j}] = {v!r} outside [-objective(0,0), 0] = '
                                f'[{-impl["start"][i][j]!r}, 0]')
        return None
    if case['kind'] == 'reject':
        want = 'ok' if model == 'ok' else {'exc': model}
        return None if impl == want else f'argument check: impl {impl} != model {want}'
    if case['kind'] == 'ranks':
        a, b = [unrat(v) for v in impl], [unrat(v) for v in model]
        return None if a == b else f'rankdata {impl} != tie-averaged ranks {model}'
    rtol, atol = tolerance(case)
    und = case['method'] in ('corr_cov', 'cosine_cov')
    unit = (lambda i, j: _unit(case, i, j)) if case['method'] == 'bures_metric' else None
    for key, mkey in (('array', 'base'), ('rdms', 'base'), ('mixed', 'base'), ('array1d', 'base'),
                      ('rdms_sq', 'base'), ('second_way', 'base'), ('perm', 'perm')):
        if key in impl:
            d = _diff_matrix(impl[key], model[mkey], rtol, atol, und, unit)
            if d:
                return f'{case["method"]} ({key}) {d}'
    if 'unscaled' in model:
        # scale laws inside the model (theorems `*_scale`): every similarity is unchanged when either RDM is
        # multiplied by a positive number; the squared Bures metric is homogeneous of degree 1
        sc = case['scale_of']
        es = set(sc['x'] + sc['y'])
        if case['method'] != 'bures_metric':
            tight = case['method'] in EXACT
            d = _diff_matrix(model['base'], model['unscaled'], 0.0 if tight else max(rtol, 1e-9),
                             0.0 if tight else max(atol, 1e-11), True)
            if d:
                return f'model: {case["method"]} is not invariant under the scaling {sc}: {d}'
        elif len(es) == 1:
            f = float(F(2) ** es.pop())
            d = _diff_matrix(model['base'], [[None if v is None else v * f for v in r] for r in model['unscaled']],
                             rtol, atol, True, unit)
            if d:
                return f'model: bures_metric does not scale with the RDMs ({sc}): {d}'
    if 'perm' in model:
        d = _diff_matrix(model['perm'], model['base'], max(rtol, 1e-7), max(atol, 1e-7), True, unit)
        if d:
            return f'model not permutation invariant: {d}'
    if 'spec' in model:
        tight = case['method'] in EXACT
        d = _diff_matrix(model['base'], model['spec'], 0.0 if tight else 1e-8, 0.0 if tight else 1e-10, True, unit)
        if d:
            return f'model: the coded path differs from the definition it is proved equal to: {d}'
    return None


# ------------------------------------------------------------------ features

def _has_ties(v):
    return len(set(unrat(a) for a in v)) < len(v)


def _is_const(v):
    return len(set(unrat(a) for a in v)) <= 1


def json_key(v):
    import json
    return json.dumps(v, sort_keys=True, default=str)


def sigma_kind(sig):
    if sig is None:
        return 'none'
    if 'vec' in sig:
        return 'vec_const' if len(set(str(v) for v in sig['vec'])) == 1 else 'vec'
    return 'mat'


def features(case, impl):
    if case['kind'] == 'reject':
        bad_method = case['method'] not in METHODS
        return {'kind': 'reject', 'form': case['form'],
                'branches': ['kind:reject', 'reject:method' if bad_method else 'reject:shape']}
    if case['kind'] == 'passes':
        pts = list(zip([unrat(v) for v in case['x']], [unrat(v) for v in case['y']]))
        mult = max((pts.count(p) for p in pts), default=0)
        br = ['kind:passes']
        if mult >= 2:
            br.append('passes:joint_ties')
        if mult >= 3:
            br.append('passes:joint_run>=3')
        if len(set(case['x'])) == len(case['x']) and len(set(case['y'])) == len(case['y']):
            br.append('passes:no_ties')
        if mult < 2 and len({p[0] for p in pts}) < len(pts):
            br.append('passes:xtie_only')
        return {'kind': 'passes', 'm': len(pts), 'joint_mult': mult, 'branches': br}
    if case['kind'] == 'session':
        names = [st['method'] for st in case['steps']]
        br = ['kind:session', 'session:' + case['container']]
        if case.get('same'):
            br.append('session:same_object')
        for k, nm in enumerate(names):
            later = names[k + 1:]
            if nm in ('corr', 'corr_cov') and any(t in NON_INV for t in later):
                br.append('session:centre_then_noninv')
            if nm in ('spearman', 'rho-a', 'kendall', 'tau-a') and any(t in NON_INV for t in later):
                br.append('session:rank_then_noninv')
            if k > 0 and nm.startswith('bures'):
                br.append('session:bures_after')
            if k > 0 and nm == 'cosine_cov':
                br.append('session:cov_after')
        sgs = [json_key(st['sigma']) for st in case['steps'] if st['sigma'] is not None]
        shapes = [('vec' if 'vec' in st['sigma'] else 'mat') for st in case['steps'] if st['sigma'] is not None]
        if any(shapes[i] == shapes[j] and sgs[i] != sgs[j] for i in range(len(sgs)) for j in range(i + 1, len(sgs))):
            br.append('session:sigma_refilled')
        if len(names) >= 3:
            br.append('session:len>=3')
        if len(case['x']) > 1 and len(case['y']) > 1:
            br.append('session:stack>1')
        if case.get('scale'):
            br += ['session:scaled'] + scale_tags(case['scale'])
            if 'scale:tiny' in br:
                br.append('session:scale_tiny')
        return {'kind': 'session', 'n': case['n'], 'container': case['container'], 'n_calls': len(names),
                'scaled': bool(case.get('scale')),
                'same_object': bool(case.get('same')), 'first_method': names[0], 'last_method': names[-1],
                'branches': sorted(set(br))}
    if case['kind'] == 'riem':
        br = ['kind:riem', 'riem:sigma_' + ('none' if case['sigma'] is None else 'mat')]
        if case['full']:
            br.append('riem:full_run')
        if case.get('scale'):
            br += ['riem:scaled'] + scale_tags(case['scale'])
        return {'kind': 'riem', 'n': case['n'], 'full': case['full'], 'scaled': bool(case.get('scale')),
                'branches': br}
    if case['kind'] != 'compare':
        br = ['kind:' + case['kind']]
        if case['kind'] == 'getv' and (case['sigma'] is None or 'mat' in case['sigma']):
            br.append('getv:matrix_get_v')
        return {'kind': case['kind'], 'n': case.get('n'), 'sigma': sigma_kind(case.get('sigma')),
                'branches': br}
    vs = case['x'] + case['y']
    sk = sigma_kind(case['sigma'])
    br = ['method:' + case['method'], 'input:' + case['form']]
    dt = case_dtypes(case)
    kinds = ['int' if d.startswith('int') else 'bool' if d == 'bool' else 'float' for d in dt]
    pair = '-'.join(sorted(kinds))
    br.append('dtype:' + ('int-int' if pair == 'int-int' else 'int-float' if pair == 'float-int'
                          else 'float-float' if pair == 'float-float' else 'bool'))
    if 'float32' in dt:
        br.append('dtype:float32')
    br.append('layout:' + case.get('layout', 'C'))
    if isinstance(impl, dict) and not any(v == {'exc': 'InputModified'} for v in impl.values()):
        br.append('single_call_inputs_intact')
    if case['method'].startswith('bures'):
        br.append('bures:second_way')
    if case['method'] in SPEC_TWIN:
        br.append('coded_vs_spec')
    if case['method'] in ('corr_cov', 'cosine_cov'):
        br.append('sigma:' + sk)
        if case['sigma'] is None:
            br.append('fast_path_vs_V')
    if case['perm'] is not None:
        br.append('perm')
    br.append('ties' if any(_has_ties(v) for v in vs) else 'no_ties')
    if any(unrat(a) < 0 for v in vs for a in v):
        br.append('negative')
    if any(_is_const(v) for v in vs):
        br.append('zero_norm')
        if case['method'] in ('kendall', 'tau-b'):
            br.append('kendall_nan')
    if len(case['x']) > 1 and len(case['y']) > 1:
        br.append('stack>1')
    if any(list(map(unrat, a)) == list(map(unrat, b)) for a in case['x'] for b in case['y']):
        br.append('self_pair')
    if case.get('scale'):
        tags = scale_tags(case['scale'])
        br += tags + ['scale:law_checked']
        if 'scale:tiny' in tags:
            br.append('scale:tiny:' + case['method'])
        if 'self_pair' in br:
            br.append('scale:self_pair')
    return {'kind': 'compare', 'method': case['method'], 'n': case['n'], 'sigma': sk,
            'scaled': bool(case.get('scale')), 'min_exp': min(case['scale']['x'] + case['scale']['y']) if case.get('scale') else 0,
            'max_exp': max(case['scale']['x'] + case['scale']['y']) if case.get('scale') else 0,
            'form': case['form'], 'permuted': case['perm'] is not None,
            'constant_rdm': any(_is_const(v) for v in vs),
            'dtype_x': dt[0], 'dtype_y': dt[1], 'dtype_pair': pair, 'layout': case.get('layout', 'C'),
            'nonfloat_stack': any(k != 'float' for k in kinds),
            'n_x': len(case['x']), 'n_y': len(case['y']), 'branches': br}


def nontrivial_key(case, impl):
    if case['kind'] in ('compare', 'session') and all(_is_const(v) for v in case['x'] + case['y']):
        return None
    return case


# ------------------------------------------------------------------ oracle, shrink

_PRIME = [np.array([[1.0, 4.0, 9.0], [4.0, 1.0, 1.0]]) * 2.0 ** e for e in (60, -90)]


def _prime():
    """fixed call history before a case is judged: one stack of huge and one of tiny RDMs through the
    measures that share helpers.  A defect that keeps state between calls (a threshold remembered from
    earlier data, a cache keyed by magnitude) then fails the same way in the run and in a fresh --replay
    process, so the replay of a stateful defect is self-contained."""
    import warnings
    with np.errstate(all='ignore'), warnings.catch_warnings():
        warnings.simplefilter('ignore')
        for a in _PRIME:
            for m in ('cosine', 'corr', 'cosine_cov', 'bures'):
                try:
                    _cmp.compare(a.copy(), a.copy(), method=m)
                except LIB_EXC:
                    pass


def oracle(case):
    case = _eff(case)
    if case['kind'] in ('compare', 'session'):
        _prime()
    if case['kind'] in ('getv', 'ranks'):
        r = run_impl(case)
        if isinstance(r, dict) and set(r) == {'exc'}:
            return {'what': f"{case['kind']}: the library raises on valid input", 'observed': r,
                    'expected': 'a value', 'features': {'claim': 'definition'}}
    if case['kind'] == 'getv':
        r = run_impl(case)
        for key in r:
            o = orc.check_getv(case, r[key])
            if o:
                return o
        return None
    if case['kind'] == 'ranks':
        return orc.check_ranks(case, run_impl(case))
    if case['kind'] == 'reject':
        return orc.check_reject(case, run_impl(case))
    if case['kind'] == 'passes':
        # the property for the vectors of this case: tau-a of the pair equals its definition
        if len(case['x']) < 2:
            return None
        c = {'kind': 'compare', 'method': 'tau-a', 'n': None, 'x': [case['x']], 'y': [case['y']],
             'sigma': None, 'form': 'array', 'perm': None}
        return orc.check_pair_only(c, lambda x, y: _call(x, y, 'tau-a', None, 'array'))
    if case['kind'] == 'session':
        return orc.check_session(case, _session_steps)
    if case['kind'] == 'riem':
        r = run_impl(case)
        if isinstance(r, dict) and 'exc' in r:
            return {'what': 'neg_riem_dist raises on valid input', 'observed': r, 'expected': 'a matrix',
                    'features': {'claim': 'definition'}}
        return None
    dt, lay = case_dtypes(case), case.get('layout', 'C')

    def call(x, y, method, sigma, form, which=(0, 1)):
        return _call(x, y, method, sigma, form, (dt[which[0]], dt[which[1]]), lay)
    return orc.check_compare(case, call, permute_vec, permute_sigma)


def _shrink_session(case, still_fails0):
    # keep the *kind* of failure (a wrong value of a later call must not shrink to the purity failure of
    # the first call alone)
    claim0 = ((oracle(case) or {}).get('features') or {}).get('claim')

    def still_fails(c):
        return bool(still_fails0(c)) and ((oracle(c) or {}).get('features') or {}).get('claim') == claim0
    best = case
    st = best['steps']
    done = False
    for i in range(len(st)):                      # a single call, then an ordered pair of calls
        c = dict(best, steps=[st[i]])
        if still_fails(c):
            best, done = c, True
            break
    if not done and len(st) > 2:
        for i in range(len(st)):
            for j in range(i + 1, len(st)):
                c = dict(best, steps=[st[i], st[j]])
                if not done and still_fails(c):
                    best, done = c, True
    if not best.get('same') and (len(best['x']) > 1 or len(best['y']) > 1):
        done = False
        for i, xi in enumerate(best['x']):
            for j, yi in enumerate(best['y']):
                c = dict(best, x=[xi], y=[yi])
                if best.get('scale'):
                    c['scale'] = {'x': [best['scale']['x'][i]], 'y': [best['scale']['y'][j]]}
                if not done and still_fails(c):
                    best, done = c, True
    best = _shrink_scale(best, still_fails)
    for key, val in (('container', 'ndarray'), ('same', False)):
        if best.get(key) != val:
            c = dict(best, **{key: val})
            if still_fails(c):
                best = c
    return best


def _shrink_scale(best, still_fails):
    """no scale at all, else one common exponent, else one exponent on one side"""
    sc = best.get('scale')
    if not sc:
        return best
    c = {k: v for k, v in best.items() if k != 'scale'}
    if still_fails(c):
        return c
    nx, ny = len(sc['x']), len(sc['y'])
    e = max(sc['x'] + sc['y'], key=abs)
    cands = [{'x': [e] * nx, 'y': [e] * ny}]
    if not best.get('same'):
        cands += [{'x': [e] * nx, 'y': [0] * ny}, {'x': [0] * nx, 'y': [e] * ny}]
    for cand in cands:
        if cand != sc and still_fails(dict(best, scale=cand)):
            return dict(best, scale=cand)
    return best


def shrink(case, still_fails):
    if case['kind'] == 'session':
        return _shrink_session(case, still_fails)
    if case['kind'] != 'compare':
        return case
    best = case
    # one RDM per stack
    if len(best['x']) > 1 or len(best['y']) > 1:
        for i, xi in enumerate(best['x']):
            done = False
            for j, yi in enumerate(best['y']):
                c = dict(best, x=[xi], y=[yi])
                if best.get('scale'):
                    c['scale'] = {'x': [best['scale']['x'][i]], 'y': [best['scale']['y'][j]]}
                if still_fails(c):
                    best, done = c, True
                    break
            if done:
                break
    best = _shrink_scale(best, still_fails)
    for key, val in (('perm', None), ('form', 'array'), ('layout', 'C'),
                     ('dtypes', ['float64', 'float64'])):
        if best.get(key) != val:
            c = dict(best, **{key: val})
            if still_fails(c):
                best = c
    # simpler values: integers, then smaller magnitudes
    for f in (lambda v: int(round(_fl(v))), lambda v: int(round(_fl(v))) % 3):
        c = dict(best, x=[[f(v) for v in r] for r in best['x']], y=[[f(v) for v in r] for r in best['y']])
        if c != best and still_fails(c):
            best = c
    return best
