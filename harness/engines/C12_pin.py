"""C12 helper (tool, not used by the check) — enumerate the pinned witness set of sharing records.

  /venv/bin/python harness/engines/C12_pin.py [n_seeds] > notes/C12-known-findings.jsonl

For every exercised callable and `n_seeds` consecutive argument seeds (the factories rotate all
their discrete choices with the seed) the records the oracle can report are collected on the tree
under RSA_REPO (default /repo):  callable | argument path | result path | cause.  They are grouped
under the four known-finding themes by (theme's callables, cause); a record that fits no theme is
printed to stderr as UNCLASSIFIED (a new finding: look at it) and is *not* written.
"""
import contextlib
import io
import json
import os
import sys

HERE = os.path.dirname(os.path.abspath(__file__))
sys.path.insert(0, os.path.join(HERE, '..'))
sys.path.insert(0, os.path.join(os.environ.get('RSA_REPO', '/repo'), 'src'))
os.environ.setdefault('TQDM_DISABLE', '1')

THEMES = [
    ('C12-constructor-adopts-array', 'interference', 'shared-array',
     "constructors and *_from_dict keep the caller's data array (numpy asarray convention, no copy): an array "
     "write on either side is visible on the other",
     ['data.base.DatasetBase', 'data.dataset.Dataset', 'data.dataset.TemporalDataset', 'rdm.rdms.RDMs',
      'data.dataset.dataset_from_dict', 'rdm.rdms.rdms_from_dict', 'model.model.model_from_dict',
      'inference.result.result_from_dict', 'inference.result.Result', 'model.model.ModelFixed',
      'model.model.ModelSelect', 'model.model.ModelWeighted', 'model.model.ModelInterpolate'],
     'corpus/C12/known-constructor-adopts-array.json'),
    ('C12-constructor-keeps-caller-dicts', 'mutates-argument', 'writes-caller-descriptor-dict',
     "RDMs.__init__ (and rdms_from_dict / model_from_dict / result_from_dict through it) stores the descriptor "
     "dictionaries the caller passed and writes the library-managed 'index' into them at construction; the suite "
     "(test_model test_creation_rdm) relies on it",
     ['rdm.rdms.RDMs', 'rdm.rdms.rdms_from_dict', 'model.model.model_from_dict', 'inference.result.result_from_dict'],
     'corpus/C12/known-constructor-keeps-caller-dicts.json'),
    ('C12-accessor-returns-internal', 'interference', 'shared-array',
     "accessors / serialisers (get_vectors, to_dict, predict of fixed and select models, Result getters, identity "
     "helpers) return internal arrays by reference: an array write on either side is visible on the other",
     ['rdm.rdms.RDMs.get_vectors', 'rdm.rdms.RDMs.to_dict', 'data.base.DatasetBase.to_dict',
      'data.dataset.TemporalDataset.to_dict', 'model.model.Model.to_dict', 'inference.result.Result.to_dict',
      'model.model.ModelFixed.predict', 'model.model.ModelSelect.predict', 'inference.result.Result.get_model_var',
      'inference.result.Result.get_noise_ceil', 'util.inference_util.extract_variances',
      'util.rdm_utils.batch_to_vectors', 'util.rdm_utils.batch_to_matrices', 'util.vis_utils.weight_to_matrices'],
     'corpus/C12/known-accessor-returns-internal.json'),
    ('C12-result-holds-argument-objects', 'interference', 'same-object',
     "container results (models built from an RDMs object, Result objects, ModelFamily, input_check_model) "
     "reference the very objects passed in",
     ['model.model.ModelFixed', 'model.model.ModelSelect', 'model.model.ModelWeighted', 'model.model.ModelInterpolate',
      'inference.result.Result', 'inference.evaluate.eval_fixed', 'inference.evaluate.eval_bootstrap',
      'inference.evaluate.eval_bootstrap_pattern', 'inference.evaluate.eval_bootstrap_rdm',
      'inference.evaluate.eval_dual_bootstrap', 'inference.evaluate.eval_dual_bootstrap_random',
      'inference.evaluate.bootstrap_crossval', 'inference.evaluate.crossval', 'model.model_family.ModelFamily',
      'model.model_family.ModelFamily.get_family_member', 'util.inference_util.input_check_model',
      'util.searchlight.evaluate_models_searchlight'],
     'corpus/C12/known-result-holds-argument.json'),
]


def collect(n_seeds):
    from engines import C12 as E, C12_heap as H, C12_share as S
    H.quiet()
    cov, _ = E.coverage_report()
    recs = {}
    for q in cov:
        for seed in range(1, n_seeds + 1):
            case = {'fn': q, 'seed': seed}
            with contextlib.redirect_stdout(io.StringIO()):
                source, result, exc, mutated = E._call(case)
            if mutated:
                for r in E.mutation_records(q, E._call.all_diffs or [mutated]):
                    recs.setdefault((q, tuple(r)), ('mutates-argument', seed))
            if exc is not None:
                continue
            for r in E.static_sharing(source, result):
                if r[2] in S.OBSERVABLE:
                    recs.setdefault((q, tuple(r[:3])), ('interference', seed))
    return recs


def main():
    n = int(sys.argv[1]) if len(sys.argv) > 1 else 60
    recs = collect(n)
    out = {t[0]: [] for t in THEMES}
    for (q, r), (kind, seed) in sorted(recs.items()):
        short = q[len('rsatoolbox.'):]
        for tid, tkind, tcause, what, fns, wit in THEMES:
            if short in fns and kind == tkind and r[2] == tcause:
                out[tid].append(f'{q}|{r[0]}|{r[1]}|{r[2]}')
                break
        else:
            print(f'UNCLASSIFIED {kind} {q} {r} (seed {seed})', file=sys.stderr)
    for tid, tkind, tcause, what, fns, wit in THEMES:
        print(json.dumps({'id': tid, 'kind': 'known', 'property': 'C12', 'what': what,
                          'match': {'kind': tkind, 'share_key': sorted(out[tid])}, 'witness': wit}))


if __name__ == '__main__':
    main()
