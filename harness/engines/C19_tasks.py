"""Task function handed to `evaluate_models_searchlight` by the C19 engine.

Kept in its own light module so that joblib's process workers (loky) can import it by
reference.  The function has the signature of an rsatoolbox evaluation function
(`eval_function(models, rdms, method=..., theta=...)`) and returns a *token* that says
which searchlight it was given and when it finished:

    [voxel_index of the RDM it received, its dissimilarity vector, completion time (ns)]

`theta` carries the per-centre delays (seconds) used to scramble completion order.
"""
import time


def token_eval(models, rdm, method='corr', theta=None):
    vox = int(rdm.rdm_descriptors['voxel_index'][0])
    delay = 0.0
    if theta:
        delay = float(theta.get(vox, 0.0))
    if delay > 0:
        time.sleep(delay)
    vec = [float(x) for x in rdm.dissimilarities[0]]
    return [vox, vec, time.monotonic_ns()]


# ---- round 6: what reaches the evaluation function, and a cheap flexible evaluation ----------

DEFAULT = '__default__'     # sentinel: the keyword was NOT forwarded (the signature's default applied)


def _jsonable(o):
    import numpy as np
    if isinstance(o, np.ndarray):
        return o.tolist()
    if isinstance(o, np.integer):
        return int(o)
    if isinstance(o, np.floating):
        return float(o)
    raise TypeError(type(o).__name__)


def spy_eval(models, rdm, method=DEFAULT, theta=DEFAULT):
    """reports the keywords it was called with: [voxel_index, method, theta] (theta as JSON text)"""
    import json
    vox = int(rdm.rdm_descriptors['voxel_index'][0])
    return [vox, method if isinstance(method, str) else repr(method),
            theta if isinstance(theta, str) else json.dumps(theta, default=_jsonable)]


def flex_eval(models, rdm, method='cosine', theta=None):
    """a cheap *flexible* evaluation with the signature of an rsatoolbox evaluation function: a model
    whose parameter is not given (`theta is None` or `theta[k] is None`) is fitted to the very RDM it
    is evaluated on by a DETERMINISTIC fitter (`fit_regress` for weighted, `fit_select` for selection
    models; the default `fit_optimize` starts from a random point), then everything is evaluated by
    `eval_fixed`"""
    from rsatoolbox.inference import eval_fixed
    from rsatoolbox.model import Model, ModelSelect
    from rsatoolbox.model.fitter import fit_regress, fit_select

    def fit(m):
        return (fit_select if isinstance(m, ModelSelect) else fit_regress)(m, rdm, method=method)
    ms = [models] if isinstance(models, Model) else list(models)
    th = list(theta) if theta is not None else [None] * len(ms)
    th = [fit(m) if (t is None and m.n_param > 0) else t for m, t in zip(ms, th)]
    return eval_fixed(ms, rdm, theta=th, method=method)
