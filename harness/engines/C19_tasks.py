"""Task function handed to `evaluate_models_searchlight` by the C19 engine.

Kept in its own light module so that joblib's process workers (loky) can import it by
reference.  The function has the signature of an rsatoolbox evaluation function
(`eval_function(models, rdms, method=..., theta=...)`) and returns a *token* that says
which searchlight it was given and when it finished:

    [voxel_index of the RDM it received, its dissimilarity vector, completion time (ns)]

`theta` carries the per-centre delays (seconds) used to scramble completion order.
"""
import time


def token_eval(models, rdm, method='corr', theta=None):
    vox = int(rdm.rdm_descriptors['voxel_index'][0])
    delay = 0.0
    if theta:
        delay = float(theta.get(vox, 0.0))
    if delay > 0:
        time.sleep(delay)
    vec = [float(x) for x in rdm.dissimilarities[0]]
    return [vox, vec, time.monotonic_ns()]
