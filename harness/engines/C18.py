"""C18 — simulated data reproduce the generating model's RDM.

Correspondence: the real `rsatoolbox.simulation.sim.make_dataset` / `make_design` (and the
`calc_rdm(..., 'euclidean', 'cond_vec')` loop) against the Lean model `Rsa.Core.Sim`
(driver ops `c18.*`, executed at Float).  Random draws and the results of `make_signal`
are *recorded from outside* (np.random.uniform and sim.make_signal are wrapped for the
duration of one call, as are np.linalg.qr / np.linalg.eigh inside make_signal) and handed to the
model as explicit arguments; make_signal itself is recomputed by the model from the recorded draw
and factorisation results (c18.signal); the exact-signal
contract `S Sᵀ = n_channel · G` (hypothesis of `exact_signal_reproduces`) is checked on
every real call; the model's own exact signal (own Cholesky / Gram–Schmidt) closes the loop
to `signal · D` independently.

Round 4: reuse sessions (`C18_session.py`: several calls in one process on live objects that are handed
in again, every call judged from its own numbers) and the pristine-process oracle (`C18_fresh.py`).
Nothing mutable is shared between cases or between the implementation and the model / oracle side:
`_objects(case)` builds fresh arrays from the case's numbers every time it is called.
"""
import json
import math
import os
from fractions import Fraction as F

import numpy as np
import scipy.stats as ss
from scipy.spatial.distance import squareform

import rsatoolbox
from rsatoolbox.model import ModelFixed, ModelWeighted, ModelSelect, ModelInterpolate
from rsatoolbox.rdm import RDMs
from rsatoolbox.simulation import sim
from lean import fbits, unfbits, deep, first_diff

PROPERTY = 'C18'
LEVEL = 'proof'
P = 'Rsa.Props.C18.'
THEOREMS = [P + n for n in (
    'G_to_D', 'G_to_D_squareform', 'make_signal_exact', 'exact_signal_reproduces',
    'euclid_algo_eq_spec', 'simulated_rdm_eq_model', 'descriptors_contents',
    'same_signal_reused', 'same_signal_zero_noise_identical', 'fresh_signal',
    'noise_additive_sqrt', 'real_sqrt_contracts', 'design_once_per_partition',
    'design_conditions', 'design_matrix_same_data', 'make_signal_exact_coded', 'eig_clamp_threshold',
    'real_eig_sqrt', 'euclid_is_C01_estimator', 'simulated_rdm_eq_model_C01',
    'general_design_reproduces', 'general_design_reproduces_D', 'factor_contract_reproduces',
    'coded_signal_reproduces', 'eig_clamp_nonneg', 'eig_clamp_error', 'chol_eigh_gram_real',
    'coded_signal_reproduces_real', 'general_design_dataset', 'row_center_sums_zero', 'draw_shapes',
    'inputs_not_written', 'no_module_state', 'call_stateless', 'session_calls_independent',
    'session_calls_only', 'specSession_append', 'session_call_reproduces',
    'signal_branches_draw', 'draw_plan_for_branch', 'value_drawn_eq', 'fresh_signal_exact')]
RULE = ('cases from one PRNG: model RDM = squared distances of an integer point set (3-7 conditions, '
        'incl. collinear / duplicated / low-rank sets; fixed, weighted, select, interpolate models), channels '
        'n_cond+{0,1,2,5} (a few below n_cond; 30 when every argument is left at its default), 1-4 partitions, '
        '1-3 simulations, dyadic signal strengths, noise 0 or >0, scalar arguments as float / int / numpy scalar, '
        'condition vector from make_design / arbitrary labels with unequal repetitions / explicit indicator '
        'matrix / general design matrix (regressor heights != 1, all-zero rest rows, compound rows, random; '
        'C / Fortran / strided / int / bool / float32 layouts), optional noise channel / trial and signal channel '
        'covariance, exact or random signal, same or fresh signal (all four combinations with several '
        'simulations forced), numpy seed (12 %: a second seed - by default two calls, like two simulations of one '
        'call, must get different signals, on the exact branch too); the malformed stream (3-D cond_vec, wrong covariance shapes); '
        'non-trivial = at least 3 conditions; distinct = distinct (points, channels, design, options, seed); '
        'reuse sessions (round 4): 2-5 make_dataset / make_signal / make_design calls in one process on live '
        'objects that are handed in again — models of one class, name and theta with different RDMs, one model '
        'object simulated repeatedly with other signal / noise / n_sim / design, a model whose RDM (or theta) '
        'the caller rewrites in place or rebinds between calls, the same cond_vec / design matrix, covariance '
        'and second-moment arrays passed again, returned design vectors scribbled on by the caller — every '
        'call judged from its own numbers, arguments bit-identical after every call, earlier results '
        'untouched at the end; a session is non-trivial with >= 2 steps')
BRANCHES = ['design:only', 'cond:design', 'cond:labels', 'cond:matrix', 'cond:general', 'signal:exact', 'signal:random',
            'same', 'fresh', 'noise:zero', 'noise:pos', 'noisecov:channel', 'noisecov:trial',
            'signalcov', 'nch:eq', 'nch:gt', 'nch:lt', 'model:generic', 'model:degenerate',
            'model:weighted', 'rdm:compared', 'own:met',
            'mk:fixed_vec', 'mk:fixed_mat', 'mk:fixed_rdms', 'mk:weighted', 'mk:weighted_none', 'mk:select',
            'mk:interp', 'reject:ndim3', 'reject:scc_shape', 'reject:ncc_shape', 'reject:nct_shape',
            'signal:coded', 'rdm:list',
            'zmat:heights', 'zmat:rest', 'zmat:compound', 'general:claimed', 'general:claimed:heights',
            'general:claimed:rest', 'general:claimed:compound', 'zlayout:F', 'zlayout:int', 'zlayout:bool',
            'zlayout:f32', 'zlayout:strided', 'args:defaults', 'args:int', 'args:np',
            'combo:exact+same', 'combo:exact+fresh', 'combo:random+same', 'combo:random+fresh',
            'signalcov:nsim>1', 'noisecov:trial:nsim>1', 'noisecov:trial:zero-noise',
            'own:met:eq', 'own:met:degenerate', 'factor:residual', 'factor:residual:eq',
            'mk:interp_none', 'stack:vec', 'stack:rdms', 'stack:mat',
            # round 7: a fresh signal on the exact branch
            'exact:fresh:n_sim>1', 'exact:fresh:n_sim>1:nch-eq', 'exact:fresh:two-seeds', 'exact:same-signal',
            'random:fresh:two-seeds',
            # reuse sessions (round 4)
            'session:same-name', 'session:same-model', 'session:edit-rdm', 'session:edit-rdm:inplace',
            'session:edit-rdm:rebind', 'session:reuse-cond', 'session:reuse-cov', 'session:reuse-theta',
            'session:edit-theta', 'session:relabel', 'session:make-signal', 'session:reuse-g', 'session:make-design',
            'session:design-scribble', 'session:mixed', 'session:len>=3', 'session:claimed-later',
            'session:claimed-later:general', 'session:same-name:stack', 'session:intact', 'session:kept']
ASSUMPTIONS = [
    'the exact-signal contract S S^T = n_channel*G of make_signal is checked numerically on every real '
    'call (rel. 1e-9); the orthonormality of np.linalg.qr, the decomposition of np.linalg.eigh and the factor '
    'contract F F^T = G (F as coded from the recorded eigh result and F recovered from the returned signal) are '
    'checked on every recorded result (1e-9)',
    'ss.norm.ppf is an arbitrary map from draws to reals for the theorems; the harness applies the '
    'same scipy function to the recorded uniform draws',
    'Float evaluation of both sides agrees within rtol 1e-9 (data, signals, RDM of identical data, exact-signal '
    'RDM vs signal*D, general-design second moment vs signal*Z G Z^T)',
]
TRUSTED_EXTRA = [
    'np.linalg.eigh(G): G = V diag(w) V^T; np.linalg.qr: orthonormal columns — hypotheses of '
    'make_signal_exact_coded / coded_signal_reproduces(_real), checked (1e-9) on every result recorded inside the '
    'real make_signal; the model has own instances of both contracts (pivoted Cholesky, Gram-Schmidt with '
    'completion) whose residuals are required to be <= 1e-9 in every claim case',
    'np.linalg.cholesky of the covariance arguments (passed to the model as recorded factors)',
    'harness/leaves/C18.py derivation of scalar entry formulas from array expressions (np.kron, np.identity, '
    '@, masked assignments, dict / keyword wiring, size= tuples) before py2lean',
    'harness/leaves/C18.py syntactic write / state analysis behind the leaves inputWrites and moduleState '
    '(flow-insensitive aliasing; scope: every function of simulation/sim.py, util/matrix.indicator / centering, '
    'the predict methods of the four model classes); state kept elsewhere is covered by the reuse sessions only',
]

_OWN = {}
TOL_EXACT = 1e-9      # relative to signal * max(D) (the repaired QR / eigh exact signal is accurate to ~1e-14)
_REC = {}


# ------------------------------------------------------------------ case construction

def _key(case):
    return json.dumps(case, sort_keys=True)


def _spd(rng, n):
    a = [[rng.randint(-1, 1) for _ in range(n)] for _ in range(n)]
    m = [[sum(a[i][k] * a[j][k] for k in range(n)) + (2 if i == j else 0) for j in range(n)]
         for i in range(n)]
    return m


def _points(rng, n, kind):
    dim = rng.choice([1, 2, 3])
    if kind == 'collinear':
        dim = 1
    pts = [[rng.randint(-3, 3) for _ in range(dim)] for _ in range(n)]
    if kind == 'generic':
        # distinct points
        seen = set()
        for p in pts:
            while tuple(p) in seen:
                p[rng.randrange(dim)] += rng.choice([4, 5, 7])
            seen.add(tuple(p))
    elif kind == 'duplicate':
        # two identical conditions (zero distance); adjacent early positions in 3-D make a leading
        # minor of G vanish, which is where a pivoting LDL of G is fragile
        if rng.random() < 0.7:
            pts = [[rng.randint(-3, 3) for _ in range(3)] for _ in range(n)]
            i = rng.choice([0, 1]) if n > 2 else 0
            i, j = i, i + 1
        else:
            i, j = rng.sample(range(n), 2)
        pts[j] = list(pts[i])
    return pts


def _labels(rng, n_cond):
    vals = sorted(rng.sample(range(0, 15), n_cond))
    lab = []
    for v in vals:
        lab += [v] * rng.randint(1, 3)
    rng.shuffle(lab)
    return lab


ZKINDS = ('heights', 'rest', 'compound', 'mixed', 'random')


def _zmat(rng, n, kind):
    """a general (encoding-style) design matrix, n_obs x n: an indicator design with regressor
    heights other than 1, all-zero rest rows, compound rows (several non-zero entries), or random"""
    if kind == 'random':
        n_obs = rng.randint(n, n + 4)
        return [[rng.choice([0, 0, 1, 1, 2, -1, 0.5]) for _ in range(n)] for _ in range(n_obs)]
    cols = []
    for j in range(n):
        cols += [j] * rng.randint(1, 2)
    rng.shuffle(cols)
    rows = [[1.0 if c == j else 0.0 for j in range(n)] for c in cols]
    if kind in ('heights', 'mixed'):
        per_col = rng.random() < 0.5
        hc = [rng.choice([2.0, 0.5, 3.0, -1.0, 1.5, 1.0]) for _ in range(n)]
        for r, c in zip(rows, cols):
            h = hc[c] if per_col else rng.choice([2.0, 0.5, 3.0, -1.0, 1.5, 1.0])
            r[c] = h
        if all(r[c] == 1.0 for r, c in zip(rows, cols)):
            rows[0][cols[0]] = 2.0
    if kind in ('rest', 'mixed'):
        for _ in range(rng.randint(1, 3)):
            rows.insert(rng.choice([0, 0, len(rows)] + list(range(len(rows) + 1))), [0.0] * n)
    if kind in ('compound', 'mixed'):
        for _ in range(rng.randint(1, 3)):
            a, b = rng.sample(range(n), 2)
            wa, wb = rng.choice([(1.0, 1.0), (1.0, 1.0), (0.5, 1.0), (1.0, 2.0), (1.0, -1.0)])
            r = [0.0] * n
            r[a], r[b] = wa, wb
            if n > 2 and rng.random() < 0.3:
                r[rng.choice([j for j in range(n) if j not in (a, b)])] = 1.0
            rows.insert(rng.randrange(len(rows) + 1), r)
    return rows


def _zfeatures(zmat):
    """which of the non-indicator features a design matrix has"""
    f = set()
    for r in zmat:
        nz = [x for x in r if x != 0]
        if not nz:
            f.add('rest')
        elif len(nz) > 1:
            f.add('compound')
        elif nz[0] != 1:
            f.add('heights')
    return f


def _one(rng, force=None):
    force = force or {}
    mkind = force.get('mkind', rng.choice(['generic'] * 5 + ['collinear', 'duplicate', 'any']))
    n = force.get('n_cond', rng.randint(5, 7) if mkind == 'duplicate' and rng.random() < 0.7
                  else rng.randint(3, 7))
    case = {'pts': _points(rng, n, mkind), 'mkind': mkind}
    mk = force.get('mk', rng.choice(['fixed_vec'] * 5 + ['fixed_mat', 'fixed_rdms', 'weighted', 'weighted',
                                           'weighted_none', 'select', 'interp', 'interp_none']))
    case['mk'] = mk
    if mk in ('weighted', 'weighted_none', 'select', 'interp', 'interp_none'):
        case['pts2'] = _points(rng, n, 'any')
        # how the RDM stack is handed to the model constructor: vectors, an RDMs object, square matrices
        case['stackform'] = rng.choice(['vec', 'vec', 'rdms', 'mat'])
        if mk == 'weighted':
            case['theta'] = [rng.choice([0.5, 1.0, 2.0]), rng.choice([0.25, 1.0, 1.5])]
        elif mk == 'interp':
            t = rng.choice([0.0, 0.25, 0.5, 1.0])
            case['theta'] = [1.0 - t, t]
        elif mk == 'select':
            case['theta'] = rng.choice([0, 1])
    r = rng.random()
    if force.get('_nch_eq'):
        case['n_ch'] = n
    elif r < 0.08 and not force.get('_scc'):
        case['n_ch'] = max(1, n - rng.randint(1, 2))
    else:
        case['n_ch'] = n + rng.choice([0, 1, 1, 2, 5])
    case['n_part'] = rng.randint(1, 4)
    case['n_sim'] = rng.randint(1, 3)
    case['signal'] = rng.choice([0.25, 1.0, 1.0, 2.5, 4.0, 9.0])
    case['noise'] = rng.choice([0.0, 0.0, 0.0, 0.0, 0.5, 1.0, 2.25])
    mode = force.get('cond_mode', rng.choice(['design', 'design', 'labels', 'labels', 'matrix', 'general']))
    case['cond_mode'] = mode
    if mode in ('labels', 'matrix'):
        case['labels'] = _labels(rng, n)
    elif mode == 'general':
        case['zkind'] = force.get('zkind', rng.choice(ZKINDS))
        case['zmat'] = _zmat(rng, n, case['zkind'])
    if mode == 'matrix' or mode == 'general':
        # memory layout / dtype of the explicit design matrix (glue around `Zcond = cond_vec`)
        case['zlayout'] = rng.choice(['C', 'C', 'F', 'int', 'bool', 'f32', 'strided'])
    case['exact'] = rng.random() < 0.75
    case['same'] = rng.random() < 0.4
    case['ncc'] = _spd(rng, case['n_ch']) if rng.random() < 0.2 else None
    case['nct'] = None
    # (a signal channel covariance with fewer channels than conditions makes make_signal raise: the
    #  property excludes both, see notes/C18.md, so that combination is not generated)
    case['scc'] = _spd(rng, case['n_ch']) if (rng.random() < 0.08 or force.get('_scc')) \
        and case['n_ch'] >= n and not force.get('_nct') else None
    n_obs = _n_obs(case)
    if (rng.random() < 0.15 or force.get('_nct')) and n_obs >= n and case['scc'] is None \
            and not force.get('_nch_eq'):
        # the code only accepts a trial covariance when n_obs == n_channel (see notes/C18.md)
        case['n_ch'] = n_obs
        case['ncc'] = _spd(rng, n_obs) if case['ncc'] is not None else None
        case['nct'] = _spd(rng, n_obs)
        if case['noise'] == 0.0 and rng.random() < 0.6:
            case['noise'] = 1.0
    case['seed'] = rng.randint(0, 2 ** 31 - 1)
    if force.get('_seed2') or rng.random() < 0.12:
        # a second call under another numpy seed (oracle: by default the signal differs between the two)
        case['seed2'] = (case['seed'] + 1 + rng.randint(0, 2 ** 30)) % (2 ** 31)
    # how the scalar arguments are passed: python floats, python ints (where integral), numpy scalars
    case['argform'] = rng.choice(['float', 'float', 'int', 'np'])
    case.update({k: v for k, v in force.items() if k not in ('mkind', 'n_cond', 'zkind')
                 and not k.startswith('_')})
    if case.get('defaults'):
        # every optional argument left at its default (n_channel=30, n_sim=1, signal=1, noise=1, ...)
        case.update({'n_ch': 30, 'n_sim': 1, 'signal': 1.0, 'noise': 1.0, 'exact': False, 'same': False,
                     'ncc': None, 'nct': None, 'scc': None})
    return case


def _n_obs(case):
    n = len(case['pts'])
    if case['cond_mode'] == 'design':
        return n * case['n_part']
    if case['cond_mode'] in ('labels', 'matrix'):
        return len(case['labels'])
    return len(case['zmat'])


def _bad(rng, kind):
    """the malformed stream: requests make_dataset rejects (ValueError) before drawing anything"""
    c = _one(rng, {'cond_mode': 'design', 'mk': 'fixed_vec'})
    c['ncc'] = c['nct'] = c['scc'] = None
    c['n_ch'] = max(c['n_ch'], len(c['pts']))
    c['bad'] = kind
    if kind != 'ndim3':
        m = c['n_ch'] + 1
        if kind == 'nct_shape' and m == _n_obs(c):
            m += 1          # wrong under both readings of the check (n_channel and n_obs)
        c[{'scc_shape': 'scc', 'ncc_shape': 'ncc', 'nct_shape': 'nct'}[kind]] = _spd(rng, m)
    return c


def generate(rng, tier):
    n = 160 if tier == 'quick' else 10000
    for k in range(8 if tier == 'quick' else 200):
        yield _bad(rng, ('ndim3', 'scc_shape', 'ncc_shape', 'nct_shape')[k % 4])
    # make_design alone, exhaustively over a small grid
    for nc in range(1, 7 if tier == 'quick' else 13):
        for npart in range(1, 6 if tier == 'quick' else 10):
            yield {'kind': 'design_only', 'n_cond': nc, 'n_part': npart}
    # a fixed sub-stream guarantees every branch in the quick tier
    forced = [{'mk': m, 'exact': True, 'noise': 0.0, 'scc': None, 'cond_mode': 'labels'}
              for m in ('fixed_mat', 'fixed_rdms', 'weighted', 'weighted_none', 'select', 'interp', 'interp_none')] + [
        {'mk': 'weighted', 'stackform': 'rdms'}, {'mk': 'select', 'stackform': 'mat'},
        {'mk': 'interp', 'stackform': 'rdms'},
        {'cond_mode': 'design', 'exact': True, 'noise': 0.0, 'same': False, 'scc': None, 'mkind': 'generic'},
        {'cond_mode': 'labels', 'exact': True, 'noise': 0.0, 'same': True, 'scc': None, 'mkind': 'generic'},
        {'cond_mode': 'matrix', 'exact': True, 'noise': 0.0, 'scc': None, 'mkind': 'collinear'},
        {'cond_mode': 'general', 'exact': False, 'noise': 1.0},
        {'cond_mode': 'design', 'exact': True, 'noise': 0.0, 'scc': None, 'mkind': 'duplicate', 'n_cond': 5},
    ] + [
        # general design matrices inside the property's claim (exact signal, zero noise)
        {'cond_mode': 'general', 'zkind': zk, 'exact': True, 'noise': 0.0, 'scc': None, 'ncc': None,
         'nct': None, 'zlayout': lay}
        for zk, lay in (('heights', 'C'), ('rest', 'F'), ('compound', 'strided'), ('mixed', 'f32'),
                        ('heights', 'int'), ('random', 'C'))
    ] + [
        {'cond_mode': 'matrix', 'zlayout': 'bool'}, {'cond_mode': 'matrix', 'zlayout': 'int'},
        {'cond_mode': 'design', 'defaults': True, 'mk': 'fixed_vec'},
        {'cond_mode': 'labels', 'defaults': True},
        {'argform': 'int', 'signal': 4.0, 'noise': 1.0}, {'argform': 'np'},
        # option combinations with several simulations
        {'n_sim': 3, 'exact': True, 'same': True, 'noise': 0.0, 'scc': None},
        {'n_sim': 3, 'exact': True, 'same': False, 'noise': 0.0, 'scc': None},
        {'n_sim': 2, 'exact': False, 'same': True}, {'n_sim': 2, 'exact': False, 'same': False},
        # round 7: a fresh signal on the exact branch (several simulations; two seeds; with noise; n_ch = n_cond)
        {'n_sim': 2, 'exact': True, 'same': False, 'noise': 0.0, 'scc': None, 'mkind': 'generic',
         'cond_mode': 'design', 'ncc': None, '_seed2': True},
        {'n_sim': 3, 'exact': True, 'same': False, 'noise': 1.0, 'mkind': 'generic', 'cond_mode': 'labels'},
        {'n_sim': 2, 'exact': True, 'same': False, 'noise': 0.0, 'scc': None, '_nch_eq': True, 'mkind': 'generic'},
        {'n_sim': 1, 'exact': True, 'same': False, 'noise': 0.0, 'scc': None, 'mkind': 'generic', '_seed2': True},
        {'n_sim': 2, 'exact': True, 'same': True, 'noise': 0.5, 'mkind': 'generic', '_seed2': True},
        {'n_sim': 1, 'exact': False, 'same': False, '_seed2': True},
        {'n_sim': 2, '_scc': True, 'same': True}, {'n_sim': 2, '_scc': True, 'same': False},
        {'n_sim': 2, '_nct': True, 'noise': 1.0}, {'n_sim': 1, '_nct': True, 'noise': 0.0, 'exact': True},
        # as many channels as conditions, degenerate model
        {'_nch_eq': True, 'exact': True, 'noise': 0.0, 'scc': None, 'cond_mode': 'labels'},
        {'_nch_eq': True, 'exact': True, 'noise': 0.0, 'scc': None, 'mkind': 'duplicate', 'n_cond': 6,
         'cond_mode': 'design'},
    ]
    for f in forced:
        yield _one(rng, f)
    # reuse sessions: several calls in one process on the same live objects
    yield from S.generate(rng, tier)
    for _ in range(n):
        yield _one(rng)


def search(rng, tier):
    """failing-input search: the property's own claim first (exact signal, zero noise, no signal
    covariance, channels >= conditions), all model kinds and designs"""
    k = 0
    while True:
        f = {'exact': True, 'noise': 0.0, 'scc': None} if rng.random() < 0.7 else {}
        k += 1
        if k % 3 == 0:
            # a reuse session (round-robin over the kinds)
            yield S.search_session(rng, k // 3)
            continue
        if k % 4 == 0:
            # general design matrices (heights, rest rows, compound rows), round-robin over the kinds
            f = dict(f, cond_mode='general', zkind=ZKINDS[(k // 4) % len(ZKINDS)])
        elif k % 5 == 0:
            # several simulations / two seeds: same signal, fresh exact signal, fresh exact signal under two seeds
            # (k % 9 used to sit here: unreachable behind k % 3)
            j = (k // 5) % 3
            f = dict(f, n_sim=rng.choice([2, 3]), same=(j == 1), signal=rng.choice([0.25, 2.5, 4.0]))
            if j != 1:
                f['exact'] = True
            if j == 2:
                f['_seed2'] = True
                f['n_sim'] = rng.choice([1, 2])
        c = _one(rng, f)
        if c['n_ch'] < len(c['pts']) and rng.random() < 0.8:
            c['n_ch'] = len(c['pts']) + rng.choice([0, 1, 2])
            c['ncc'] = c['nct'] = None
        yield c


# ------------------------------------------------------------------ the real code

def _dvec(pts):
    n = len(pts)
    return [float(sum((a - b) ** 2 for a, b in zip(pts[i], pts[j])))
            for i in range(n) for j in range(i + 1, n)]


def _mk(case):
    return case.get('mk', 'weighted' if 'pts2' in case else 'fixed_vec')


def _expected_dvec(case):
    """the model's predicted RDM, computed from the points only (plain python)"""
    d1 = _dvec(case['pts'])
    mk = _mk(case)
    if mk in ('fixed_vec', 'fixed_mat', 'fixed_rdms'):
        return d1
    d2 = _dvec(case['pts2'])
    if mk == 'weighted_none':
        return [a + b for a, b in zip(d1, d2)]
    if mk == 'interp_none':
        return [0.5 * a + 0.5 * b for a, b in zip(d1, d2)]
    if mk == 'select':
        return [d1, d2][case['theta']]
    return [case['theta'][0] * a + case['theta'][1] * b for a, b in zip(d1, d2)]


def _setup(case):
    d1 = np.array(_dvec(case['pts']))
    mk = _mk(case)
    if mk == 'fixed_vec':
        model, theta = ModelFixed('fixed-model', d1), None
    elif mk == 'fixed_mat':
        model, theta = ModelFixed('fixed-model', squareform(d1)), None
    elif mk == 'fixed_rdms':
        model, theta = ModelFixed('fixed-model', RDMs(np.array([d1]))), None
    else:
        d2 = np.array(_dvec(case['pts2']))
        stack = np.array([d1, d2])
        if case.get('stackform') == 'rdms':
            stack = RDMs(stack)
        elif case.get('stackform') == 'mat':
            stack = np.array([squareform(d1), squareform(d2)])
        if mk in ('weighted', 'weighted_none'):
            model = ModelWeighted('weighted-model', stack)
            theta = None if mk == 'weighted_none' else np.array(case['theta'], dtype=float)
        elif mk == 'select':
            model, theta = ModelSelect('select-model', stack), int(case['theta'])
        else:
            model = ModelInterpolate('interp-model', stack)
            theta = None if mk == 'interp_none' else np.array(case['theta'], dtype=float)
    dvec = np.array(_expected_dvec(case), dtype=float)
    n = len(case['pts'])
    mode = case['cond_mode']
    if case.get('bad') == 'ndim3':
        cond_vec, part_vec = np.zeros((n * case['n_part'], n, 1)), None
    elif mode == 'design':
        cond_vec, part_vec = sim.make_design(n, case['n_part'])
    elif mode == 'labels':
        cond_vec, part_vec = np.array(case['labels']), None
    elif mode == 'matrix':
        cond_vec, part_vec = _layout(rsatoolbox.util.matrix.indicator(np.array(case['labels'])), case), None
    else:
        cond_vec, part_vec = _layout(np.array(case['zmat'], dtype=float), case), None
    return model, theta, dvec, cond_vec, part_vec


def _layout(z, case):
    """the same design matrix in another memory layout / dtype (only where the values survive)"""
    lay = case.get('zlayout', 'C')
    if lay == 'F':
        return np.asfortranarray(z)
    if lay == 'int' and np.all(z == np.round(z)):
        return z.astype(np.int64)
    if lay == 'bool' and np.all((z == 0) | (z == 1)):
        return z.astype(bool)
    if lay == 'f32':
        return z.astype(np.float32)         # entries are small dyadic numbers: exact in float32
    if lay == 'strided':
        big = np.zeros((z.shape[0] * 2, z.shape[1] * 2))
        big[::2, ::2] = z
        return big[::2, ::2]
    return z


def _model_name(case):
    return {'weighted': 'weighted-model', 'weighted_none': 'weighted-model', 'select': 'select-model',
            'interp': 'interp-model', 'interp_none': 'interp-model'}.get(_mk(case), 'fixed-model')


def _theta_list(theta):
    """theta as the model sees it: None or a list of floats (a scalar index is one entry)"""
    if theta is None:
        return None
    return [float(x) for x in np.atleast_1d(np.asarray(theta, dtype=float))]


def _labels_of(case):
    """integer condition label of every observation (None for a general design matrix)"""
    if case['cond_mode'] == 'design':
        n = len(case['pts'])
        return [k % n for k in range(n * case['n_part'])]   # checked against make_design in compare
    if case['cond_mode'] in ('labels', 'matrix'):
        return list(case['labels'])
    return None


def _cov(m):
    return None if m is None else np.array(m, dtype=float)


class _Tap:
    """record np.random.uniform draws, sim.make_signal calls and the np.linalg.qr / eigh results
    inside them, for the duration of one call"""

    def __enter__(self):
        self.o_ms, self.o_uni = sim.make_signal, np.random.uniform
        self.o_qr, self.o_eigh = np.linalg.qr, np.linalg.eigh
        self.draws, self.signals, self.depth, self.cur = [], [], 0, None
        tap = self

        def make_signal(G, n_channel, make_exact=False, chol_channel=None):
            tap.depth += 1
            cur = tap.cur = {'u': None, 'q': None, 'eigval': None, 'eigvec': None}
            try:
                out = tap.o_ms(G, n_channel, make_exact, chol_channel)
            finally:
                tap.depth -= 1
                tap.cur = None
            cur.update({'G': np.array(G, dtype=float), 'n_channel': int(n_channel),
                        'exact': bool(make_exact),
                        'chol': None if chol_channel is None else np.array(chol_channel, dtype=float),
                        'out': np.array(out, dtype=float)})
            tap.signals.append(cur)
            return out

        def uniform(low=0.0, high=1.0, size=None):
            u = tap.o_uni(low, high, size)
            tap.draws.append(('S' if tap.depth else 'N', np.array(u, dtype=float)))
            if tap.cur is not None and tap.cur['u'] is None:
                tap.cur['u'] = np.array(u, dtype=float)
            return u

        def qr(a, *args, **kw):
            res = tap.o_qr(a, *args, **kw)
            if tap.cur is not None and tap.cur['q'] is None:
                tap.cur['q'] = np.array(res[0], dtype=float)
            return res

        def eigh(a, *args, **kw):
            res = tap.o_eigh(a, *args, **kw)
            if tap.cur is not None and tap.cur['eigval'] is None:
                tap.cur['eigval'] = np.array(res[0], dtype=float)      # copied before the clamp
                tap.cur['eigvec'] = np.array(res[1], dtype=float)
            return res
        sim.make_signal, np.random.uniform = make_signal, uniform
        np.linalg.qr, np.linalg.eigh = qr, eigh
        return self

    def __exit__(self, *a):
        sim.make_signal, np.random.uniform = self.o_ms, self.o_uni
        np.linalg.qr, np.linalg.eigh = self.o_qr, self.o_eigh
        return False


def _objects(case):
    """the objects of one call, built from the case's own numbers only (fresh arrays every time: nothing
    is shared between cases, between the implementation side and the model / oracle side, or between two
    evaluations of the same case)"""
    model, theta, dvec, cond_vec, _ = _setup(case)
    return {'model': model, 'theta': theta, 'cond_vec': cond_vec, 'scc': _cov(case['scc']),
            'ncc': _cov(case['ncc']), 'nct': _cov(case['nct'])}


def _call(case, noise=None, signal=None, tap=None, objs=None):
    """one make_dataset call; `objs` = the live objects of a reuse session (else fresh ones)"""
    if objs is None:
        objs = _objects(case)
    model, theta, cond_vec = objs['model'], objs['theta'], objs['cond_vec']
    dvec = np.array(_expected_dvec(case), dtype=float)
    np.random.seed(case['seed'])

    def num(x):
        form = case.get('argform', 'float')
        if form == 'int' and float(x) == int(x):
            return int(x)
        if form == 'np':
            return np.float64(x)
        return x
    kw = dict(n_channel=case['n_ch'], n_sim=case['n_sim'],
              signal=num(case['signal'] if signal is None else signal),
              noise=num(case['noise'] if noise is None else noise),
              signal_cov_channel=objs['scc'], noise_cov_channel=objs['ncc'],
              noise_cov_trial=objs['nct'], use_exact_signal=case['exact'],
              use_same_signal=case['same'])
    if case.get('defaults'):
        # only what the oracle varies is passed; everything else is the signature's default
        kw = {k: v for k, v in (('signal', signal), ('noise', noise)) if v is not None}
    return sim.make_dataset(model, theta, cond_vec, **kw), (model, theta, dvec, cond_vec)


def _canon_desc(x):
    if x is None:
        return None
    if isinstance(x, np.ndarray):
        return [_canon_desc(v) for v in x.tolist()] if x.ndim else _canon_desc(x.item())
    if isinstance(x, (list, tuple)):
        return [_canon_desc(v) for v in x]
    if isinstance(x, (np.floating, float, np.integer, int, bool, np.bool_)):
        return float(x)
    return str(x)


def _canon_desc_dict(d):
    return {str(k): _canon_desc(v) for k, v in dict(d).items()}


def _claims_any(case):
    """exact signal, zero noise, no signal covariance, channels >= conditions"""
    return (not case.get('bad') and case['exact'] and case['noise'] == 0.0 and case['scc'] is None
            and case['n_ch'] >= len(case['pts']))


def _claims_rdm(case):
    """the property's consistency claim applies (RDM by condition = signal * model RDM)"""
    return _claims_any(case) and case['cond_mode'] != 'general'


def _claims_general(case):
    """the same claim for a general design matrix: the data rows are sqrt(signal) * Z U exactly, so the
    second moment of the data is n_channel * signal * Z G Z^T and the distances between rows follow"""
    return _claims_any(case) and case['cond_mode'] == 'general'


def _row_ds(ds):
    """the same measurements with one condition per observation"""
    return rsatoolbox.data.Dataset(ds.measurements, descriptors=ds.descriptors,
                                   obs_descriptors={'row': np.arange(ds.n_obs)})


def _design_only(case):
    return case.get('kind') == 'design_only'


def _is_session(case):
    return case.get('kind') == 'session'


def run_impl(case):
    if _is_session(case):
        return S.run_impl(case)
    if _design_only(case):
        cv, pv = sim.make_design(case['n_cond'], case['n_part'])
        return {'design': {'cond': _canon_desc(cv), 'part': _canon_desc(pv)}}
    return _run_single(case, _key(case))


def _run_single(case, key, objs=None, keep=None):
    """one make_dataset call with everything recorded; `objs` = live objects of a session, `keep` = a
    list that receives the returned Dataset objects (a session looks at them again later)"""
    try:
        with _Tap() as tap:
            dss, (model, theta, dvec, cond_vec) = _call(case, objs=objs)
    except (ValueError, TypeError, AssertionError, np.linalg.LinAlgError) as exc:
        _REC[key] = None
        return {'exc': type(exc).__name__}
    _REC[key] = {'signals': [s['out'] for s in tap.signals],
                 'noise_u': [u for k, u in tap.draws if k == 'N'],
                 'signal_u': [u for k, u in tap.draws if k == 'S'],
                 'calls': tap.signals}
    n = len(case['pts'])
    res = {'design': None}
    if case['cond_mode'] == 'design':
        cv, pv = sim.make_design(n, case['n_part'])
        res['design'] = {'cond': _canon_desc(cv), 'part': _canon_desc(pv)}
    res['G'] = tap.signals[0]['G'].tolist() if tap.signals else None
    res['events'] = ''.join(k for k, _ in tap.draws)
    res['n_signal_calls'] = len(tap.signals)
    res['signal_shapes'] = [list(u.shape) for k, u in tap.draws if k == 'S']
    res['noise_shapes'] = [list(u.shape) for k, u in tap.draws if k == 'N']
    contract = None
    if case['exact'] and case['scc'] is None and case['n_ch'] >= n:
        contract = 0.0
        for s in tap.signals:
            g = s['G']
            sc = max(float(np.max(np.abs(g))), 1e-300)
            contract = max(contract, float(np.max(np.abs(s['out'] @ s['out'].T / case['n_ch'] - g))) / sc)
    res['contract'] = contract
    res['signals'] = [s['out'].tolist() for s in tap.signals]
    # contracts of the two external factorisations inside make_signal (hypotheses of
    # make_signal_exact_coded), checked on the recorded results
    fac = None
    for s in tap.signals:
        if s['eigval'] is None or (s['exact'] and s['q'] is None):
            fac = 'not recorded (make_signal no longer calls np.linalg.eigh / qr)'
            break
        g, w, v = s['G'], s['eigval'], s['eigvec']
        sc = max(float(np.max(np.abs(g))), 1e-300)
        r1 = float(np.max(np.abs((v * w) @ v.T - g))) / sc
        r2 = float(np.max(np.abs(v.T @ v - np.eye(len(w)))))
        r3 = float(np.max(np.abs(s['q'].T @ s['q'] - np.eye(s['q'].shape[1])))) if s['exact'] else 0.0
        if max(r1, r2, r3) > 1e-9:
            fac = f'eigh/qr contract residuals {r1:.2e} {r2:.2e} {r3:.2e}'
            break
        if float(np.min(w)) < -1e-9 * sc:
            fac = f'negative eigenvalue {float(np.min(w)):.3e} of G for an embeddable model'
            break
    res['factor_contract'] = fac
    # the factor of G at the level "any F with F F^T = G and shape (n_cond, n_cond)" (hypothesis hF of
    # factor_contract_reproduces): F as coded from the recorded eigh result, and — for exact calls that
    # are neither truncated nor given a channel covariance — F recovered from the *returned* signal
    # (out = F W, W W^T = w I  =>  F = out W^T / w); residual relative to max|G|
    fres, fwhy = None, None
    if fac is None:
        for s in tap.signals:
            g, n_c = s['G'], s['G'].shape[0]
            sc = max(float(np.max(np.abs(g))), 1e-300)
            wcl = np.where(s['eigval'] < 1e-15, 0.0, s['eigval'])
            f_rec = s['eigvec'] * np.sqrt(wcl)
            r = float(np.max(np.abs(f_rec @ f_rec.T - g))) / sc
            if f_rec.shape != (n_c, n_c):
                fwhy = f'factor shape {f_rec.shape}'
            if s['exact'] and s['chol'] is None and s['n_channel'] >= n_c:
                w = s['n_channel']
                wmat = s['q'].T * np.sqrt(w)
                f_out = s['out'] @ wmat.T / w
                r = max(r, float(np.max(np.abs(f_out @ f_out.T - g))) / sc,
                        float(np.max(np.abs(f_out - f_rec))) / math.sqrt(sc))
            fres = r if fres is None else max(fres, r)
    res['factor_resid'] = fres
    res['factor_why'] = fwhy
    labels = _labels_of(case)
    out = []
    for ds in dss:
        d = {'data': ds.measurements.tolist(),
             'cond_vec': _canon_desc(ds.obs_descriptors.get('cond_vec')),
             'signal': _canon_desc(ds.descriptors.get('signal')),
             'noise': _canon_desc(ds.descriptors.get('noise')),
             'model': _canon_desc(ds.descriptors.get('model')),
             'theta': _theta_list(ds.descriptors.get('theta')),
             'n_obs': int(ds.n_obs), 'n_ch': int(ds.n_channel), 'rdm': None, 'rdm_rows': None}
        if case['cond_mode'] == 'general':
            try:
                d['rdm_rows'] = rsatoolbox.rdm.calc_rdm(
                    _row_ds(ds), method='euclidean', descriptor='row').get_vectors()[0].tolist()
            except Exception as exc:  # noqa: BLE001  (any exception of calc_rdm is a finding, not an infrastructure error)
                d['rdm_rows'] = {'exc': type(exc).__name__}
        if labels is not None:
            if case['cond_mode'] == 'matrix':
                ds2 = rsatoolbox.data.Dataset(ds.measurements, descriptors=ds.descriptors,
                                               obs_descriptors={'cond_vec': np.array(labels)})
            else:
                ds2 = ds
            try:
                r = rsatoolbox.rdm.calc_rdm(ds2, method='euclidean', descriptor='cond_vec')
                d['rdm'] = r.get_vectors()[0].tolist()
                d['rdm_labels'] = _canon_desc(r.pattern_descriptors.get('cond_vec'))
            except Exception as exc:  # noqa: BLE001  (any exception of calc_rdm is a finding, not an infrastructure error)
                d['rdm'] = {'exc': type(exc).__name__}
        out.append(d)
    res['datasets'] = out
    if keep is not None:
        keep.extend(dss)
    # the whole list through calc_rdm (the Iterable branch): one RDM per simulation
    res['rdm_list'] = None
    if labels is not None:
        lst = dss if case['cond_mode'] != 'matrix' else [
            rsatoolbox.data.Dataset(ds.measurements, descriptors=ds.descriptors,
                                    obs_descriptors={'cond_vec': np.array(labels)}) for ds in dss]
        try:
            rl = rsatoolbox.rdm.calc_rdm(lst, method='euclidean', descriptor='cond_vec')
            res['rdm_list'] = rl.get_vectors().tolist()
        except Exception as exc:  # noqa: BLE001  (any exception of calc_rdm is a finding, not an infrastructure error)
            res['rdm_list'] = {'exc': type(exc).__name__}
    return res


# ------------------------------------------------------------------ the model

_NAMES = {}


def _validate_request(case):
    def shp(m):
        return None if m is None else [len(m), len(m[0])]
    ndim = 3 if case.get('bad') == 'ndim3' else (1 if case['cond_mode'] in ('design', 'labels') else 2)
    return {'op': 'c18.validate', 'cond_ndim': ndim, 'n_ch': case['n_ch'], 'scc': shp(case['scc']),
            'ncc': shp(case['ncc']), 'nct': shp(case['nct'])}


def model_requests(case):
    if _is_session(case):
        return S.model_requests(case)
    if _design_only(case):
        return [{'op': 'c18.design', 'n_cond': case['n_cond'], 'n_part': case['n_part']}]
    key = _key(case)
    if key not in _REC:
        run_impl(case)
    return _requests_single(case, key)


def _requests_single(case, key):
    """driver requests of one make_dataset call: everything is computed from the case's own numbers (fresh
    objects from `_setup`) and the draws / factorisation results recorded under `key`"""
    rec = _REC.get(key)
    named = [('validate', _validate_request(case))]
    if rec is None:
        _NAMES[key] = [k for k, _ in named]
        return [r for _, r in named]
    n = len(case['pts'])
    _, theta, dvec, cond_vec, _ = _setup(case)
    labels = _labels_of(case)
    if case['cond_mode'] in ('design', 'labels'):
        cond = {'vec': labels}
    else:
        cond = {'design': deep(fbits, np.asarray(cond_vec, dtype=float))}

    def chol(m):
        return None if m is None else deep(fbits, np.linalg.cholesky(np.array(m, dtype=float)))
    th = _theta_list(theta)
    dataset = {
        'op': 'c18.dataset', 'n_cond': n, 'n_ch': case['n_ch'], 'n_sim': case['n_sim'],
        'signal': fbits(case['signal']), 'noise': fbits(case['noise']), 'same': case['same'],
        'exact': bool(case['exact']), 'cond': cond, 'signals': [deep(fbits, s) for s in rec['signals']],
        'noises': [deep(fbits, ss.norm.ppf(u)) for u in rec['noise_u']],
        'chol_c': chol(case['ncc']), 'chol_t': chol(case['nct']),
        'model': _model_name(case), 'theta': None if th is None else deep(fbits, th)}
    named += [('dataset', dataset), ('gram', {'op': 'c18.gram', 'n': n, 'rdm': deep(fbits, dvec)})]
    if case['cond_mode'] == 'design':
        named.append(('design', {'op': 'c18.design', 'n_cond': n, 'n_part': case['n_part']}))
    if case['cond_mode'] == 'matrix':
        named.append(('dataset_vec', dict(dataset, cond={'vec': labels})))
    if case['cond_mode'] == 'general':
        named.append(('rowspec', {'op': 'c18.rowspec', 'n_cond': n, 'rdm': deep(fbits, dvec),
                                  'design': deep(fbits, np.asarray(cond_vec, dtype=float)),
                                  'signal': fbits(case['signal'])}))
    if _claims_rdm(case):
        w = max(n, case['n_ch'])
        z = ss.norm.ppf(rec['signal_u'][0]) if rec['signal_u'] and rec['signal_u'][0].shape == (n, w) \
            else np.zeros((n, w))
        named.append(('own', {'op': 'c18.own', 'n_cond': n, 'n_ch': case['n_ch'], 'rdm': deep(fbits, dvec),
                              'z': deep(fbits, z), 'vec': labels, 'signal': fbits(case['signal'])}))
    # make_signal as coded (QR / eigh results recorded from the real call)
    for i, c in enumerate(rec['calls']):
        if c['u'] is None or c['eigval'] is None or (c['exact'] and c['q'] is None):
            continue
        named.append((f'signal{i}', {
            'op': 'c18.signal', 'n_cond': n, 'n_ch': case['n_ch'], 'exact': c['exact'],
            'z': deep(fbits, ss.norm.ppf(c['u'])), 'q': None if c['q'] is None else deep(fbits, c['q']),
            'eigval': deep(fbits, c['eigval']), 'eigvec': deep(fbits, c['eigvec']),
            'chol_s': None if c['chol'] is None else deep(fbits, c['chol'])}))
    _NAMES[key] = [k for k, _ in named]
    return [r for _, r in named]


def _unf(x):
    return deep(unfbits, x)


def model_result(case, answers):
    if _is_session(case):
        return S.model_result(case, answers)
    if not answers:
        return {'no_recording': True}
    if _design_only(case):
        for a in answers:
            if isinstance(a, dict) and 'model_error' in a:
                return a
        return {'design': {'cond': [float(v) for v in answers[0]['cond']],
                           'part': [float(v) for v in answers[0]['part']]}}
    return _result_single(case, _key(case), answers)


def _result_single(case, key, answers):
    if not answers:
        return {'no_recording': True}
    for a in answers:
        if isinstance(a, dict) and 'model_error' in a:
            return a
    ans = dict(zip(_NAMES.get(key, []), answers))
    if 'dataset' not in ans:
        return {'accepts': ans.get('validate'), 'no_recording': True}
    ds = ans['dataset']
    res = {'accepts': ans.get('validate'),
           'coded_signals': {int(k[6:]): _unf(v['signal']) for k, v in ans.items() if k.startswith('signal')},
           'G': _unf(ans['gram']), 'plan': ''.join('S' if k else 'N' for k, _ in ds['plan']),
           'n_signal_calls': ds['n_signal_calls'], 'n_cols': ds['n_cols'], 'gen_width': ds['gen_width'],
           'noise_shape': ds['noise_shape'], 'signal_shape': ds['signal_shape'],
           'design': None, 'own': None}
    out = []
    for k, d in enumerate(ds['datasets']):
        cv = d['cond_vec']
        if case['cond_mode'] in ('matrix', 'general'):
            cv = _unf(cv)
        else:
            cv = [float(v) for v in cv]
        o = {'data': _unf(d['data']), 'rdm': None if d['rdm'] is None else _unf(d['rdm']),
             'cond_vec': cv, 'signal': unfbits(d['signal']), 'noise': unfbits(d['noise']),
             'model': d['model'], 'theta': None if d['theta'] is None else _unf(d['theta']),
             'n_obs': d['n_obs'], 'n_ch': d['n_ch'],
             'rdm_rows': None if d.get('rdm_rows') is None else _unf(d['rdm_rows'])}
        if 'dataset_vec' in ans:
            # explicit indicator matrix: same data as with the label vector (design_matrix_same_data)
            dv = ans['dataset_vec']['datasets'][k]
            if dv['data'] != d['data']:
                return {'model_error': 'design-matrix data differ from label-vector data in the model'}
            o['rdm'] = _unf(dv['rdm'])
        out.append(o)
    res['datasets'] = out
    if 'design' in ans:
        res['design'] = {'cond': [float(v) for v in ans['design']['cond']],
                         'part': [float(v) for v in ans['design']['part']]}
    if 'rowspec' in ans:
        res['rowspec'] = {'spec': _unf(ans['rowspec']['spec']), 'spec_d': _unf(ans['rowspec']['spec_d'])}
    if 'own' in ans:
        o = ans['own']
        res['own'] = {'resid_c': unfbits(o['resid_c']), 'resid_w': unfbits(o['resid_w']),
                      'rdm': _unf(o['rdm'])}
    return res


def _own_met(case, model):
    o = model.get('own') if isinstance(model, dict) else None
    if not o:
        return False
    gs = max(max(abs(x) for row in model['G'] for x in row), 1e-300)
    w = max(case['n_ch'], len(case['pts']))
    return (math.isfinite(o['resid_c']) and math.isfinite(o['resid_w'])
            and o['resid_c'] <= 1e-9 * gs and o['resid_w'] <= 1e-9 * w)


def _expected_rdm(case):
    return [case['signal'] * float(v) for v in _expected_dvec(case)]


def compare(case, impl, model):
    if _is_session(case):
        return S.compare(case, impl, model)
    return _compare_single(case, impl, model)


def _compare_single(case, impl, model):
    if isinstance(model, dict) and 'own' in model:
        _OWN[_key(case)] = _own_met(case, model)
    if isinstance(model, dict) and 'model_error' in model:
        return f'model error {model}'
    if _design_only(case):
        return first_diff(impl['design'], model['design'], 0, 0, 'make_design')
    accepts = model.get('accepts')
    if 'exc' in impl:
        if impl['exc'] == 'ValueError' and accepts is False:
            return None           # both reject the request
        return f"implementation raised {impl['exc']}, model accepts={accepts}"
    if accepts is False:
        return 'model rejects the request (ValueError), implementation returned datasets'
    if model.get('no_recording'):
        return 'no recording of the real call'
    n = len(case['pts'])
    if case['cond_mode'] == 'design':
        d = first_diff(impl['design'], model['design'], 0, 0, 'make_design')
        if d:
            return d
    d = first_diff(impl['G'], model['G'], 1e-9, 1e-9 * max(1.0, max(abs(x) for r in model['G'] for x in r)), 'G')
    if d:
        return d
    if impl['events'] != model['plan']:
        return f"order of random draws {impl['events']} != model {model['plan']}"
    if impl['n_signal_calls'] != model['n_signal_calls']:
        return f"make_signal called {impl['n_signal_calls']} times, model {model['n_signal_calls']}"
    n_obs = _n_obs(case)
    for sh in impl['signal_shapes']:
        if sh != [n, model['gen_width']] or sh != model['signal_shape']:
            return f"signal draw shape {sh} != model {model['signal_shape']}"
    for sh in impl['noise_shapes']:
        if sh != [n_obs, case['n_ch']] or sh != model['noise_shape']:
            return f"noise draw shape {sh} != model {model['noise_shape']}"
    if len(impl['datasets']) != len(model['datasets']):
        return f"{len(impl['datasets'])} datasets, model {len(model['datasets'])}"
    rscale = max([abs(w) for w in _expected_rdm(case)] + [1e-12])
    for k, (a, b) in enumerate(zip(impl['datasets'], model['datasets'])):
        dscale = max(1.0, max(abs(x) for r in b['data'] for x in r))
        d = first_diff(a['data'], b['data'], 1e-9, 1e-9 * dscale, f'dataset[{k}].data')
        if d:
            return d
        for f in ('cond_vec', 'signal', 'noise', 'model', 'theta', 'n_obs', 'n_ch'):
            d = first_diff(a[f], b[f], 0, 0, f'dataset[{k}].{f}')
            if d:
                return d
        if isinstance(a['rdm'], dict):
            return f"dataset[{k}]: calc_rdm(euclidean, cond_vec) raised {a['rdm']['exc']} on the simulated dataset"
        if a['rdm'] is not None and b['rdm'] is not None:
            if a.get('rdm_labels') != [float(u) for u in sorted(set(_labels_of(case)))]:
                return f"dataset[{k}]: RDM pattern labels {a.get('rdm_labels')} are not the sorted unique conditions"
            d = first_diff(a['rdm'], b['rdm'], 1e-9, 1e-9 * max(rscale, dscale * dscale),
                           f'dataset[{k}].rdm(calc_rdm vs model on the same data)')
            if d:
                return d
        # general design matrix: one pattern per observation
        if isinstance(a.get('rdm_rows'), dict):
            return f"dataset[{k}]: calc_rdm(euclidean, by row) raised {a['rdm_rows']['exc']} on the simulated dataset"
        if a.get('rdm_rows') is not None and b.get('rdm_rows') is not None:
            d = first_diff(a['rdm_rows'], b['rdm_rows'], 1e-9, 1e-9 * max(rscale, dscale * dscale),
                           f'dataset[{k}].rdm_rows(calc_rdm vs model on the same data)')
            if d:
                return d
    # make_signal as coded: model signal from the recorded draw and qr / eigh results
    if impl['factor_contract']:
        return f"make_signal factor step: {impl['factor_contract']}"
    if impl.get('factor_why'):
        return f"make_signal factor step: {impl['factor_why']}"
    if impl.get('factor_resid') is None or not impl['factor_resid'] <= 1e-9:
        return (f"factor of G inside make_signal: F F^T = G (F of shape n_cond x n_cond) violated on the real "
                f"call, relative residual {impl.get('factor_resid')}")
    if len(model['coded_signals']) != len(impl['signals']):
        return f"{len(impl['signals'])} make_signal calls, {len(model['coded_signals'])} modelled"
    for i_s, sig in enumerate(impl['signals']):
        sscale = max(1.0, max(abs(x) for r in sig for x in r))
        d = first_diff(sig, model['coded_signals'][i_s], 1e-9, 1e-9 * sscale, f'make_signal[{i_s}]')
        if d:
            return d
    # calc_rdm on the whole list of simulated datasets
    if impl['rdm_list'] is not None:
        if isinstance(impl['rdm_list'], dict):
            return f"calc_rdm(list of simulated datasets) raised {impl['rdm_list']['exc']}"
        mr = [b['rdm'] for b in model['datasets']]
        if all(r is not None for r in mr):
            d = first_diff(impl['rdm_list'], mr, 1e-9, 1e-9 * max(rscale, 1.0) * 1e3,
                           'calc_rdm(list) vs model RDMs')
            if d:
                return d
    if _claims_rdm(case):
        if impl['contract'] is None or not impl['contract'] <= TOL_EXACT:
            return (f"exact-signal contract S S^T = n_channel*G violated on the real call: "
                    f"relative residual {impl['contract']}")
        want = _expected_rdm(case)
        if not _own_met(case, model):
            return (f"the model's own factor instances (pivoted Cholesky, Gram-Schmidt with completion) miss "
                    f"their contracts: residuals {model['own']['resid_c']:.2e} {model['own']['resid_w']:.2e}")
        d = first_diff(model['own']['rdm'], want, 0, 1e-9 * rscale, 'model own exact signal: rdm vs signal*D')
        if d:
            return d
        for k, a in enumerate(impl['datasets']):
            d = first_diff(a['rdm'], want, 0, TOL_EXACT * rscale, f'dataset[{k}].rdm vs signal*D')
            if d:
                return d
    if case['cond_mode'] == 'general' and 'rowspec' in model:
        spec, spec_d = model['rowspec']['spec'], model['rowspec']['spec_d']
        z = case['zmat']
        zs = _zscale(case)
        # the two forms of the specification agree on pairs of rows with equal sums
        # (general_design_reproduces_D)
        pairs = [(i, j) for i in range(len(z)) for j in range(i + 1, len(z))]
        for (i, j), x, y in zip(pairs, spec, spec_d):
            if sum(z[i]) == sum(z[j]) and not abs(x - y) <= 1e-9 * zs:
                return f'general design: G form {x} and D form {y} of the specification differ for rows {i},{j}'
        if _claims_general(case):
            if impl['contract'] is None or not impl['contract'] <= TOL_EXACT:
                return (f"exact-signal contract S S^T = n_channel*G violated on the real call: "
                        f"relative residual {impl['contract']}")
            for k, a in enumerate(impl['datasets']):
                d = first_diff(a['rdm_rows'], spec, 0, TOL_EXACT * zs,
                               f'dataset[{k}].rdm_rows vs signal * (z_o - z_p)^T G (z_o - z_p)')
                if d:
                    return d
    return None


def _zscale(case):
    """scale of the quadratic forms of a general design: signal * max|G| * (max L1 norm of a row difference)^2"""
    n = len(case['pts'])
    dv = _expected_dvec(case)
    gmax = max([abs(v) for v in dv] + [1e-12])         # |G_ab| <= max D
    l1 = max(sum(abs(x) for x in r) for r in case['zmat'])
    return max(case['signal'], 1e-12) * gmax * (2 * l1) ** 2


# ------------------------------------------------------------------ features

def _degenerate(case):
    """duplicated points or a vanishing leading minor of the centred second-moment matrix"""
    pts = [tuple(p) for p in case['pts']]
    if _mk(case) == 'select':
        pts = [tuple(p) for p in [case['pts'], case['pts2']][case['theta']]]
    elif 'pts2' in case:
        pts = [tuple(p) + tuple(q) for p, q in zip(case['pts'], case['pts2'])]
    return len(set(pts)) < len(pts)


def features(case, impl):
    if _is_session(case):
        return S.features(case, impl)
    if _design_only(case):
        return {'n_cond': case['n_cond'], 'cond_mode': 'design_only', 'branches': ['design:only']}
    n = len(case['pts'])
    b = ['cond:' + case['cond_mode'], 'signal:exact' if case['exact'] else 'signal:random',
         'same' if case['same'] else 'fresh', 'noise:zero' if case['noise'] == 0.0 else 'noise:pos',
         'nch:' + ('eq' if case['n_ch'] == n else 'gt' if case['n_ch'] > n else 'lt'),
         'model:degenerate' if _degenerate(case) else 'model:generic']
    if case['ncc'] is not None:
        b.append('noisecov:channel')
    if case['nct'] is not None:
        b.append('noisecov:trial')
    if case['scc'] is not None:
        b.append('signalcov')
    if 'pts2' in case:
        b.append('model:weighted')   # any model built from two RDMs
    if _claims_rdm(case):
        b.append('rdm:compared')
    if case['cond_mode'] == 'general':
        zf = _zfeatures(case['zmat'])
        b += ['zmat:' + f for f in sorted(zf)]
        if _claims_general(case):
            b.append('general:claimed')
            b += ['general:claimed:' + f for f in sorted(zf)]
    if case['cond_mode'] in ('matrix', 'general'):
        b.append('zlayout:' + case.get('zlayout', 'C'))
    b.append('args:' + ('defaults' if case.get('defaults') else case.get('argform', 'float')))
    # option combinations of the same-signal / exact-signal switches with several simulations
    if case['n_sim'] > 1:
        b.append('combo:' + ('exact' if case['exact'] else 'random') + '+' + ('same' if case['same'] else 'fresh'))
        if case['scc'] is not None:
            b.append('signalcov:nsim>1')
        if case['nct'] is not None:
            b.append('noisecov:trial:nsim>1')
    if case['nct'] is not None and _claims_any(case):
        b.append('noisecov:trial:zero-noise')
    # round 7: freshness judged on the exact branch (several simulations of one call; two calls under two seeds)
    if not case.get('bad') and case['exact']:
        judged = _exact_fresh_judged(case) and case['signal'] != 0
        if case['n_sim'] > 1 and case['same']:
            b.append('exact:same-signal')
        if case['n_sim'] > 1 and not case['same'] and judged:
            b.append('exact:fresh:n_sim>1')
            if case['n_ch'] == n:
                b.append('exact:fresh:n_sim>1:nch-eq')
        if case.get('seed2') is not None and not case['same'] and judged:
            b.append('exact:fresh:two-seeds')
    if not case.get('bad') and not case['exact'] and case.get('seed2') is not None and not case['same']:
        b.append('random:fresh:two-seeds')
    # whether the model's own factor instances met their contract is known once compare() ran
    if _OWN.get(_key(case)):
        b.append('own:met')
        if case['n_ch'] == n:
            b.append('own:met:eq')
        if _degenerate(case):
            b.append('own:met:degenerate')
    b.append('mk:' + _mk(case))
    if case.get('stackform'):
        b.append('stack:' + case['stackform'])
    if case.get('bad'):
        b = ['reject:' + case['bad']]
    elif impl is not None and 'exc' not in impl:
        if impl.get('signals') and not impl.get('factor_contract'):
            b.append('signal:coded')
        if isinstance(impl.get('rdm_list'), list):
            b.append('rdm:list')
        if impl.get('factor_resid') is not None and impl['factor_resid'] <= 1e-9:
            b.append('factor:residual')
            if case['exact'] and case['n_ch'] == n:
                b.append('factor:residual:eq')
    return {'n_cond': n, 'n_ch_minus_n_cond': case['n_ch'] - n, 'cond_mode': case['cond_mode'],
            'exact': case['exact'], 'same': case['same'], 'noise_zero': case['noise'] == 0.0,
            'model_degenerate': _degenerate(case), 'claims_rdm': _claims_rdm(case), 'mk': _mk(case),
            'bad': case.get('bad'),
            'n_sim': case['n_sim'], 'branches': b}


def nontrivial_key(case, impl):
    if _is_session(case):
        return S.nontrivial_key(case)
    if _design_only(case):
        return ['design', case['n_cond'], case['n_part']] if min(case['n_cond'], case['n_part']) >= 2 else None
    if len(case['pts']) < 3:
        return None
    return [case['pts'], case.get('pts2'), case['n_ch'], case['cond_mode'], case.get('labels'),
            case.get('zmat'), case['n_part'], case['n_sim'], case['exact'], case['same'],
            case['noise'], case['signal'], case['seed']]


# ------------------------------------------------------------------ oracle

def _sq_rdm_by_condition(data, labels, n_ch):
    """squared Euclidean RDM by condition, plain loops: mean pattern per sorted unique label,
    mean squared difference over channels, pairs in triu order"""
    uniq = sorted(set(labels))
    means = []
    for u in uniq:
        rows = [data[o] for o in range(len(labels)) if labels[o] == u]
        means.append([sum(r[c] for r in rows) / len(rows) for c in range(n_ch)])
    out = []
    for i in range(len(uniq)):
        for j in range(i + 1, len(uniq)):
            out.append(sum((means[i][c] - means[j][c]) ** 2 for c in range(n_ch)) / n_ch)
    return out


def _fail(what, observed, expected, **feat):
    return {'what': what, 'observed': observed, 'expected': expected, 'features': feat}


_FRESH = None


def oracle(case):
    """the property on the real code.  Evaluated in a pristine process image (rsatoolbox imported, never
    called: `C18_fresh`), so that the verdict — and every step of shrinking — depends on the case alone and
    not on what this process has done to module-level state of the library before; a replay therefore
    reproduces in a fresh interpreter."""
    global _FRESH
    if os.environ.get('C18_ORACLE_INPROCESS'):
        return oracle_here(case)
    if _FRESH is None:
        from engines import C18_fresh
        _FRESH = C18_fresh.Fresh()
    return _FRESH.oracle(case)


def oracle_here(case):
    if _is_session(case):
        return S.oracle(case)
    return _oracle_single(case)


def _oracle_single(case, objs=None):
    """direct transcription of the C18 statement on the real code (no Lean, no recording).  `objs` = the
    live objects of a reuse session: every call the oracle makes then uses those same objects; what is
    expected is computed from the case's own numbers."""
    n = case['n_cond'] if _design_only(case) else len(case['pts'])
    # make_design: every condition exactly once per partition
    if _design_only(case) or case['cond_mode'] == 'design':
        cv, pv = sim.make_design(n, case['n_part'])
        cv, pv = [float(x) for x in cv], [float(x) for x in pv]
        if len(cv) != n * case['n_part'] or len(pv) != len(cv):
            return _fail('make_design: wrong length', len(cv), n * case['n_part'], failure='design')
        for p in range(case['n_part']):
            for c in range(n):
                cnt = sum(1 for k in range(len(cv)) if cv[k] == c and pv[k] == p)
                if cnt != 1:
                    return _fail(f'make_design: condition {c} occurs {cnt} times in partition {p}',
                                 {'cond_vec': cv, 'part_vec': pv}, 'exactly once', failure='design')
    if _design_only(case):
        return None
    if case.get('bad'):
        return None     # rejections are not part of the property's statement
    try:
        dss, (model, theta, dvec, cond_vec) = _call(case, objs=objs)
        dss0, _ = _call(case, noise=0.0, objs=objs)
        dss1, _ = _call(case, noise=1.0, objs=objs)
        dssz, _ = _call(case, signal=0.0, objs=objs)
        pristine = _objects(case)
        cond_vec, theta = pristine['cond_vec'], pristine['theta']
    except (ValueError, TypeError, AssertionError, np.linalg.LinAlgError) as exc:
        if case['scc'] is not None and case['n_ch'] < n:
            return None     # outside the property (signal covariance, fewer channels than conditions)
        return _fail('make_dataset raised on a valid request', type(exc).__name__, 'datasets',
                     failure='exception')
    if len(dss) != case['n_sim']:
        return _fail('number of simulated datasets', len(dss), case['n_sim'], failure='count')
    # descriptors
    for k, ds in enumerate(dss):
        got = _canon_desc(ds.obs_descriptors.get('cond_vec'))
        if got != _canon_desc(cond_vec):
            return _fail(f'dataset {k}: obs descriptor cond_vec is not the condition vector passed',
                         got, _canon_desc(cond_vec), failure='descriptor')
        want = {'signal': float(case['signal']), 'noise': float(case['noise']), 'model': _model_name(case),
                'theta': _theta_list(theta)}
        for f, w in want.items():
            g = _theta_list(ds.descriptors.get(f)) if f == 'theta' else _canon_desc(ds.descriptors.get(f))
            if g != w:
                return _fail(f'dataset {k}: descriptor {f}', g, w, failure='descriptor')
    m = [np.asarray(ds.measurements, dtype=float) for ds in dss]
    m0 = [np.asarray(ds.measurements, dtype=float) for ds in dss0]
    m1 = [np.asarray(ds.measurements, dtype=float) for ds in dss1]
    mz = [np.asarray(ds.measurements, dtype=float) for ds in dssz]
    # additive noise scaling with sqrt(noise variance); noise term independent of the signal
    for k in range(len(m)):
        sc = max(1.0, float(np.max(np.abs(m1[k]))), float(np.max(np.abs(m[k]))))
        lhs = m[k] - m0[k]
        rhs = math.sqrt(case['noise']) * (m1[k] - m0[k])
        if not np.all(np.abs(lhs - rhs) <= 1e-8 * sc):
            return _fail(f'dataset {k}: data(noise) - data(0) != sqrt(noise) * (data(1) - data(0))',
                         float(np.max(np.abs(lhs - rhs))), 0.0, failure='noise_law')
        if not np.all(np.abs(lhs - mz[k]) <= 1e-8 * sc):
            return _fail(f'dataset {k}: noise term depends on the signal (not additive)',
                         float(np.max(np.abs(lhs - mz[k]))), 0.0, failure='noise_additive')
    # same signal reused / fresh signal drawn
    if case['n_sim'] >= 2:
        sc = max(1.0, float(np.max(np.abs(m0[0]))))
        if case['same']:
            for k in range(1, len(m0)):
                if not np.all(np.abs(m0[k] - m0[0]) <= 1e-9 * sc):
                    return _fail(f'use_same_signal: noise-free data of simulation {k} differ from simulation 0',
                                 float(np.max(np.abs(m0[k] - m0[0]))), 0.0, failure='same_signal')
        elif max(abs(float(v)) for v in dvec) > 0:
            # freshness is judged on the random (not orthonormalised) signal, which is an injective
            # function of the draw whenever the model RDM is not identically zero
            dssr, _ = _call(dict(case, exact=False), noise=0.0, objs=objs)
            mr = [np.asarray(ds.measurements, dtype=float) for ds in dssr]
            for k in range(1, len(mr)):
                if float(np.max(np.abs(mr[0]))) > 1e-9 and np.all(np.abs(mr[k] - mr[0]) <= 1e-12):
                    return _fail(f'default: simulation {k} reuses the signal of simulation 0',
                                 'identical noise-free data', 'a fresh signal', failure='fresh_signal')
            # round 7: ... and on the exact branch itself: the orthonormal frame comes from the simulation's
            # own draw block, so the noise-free data of two simulations differ (each still reproduces the RDM)
            if case['exact'] and _exact_fresh_judged(case) and float(np.max(np.abs(m0[0]))) > 1e-9:
                for k in range(1, len(m0)):
                    if np.all(np.abs(m0[k] - m0[0]) <= 1e-9 * sc):
                        return _fail(f'default (use_same_signal=False) with use_exact_signal: simulation {k} has '
                                     f'the signal of simulation 0 (no fresh exact signal is drawn)',
                                     'identical noise-free data', 'a fresh signal', failure='exact_fresh_signal',
                                     n_sim=case['n_sim'])
    # two calls under different numpy seeds: by default the signal is a function of the draws, so the
    # noise-free data of the first simulation differ (random branch: model RDM not identically zero; exact
    # branch: whenever the orthonormal frame has any freedom, see _exact_fresh_judged)
    if case.get('seed2') is not None and case['seed2'] != case['seed'] and not case['same'] and max(abs(float(v)) for v in dvec) > 0 \
            and (not case['exact'] or _exact_fresh_judged(case)) and float(np.max(np.abs(m0[0]))) > 1e-9:
        dss2, _ = _call(dict(case, seed=case['seed2']), noise=0.0, objs=objs)
        m2 = [np.asarray(ds.measurements, dtype=float) for ds in dss2]
        sc = max(1.0, float(np.max(np.abs(m0[0]))))
        if m2[0].shape == m0[0].shape and np.all(np.abs(m2[0] - m0[0]) <= 1e-9 * sc):
            return _fail(f"two calls under numpy seeds {case['seed']} and {case['seed2']} "
                         f"({'exact' if case['exact'] else 'random'} signal, use_same_signal=False) give the "
                         f'same signal: it does not depend on the random draws',
                         'identical noise-free data', 'a fresh signal',
                         failure='exact_fresh_signal' if case['exact'] else 'fresh_signal', two_seeds=True)
    # the loop through calc_rdm: every simulated dataset with a condition vector can be passed to
    # calc_rdm by condition; under the property's conditions the result is signal * model RDM
    labels = _labels_of(case)
    if labels is not None:
        want = [case['signal'] * float(v) for v in _expected_dvec(case)]
        rscale = max(max(abs(w) for w in want), 1e-12)
        for k, ds in enumerate(dss):
            if case['cond_mode'] == 'matrix':
                ds = rsatoolbox.data.Dataset(ds.measurements, descriptors=ds.descriptors,
                                             obs_descriptors={'cond_vec': np.array(labels)})
            try:
                viacalc = [float(x) for x in rsatoolbox.rdm.calc_rdm(
                    ds, method='euclidean', descriptor='cond_vec').get_vectors()[0]]
            except Exception as exc:  # noqa: BLE001  (any exception of calc_rdm is a finding, not an infrastructure error)
                return _fail(f'dataset {k}: calc_rdm(euclidean, by cond_vec) raises on the simulated dataset',
                             f'{type(exc).__name__}: {str(exc)[:80]}', 'an RDM', failure='calc_rdm_raises',
                             theta_len=None if theta is None else int(np.size(theta)))
            if not _claims_rdm(case):
                continue
            direct = _sq_rdm_by_condition(m[k].tolist(), labels, case['n_ch'])
            for name, got in (('direct', direct), ('calc_rdm', viacalc)):
                if len(got) != len(want) or any(not abs(g - w) <= TOL_EXACT * rscale for g, w in zip(got, want)):
                    return _fail(f'dataset {k}: squared-Euclidean RDM by condition ({name}) of exact-signal, '
                                 f'zero-noise data != signal * model RDM', got, want,
                                 failure='exact_rdm', model_degenerate=_degenerate(case),
                                 nch_eq_ncond=case['n_ch'] == n)
    # general design matrix (regressor heights, rest rows, compound rows): with the exact signal and zero
    # noise the data rows are sqrt(signal) * Z U, so  data data^T / n_channel = signal * Z G Z^T  and the
    # squared distances between rows (mean over channels) are  signal * (z_o - z_p)^T G (z_o - z_p)
    if _claims_general(case):
        zf = sorted(_zfeatures(case['zmat']))
        z = [[F(x) for x in r] for r in case['zmat']]
        g = _gram_exact(_expected_dvec(case), n)
        sig = F(case['signal'])
        n_obs = len(z)
        gz = [[sum(g[a][b] * z[p][b] for b in range(n)) for p in range(n_obs)] for a in range(n)]
        zgz = [[sig * sum(z[o][a] * gz[a][p] for a in range(n)) for p in range(n_obs)] for o in range(n_obs)]
        scale = max([abs(float(x)) for r in zgz for x in r] + [1e-12])
        want_d = [float(zgz[o][o] + zgz[p][p] - 2 * zgz[o][p]) for o in range(n_obs) for p in range(o + 1, n_obs)]
        for k, ds in enumerate(dss):
            x = m[k]
            if x.shape != (n_obs, case['n_ch']):
                return _fail(f'dataset {k}: shape of the measurements', list(x.shape), [n_obs, case['n_ch']],
                             failure='shape')
            sm = [[sum(float(x[o][c]) * float(x[p][c]) for c in range(case['n_ch'])) / case['n_ch']
                   for p in range(n_obs)] for o in range(n_obs)]
            for o in range(n_obs):
                for p_ in range(n_obs):
                    if not abs(sm[o][p_] - float(zgz[o][p_])) <= TOL_EXACT * scale:
                        return _fail(f'dataset {k}: second moment of exact-signal, zero-noise data of a general '
                                     f'design matrix, entry ({o},{p_}): data data^T / n_channel != signal * Z G Z^T',
                                     sm[o][p_], float(zgz[o][p_]), failure='general_second_moment',
                                     zfeatures=zf)
            direct = [sum((float(x[o][c]) - float(x[p_][c])) ** 2 for c in range(case['n_ch'])) / case['n_ch']
                      for o in range(n_obs) for p_ in range(o + 1, n_obs)]
            try:
                viacalc = [float(v) for v in rsatoolbox.rdm.calc_rdm(
                    _row_ds(ds), method='euclidean', descriptor='row').get_vectors()[0]]
            except Exception as exc:  # noqa: BLE001  (any exception of calc_rdm is a finding, not an infrastructure error)
                return _fail(f'dataset {k}: calc_rdm(euclidean, one pattern per observation) raises',
                             f'{type(exc).__name__}: {str(exc)[:80]}', 'an RDM', failure='calc_rdm_raises',
                             theta_len=None if theta is None else int(np.size(theta)))
            for name, got in (('direct', direct), ('calc_rdm', viacalc)):
                if len(got) != len(want_d) or any(not abs(a - b) <= 4 * TOL_EXACT * scale
                                                  for a, b in zip(got, want_d)):
                    return _fail(f'dataset {k}: squared-Euclidean RDM between the observations ({name}) of '
                                 f'exact-signal, zero-noise data of a general design matrix != '
                                 f'signal * (z_o - z_p)^T G (z_o - z_p)', got, want_d,
                                 failure='general_rdm', zfeatures=zf)
    return None


def _exact_fresh_judged(case):
    """whether two exact signals made from different draw blocks necessarily differ (with probability one).
    The exact signal is  chol_G @ W  with W = sqrt(w) * Q^T, Q the orthonormal factor of the centred
    n_cond x w draw (w = max(n_channel, n_cond)); only the rows of W that belong to positive eigenvalues of G
    enter (the last r rows, r = rank).  The centred rows span a (w-1)-dimensional space, so for w > n_cond
    every row of W is a continuous random unit vector (w - 1 >= 2).  For w = n_cond the LAST row of W is
    forced to +-ones (the only direction left), the row before it is continuous as soon as n_cond >= 3: the
    signal is then a continuous function of the draw iff G has at least two positive eigenvalues.  (With
    n_cond = n_channel = 2, or a rank-1 model RDM with n_channel <= n_cond, the correct code legitimately
    returns one of two frames — not judged.)"""
    if case.get('bad'):
        return False
    n = len(case['pts'])
    dvec = [float(v) for v in _expected_dvec(case)]
    if not dvec or max(abs(v) for v in dvec) == 0:
        return False
    if case['n_ch'] > n:
        return n >= 2
    if n < 3:
        return False
    g = np.array([[float(x) for x in r] for r in _gram_exact(dvec, n)])
    ev = np.linalg.eigvalsh(g)
    return int(np.sum(ev > 1e-9 * max(float(np.max(np.abs(ev))), 1e-300))) >= 2


def _gram_exact(dvec, n):
    """G = -1/2 H D H in exact rational arithmetic (plain loops) from the condensed model RDM"""
    d = [[F(0)] * n for _ in range(n)]
    it = iter(dvec)
    for i in range(n):
        for j in range(i + 1, n):
            d[i][j] = d[j][i] = F(next(it))
    h = [[(F(1) if i == j else F(0)) - F(1, n) for j in range(n)] for i in range(n)]
    hd = [[sum(h[i][k] * d[k][j] for k in range(n)) for j in range(n)] for i in range(n)]
    return [[F(-1, 2) * sum(hd[i][k] * h[k][j] for k in range(n)) for j in range(n)] for i in range(n)]


# ------------------------------------------------------------------ shrinking

def shrink(case, still_fails):
    if _is_session(case):
        return S.shrink(case, still_fails)
    if _design_only(case):
        return case
    cur = dict(case)

    def attempt(c):
        nonlocal cur
        try:
            if still_fails(c):
                cur = c
                return True
        except Exception:  # noqa: BLE001
            pass
        return False
    if cur.get('seed2') is not None:
        attempt({k: v for k, v in cur.items() if k != 'seed2'})
    if cur.get('n_sim', 1) > 2:
        attempt(dict(cur, n_sim=2))
    for upd in ({'n_sim': 1}, {'n_part': 1}, {'ncc': None}, {'nct': None}, {'same': False},
                {'signal': 1.0}, {'seed': 0}):
        if any(cur.get(k) != v for k, v in upd.items()):
            attempt(dict(cur, **upd))
    if 'pts2' in cur:
        c = dict({k: v for k, v in cur.items() if k not in ('pts2', 'theta')}, mk='fixed_vec')
        attempt(c)
    for upd in ({'zlayout': 'C'}, {'argform': 'float'}):
        if upd.items() <= cur.items() or list(upd)[0] not in cur:
            continue
        attempt(dict(cur, **upd))
    if cur['cond_mode'] in ('labels', 'matrix'):
        attempt(dict({k: v for k, v in cur.items() if k != 'labels'}, cond_mode='design'))
    if cur['cond_mode'] == 'general' and cur['nct'] is None:
        # fewer rows, then simpler entries
        changed = True
        while changed and len(cur['zmat']) > 2:
            changed = False
            for i in range(len(cur['zmat'])):
                if attempt(dict(cur, zmat=cur['zmat'][:i] + cur['zmat'][i + 1:])):
                    changed = True
                    break
        for i in range(len(cur['zmat'])):
            for j in range(len(cur['zmat'][i])):
                for v in ((0.0,) if cur['zmat'][i][j] in (0.0, 1.0) else (0.0, 1.0)):
                    if cur['zmat'][i][j] != v:
                        zm = [list(r) for r in cur['zmat']]
                        zm[i][j] = v
                        if attempt(dict(cur, zmat=zm)):
                            break
    # fewer conditions (design mode only, channels follow)
    changed = True
    while changed and cur['cond_mode'] == 'design' and cur['ncc'] is None and cur['nct'] is None \
            and cur['scc'] is None:
        changed = False
        n = len(cur['pts'])
        if n <= 2:
            break
        for i in range(n):
            c = dict(cur, pts=cur['pts'][:i] + cur['pts'][i + 1:],
                     n_ch=max(1, cur['n_ch'] - 1))
            if 'pts2' in cur:
                c['pts2'] = cur['pts2'][:i] + cur['pts2'][i + 1:]
            if attempt(c):
                changed = True
                break
    # smaller coordinates
    for i in range(len(cur['pts'])):
        for j in range(len(cur['pts'][i])):
            for v in (0, 1):
                if cur['pts'][i][j] != v:
                    pts = [list(p) for p in cur['pts']]
                    pts[i][j] = v
                    if attempt(dict(cur, pts=pts)):
                        break
    return cur


from engines import C18_session as S  # noqa: E402  (needs the definitions above)
