"""C04 engine library, part 3: case generator, shrinker, features."""
import copy
import itertools

import engines.C04_lib as L

METHODS = ['cosine', 'corr', 'spearman', 'rho-a', 'tau-a']
STR_GROUPS = ['s01', 's02', 's10', 'a', 'B', 'zz', 'é1', 'sub-3']


def tri(n):
    return n * (n - 1) // 2


def rand_vec(rng, n, base=None):
    """integer dissimilarities (k/8 after scaling), loosely correlated with `base`"""
    if base is None:
        return [rng.randint(1, 40) for _ in range(tri(n))]
    return [max(1, b + rng.randint(-6, 6)) for b in base]


def groups(rng, n, grouped, strs, style=None, few=None):
    """None (default index) or one group label per item; `style`: value domain of the labels
    (ints non-contiguous / negative, strs, half-integer floats, bools); `few`: number of groups"""
    if not grouped:
        return None
    k = rng.randint(max(2, (n + 1) // 2), n) if n > 2 else n
    if few is not None:
        k = min(few, n)
    if style == 'bool':
        k = min(k, 2)
    labels = [rng.randrange(k) for _ in range(n)]
    for g in range(k):                       # every label used at least once when possible
        if g < n and g not in labels:
            labels[g] = g
    if strs or style == 'str':
        names = rng.sample(STR_GROUPS, min(len(STR_GROUPS), k)) + [f'g{i}' for i in range(k)]
        return [names[g] for g in labels]
    if style == 'float':
        return [g * 0.5 - 1.0 for g in labels]     # -1.0, -0.5, 0.0, 0.5, 1.0, ...: exact binary
                                                   # fractions that collide when truncated to int
    if style == 'neg':
        return [7 - 4 * g for g in labels]         # descending, negative values: order of np.unique matters
    if style == 'bool':
        return [bool(g) for g in labels]
    return [g * 3 + 1 for g in labels]       # non-contiguous ints


def make_models(rng, n, base, kinds):
    out = []
    for kind in kinds:
        nv = 1 if kind == 'fixed' else (rng.randint(2, 3))
        vecs = [rand_vec(rng, n, base if rng.random() < 0.7 else None) for _ in range(nv)]
        if kind == 'interpolate':
            vecs = vecs[:2] if len(vecs) >= 2 else vecs + [rand_vec(rng, n)]
        out.append({'type': kind, 'vecs': vecs})
    return out


def given_theta(rng, models):
    th = []
    for m in models:
        if m['type'] == 'fixed':
            th.append(None)
        elif m['type'] == 'select':
            th.append(rng.randrange(len(m['vecs'])))
        elif m['type'] == 'weighted':
            th.append([rng.randint(1, 8) / 4 for _ in m['vecs']])
        else:
            w = rng.randint(0, 4) / 4
            th.append([w, 1 - w])
    return th


def need_theta(c):
    """select / interpolate models have no usable `theta=None`"""
    return any(m['type'] in ('select', 'interpolate') for m in c['models'])


DESC_STYLES = [None, None, 'float', 'neg', 'str', 'bool']
DESC_FORMS = ['list', 'list', 'array', 'int64', 'float', 'tuple']


def base_case(rng, routine, n_rdm, n_cond, kinds, grouped_r=False, grouped_p=False, strs=False):
    base = rand_vec(rng, n_cond)
    rstyle = rng.choice(DESC_STYLES)
    pstyle = rng.choice([x for x in DESC_STYLES if x != 'bool'])
    c = {'routine': routine, 'n_cond': n_cond,
         'vecs': [rand_vec(rng, n_cond, base) for _ in range(n_rdm)],
         'rdm_groups': groups(rng, n_rdm, grouped_r, strs, rstyle),
         'pat_groups': groups(rng, n_cond, grouped_p, strs and rng.random() < 0.5, pstyle),
         'models': make_models(rng, n_cond, base, kinds),
         'method': rng.choice(METHODS), 'seed': rng.randrange(10 ** 6)}
    form = rng.choice(DESC_FORMS)
    if form != 'list':
        c['desc_form'] = form
    return c


def pick_kinds(rng, fitted):
    pool = ['fixed', 'weighted', 'select', 'interpolate']
    k = rng.choice([1, 2, 2, 3, 3, 3, 4, 5])
    kinds = [rng.choice(pool) for _ in range(k)]
    return kinds


def gen_one(rng, routine, small=False, force=None):
    gr, gp = rng.random() < 0.45, rng.random() < 0.45
    strs = rng.random() < 0.3
    if routine == 'fixed':
        c = base_case(rng, routine, rng.choice([1, 2, 3, 5, 7]), rng.randint(4, 8), pick_kinds(rng, False),
                      gr, gp, strs)
        c['theta'] = given_theta(rng, c['models']) if need_theta(c) or rng.random() < 0.7 else None
        return c
    if routine == 'bootstrap':
        c = base_case(rng, routine, rng.randint(2, 7), rng.randint(3, 8), pick_kinds(rng, False),
                      gr, gp, strs)
        c.update(bt=rng.choice(['both', 'rdm', 'pattern']),
                 N=rng.choice([2, 2, 3]) if small else rng.choice([2, 3, 4, 5, 6, 8, 12]),
                 boot_nc=rng.random() < 0.6)
        if force == 'few' and c['bt'] == 'rdm':
            c['bt'] = rng.choice(['both', 'pattern'])
        if c['bt'] != 'rdm' and (rng.random() < 0.2 or force == 'few'):
            # three condition groups only: most resamples are too small, often fewer than two usable
            c['pat_groups'] = groups(rng, c['n_cond'], True, False, rng.choice([None, 'float', 'str']), few=3)
            c['N'] = rng.choice([2, 2, 3])
        c['theta'] = given_theta(rng, c['models']) if need_theta(c) or rng.random() < 0.7 else None
        return c
    if routine == 'crossval':
        kind = rng.choice(['k_fold', 'k_fold', 'k_fold_pattern', 'k_fold_rdm', 'loo_rdm', 'loo_pattern',
                           'hand'])
        if force in ('reject', 'nonrandom'):
            kind = rng.choice(['k_fold', 'k_fold_pattern', 'k_fold_rdm'])
        if force == 'noceil':
            kind = 'k_fold_pattern'
        plan = CV_PLANS.get(force)            # round 5: (generator, ceil_set given?, which axes are split)
        if plan:
            kind = plan[0]
        if kind in ('k_fold_rdm', 'loo_rdm'):
            gp = False                        # these generators advertise positions (`index`)
        if plan and 'p' in plan[2] and kind in ('k_fold', 'hand', 'k_fold_pattern'):
            gp = False                        # enough condition groups for two usable pattern folds
        c = base_case(rng, routine, rng.randint(3, 7), rng.randint(6, 10), pick_kinds(rng, True),
                      gr, gp, strs)
        if kind == 'loo_pattern':             # only sensible with larger groups of conditions
            c['n_cond'] = 9
            base = rand_vec(rng, 9)
            c['vecs'] = [rand_vec(rng, 9, base) for _ in c['vecs']]
            for m in c['models']:
                m['vecs'] = [rand_vec(rng, 9, base) for _ in m['vecs']]
            lab = [0, 0, 0, 1, 1, 1, 2, 2, 2]
            rng.shuffle(lab)
            c['pat_groups'] = [['p', 'q', 'r'][g] for g in lab] if strs else [5 * g + 2 for g in lab]
        ctx = L.Ctx(c)
        nr, npat = len(set(ctx.rdesc)), len(set(ctx.pdesc))
        g = {'kind': kind}
        if kind in ('k_fold', 'k_fold_rdm'):
            g['kr'] = rng.randint(1 if kind == 'k_fold' else 2, max(2, min(3, nr)))
            g['random'] = rng.random() < 0.7
        if kind in ('k_fold', 'k_fold_pattern'):
            g['kp'] = rng.randint(1, max(1, min(3, npat // 2)))
            g['random'] = rng.random() < 0.7
        if plan and kind == 'k_fold':
            g['kr'] = rng.randint(2, max(2, min(3, nr))) if 'r' in plan[2] else 1
            g['kp'] = (2 if npat >= 6 else 1) if 'p' in plan[2] else 1
        if plan and kind == 'k_fold_pattern':
            g['kp'] = 2
        if kind == 'hand':
            g.update(hand_folds(rng, ctx.n_rdm, npat, plan[2] if plan else rng.choice(['r', 'p', 'rp', 'odd'])))
        if force == 'nonrandom' and 'random' in g:
            g['random'] = False
        if kind in ('k_fold', 'k_fold_pattern', 'k_fold_rdm') and (rng.random() < 0.12 or force == 'reject'):
            which = rng.choice([k for k in ('kr', 'kp') if k in g])
            g[which] = (nr if which == 'kr' else npat) + rng.randint(1, 2)   # refused by the generator
        c['gen'] = g
        c['calc_nc'] = rng.random() < 0.85 or bool(plan)
        if 'kp' in g and npat // g['kp'] < 3:
            c['calc_nc'] = False              # folds of < 3 conditions are NaN; their ceiling is undefined
        # round 5: the public default `ceil_set=None` on the folds of EVERY generator and of hand-built
        # splits (sets_k_fold_pattern returns no ceil set anyway)
        if plan:
            if not plan[1]:
                c['ceil'] = 'omit'
        elif rng.random() < 0.45:
            c['ceil'] = 'omit'
        form = rng.random()
        if form < 0.12 or force == 'omit:nonbool':
            c['calc_nc_form'] = rng.choice(['int', 'np'])
        c['fitter'] = rng.choice(['default', 'default', 'regress'])
        if c['fitter'] == 'regress' and c['method'] not in ('cosine', 'corr'):
            c['method'] = rng.choice(['cosine', 'corr'])
        return c
    if routine in ('bcv', 'dual', 'random', 'testset'):
        c = base_case(rng, routine, rng.randint(3, 7), rng.randint(7, 12), pick_kinds(rng, True),
                      gr, gp and rng.random() < 0.5, strs)
        c['bt'] = 'both' if routine == 'dual' else rng.choice(['both', 'rdm', 'pattern'])
        if routine == 'testset' and c['bt'] == 'rdm':
            c['pat_groups'] = None            # bootstrap_testset_rdm always uses `index`
        c['N'] = rng.randint(2, 3 if small else 6)
        c['fitter'] = rng.choice(['default', 'default', 'regress'])
        if any(m['type'] == 'weighted' for m in c['models']) and c['fitter'] == 'default' \
                and rng.random() < 0.85:
            c['fitter'] = 'regress'           # fit_optimize (BFGS restarts) only occasionally: slow
        if c['fitter'] == 'regress' and c['method'] not in ('cosine', 'corr'):
            c['method'] = rng.choice(['cosine', 'corr'])
        if routine in ('bcv', 'dual'):
            c.update(kr=rng.choice([1, 1, 2, 2, 3, None]), kp=rng.choice([1, 1, 2, 2, None]),
                     n_cv=rng.choice([1, 2, 2, 3]), use_correction=rng.random() < 0.6)
            if c['use_correction'] and c['n_cv'] == 1 and rng.random() < 0.8:
                c['n_cv'] = 2
            if force == 'default':
                c[rng.choice(['kr', 'kp'])] = None
            if force == 'optimize':
                c['models'][0]['type'] = 'weighted'
                c['models'][0]['vecs'] = (c['models'][0]['vecs'] * 2)[:2]
                c['fitter'] = 'default'
                c['N'] = 2
        if routine == 'random':
            c.update(nr=rng.choice([0, 1, 1, 2, None]), np=rng.choice([0, 3, 3, 4, None]),
                     n_cv=rng.choice([1, 2, 2, 3]), use_correction=rng.random() < 0.6)
            if c['use_correction'] and c['n_cv'] == 1 and rng.random() < 0.8:
                c['n_cv'] = 2
            if force == 'default':
                c[rng.choice(['nr', 'np'])] = None
        return c
    raise ValueError(routine)


# round 5: forced classes of direct `crossval` calls: generator, `ceil_set` handed over?, split axes
CV_PLANS = {
    'omit:k_fold:rp': ('k_fold', False, 'rp'), 'omit:k_fold:r': ('k_fold', False, 'r'),
    'omit:k_fold:p': ('k_fold', False, 'p'), 'omit:k_fold_rdm': ('k_fold_rdm', False, 'r'),
    'omit:loo_rdm': ('loo_rdm', False, 'r'), 'omit:loo_pattern': ('loo_pattern', False, 'p'),
    'omit:k_fold_pattern': ('k_fold_pattern', False, 'p'),
    'omit:hand:r': ('hand', False, 'r'), 'omit:hand:rp': ('hand', False, 'rp'),
    'omit:hand:p': ('hand', False, 'p'), 'omit:hand:odd': ('hand', False, 'odd'),
    'omit:nonbool': ('k_fold_rdm', False, 'r'),
    'given:hand:r': ('hand', True, 'r'), 'given:hand:rp': ('hand', True, 'rp'),
    'given:hand:p': ('hand', True, 'p'), 'given:k_fold:rp': ('k_fold', True, 'rp'),
    'given:k_fold_rdm': ('k_fold_rdm', True, 'r'), 'given:loo_rdm': ('loo_rdm', True, 'r'), 'given:loo_pattern': ('loo_pattern', True, 'p'),
}
_HAND_FORM = [0]


def hand_folds(rng, n_rdm, npat, style):
    """hand-built train / test splits as position lists: `r` RDM positions split into 2-3 chunks
    (not aligned with the RDM groups), `p` the condition groups split in two halves, `rp` both,
    `odd` shapes no generator makes: one single fold, test RDMs overlapping the training RDMs, a
    test set of one RDM, unsorted test groups"""
    rows = list(range(n_rdm))
    rng.shuffle(rows)
    pg = list(range(npat))
    rng.shuffle(pg)
    _HAND_FORM[0] += 1
    out = {'idx_form': ['list', 'tuple', 'array'][_HAND_FORM[0] % 3]}
    if npat >= 6 and style in ('p', 'rp', 'odd'):
        h = rng.randint(3, npat - 3)
        psplits = [(sorted(pg[h:]), sorted(pg[:h])), (sorted(pg[:h]), sorted(pg[h:]))]
    else:
        psplits = [(sorted(pg), sorted(pg))]
    if style in ('r', 'rp') and n_rdm >= 2:
        k = rng.randint(2, min(3, n_rdm))
        chunks = [rows[i::k] for i in range(k)]
        rsplits = [([r for r in rows if r not in ch], ch) for ch in chunks]
    else:
        rsplits = [(rows, rows)]
    folds = [{'tr': sorted(tr), 'trp': trp, 'te': sorted(te), 'tep': tep}
             for tr, te in rsplits for trp, tep in psplits]
    if style == 'odd':
        trp, tep = psplits[0]
        tep = list(tep)
        rng.shuffle(tep)                      # unsorted test groups
        one = rows[:1] if rng.random() < 0.5 else rows[:max(1, n_rdm // 2)]
        folds = [{'tr': sorted(rows), 'trp': trp, 'te': sorted(one), 'tep': tep}]   # overlap, one fold
        if rng.random() < 0.5 and n_rdm >= 3:
            folds.append({'tr': sorted(rows[1:]), 'trp': trp, 'te': sorted(rows[:2]), 'tep': sorted(tep)})
    out['folds'] = folds
    return out


def cv_split(case, ctx):
    """which axes the test sets of a crossval case are proper parts of: 'r', 'p', 'rp' or ''"""
    g = case['gen']
    kind = g['kind']
    nr, npat = len(set(ctx.rdesc)), len(set(ctx.pdesc))
    r = p = False
    if kind == 'k_fold':
        r, p = g['kr'] >= 2, g['kp'] >= 2
    elif kind == 'k_fold_rdm':
        r = g['kr'] >= 2
    elif kind == 'loo_rdm':
        r = nr >= 2
    elif kind == 'k_fold_pattern':
        p = g['kp'] >= 2
    elif kind == 'loo_pattern':
        p = npat >= 2
    elif kind == 'hand':
        r = any(len(f['te']) < ctx.n_rdm for f in g['folds'])
        p = any(len(set(f['tep'])) < npat for f in g['folds'])
    return ('r' if r else '') + ('p' if p else '')


ROUTINES = ['fixed', 'bootstrap', 'bootstrap', 'crossval', 'bcv', 'bcv', 'dual', 'random', 'testset']


def generate(rng, tier):
    if tier == 'search':
        from engines import C04_session
        sess = C04_session.generate(rng, 'search')
        for k in range(100000):
            # every third search case is a reuse session (state that survives a call)
            yield next(sess) if k % 3 == 2 else gen_one(rng, rng.choice(ROUTINES), small=True)
        return
    n = {'quick': 36, 'thorough': 400}.get(tier, 36)
    forced = {('bootstrap', 0): 'few', ('crossval', 1): 'reject', ('crossval', 2): 'nonrandom',
              ('crossval', 3): 'noceil', ('bcv', 0): 'default', ('bcv', 3): 'optimize',
              ('dual', 2): 'default', ('random', 1): 'default'}
    for rep in range(n):
        for slot, routine in enumerate(ROUTINES):
            # every 6th repetition forces the rarer option classes (so the required branch tags
            # do not depend on luck); duplicates of a routine in ROUTINES take turns
            yield gen_one(rng, routine, force=forced.get((routine, (rep + slot) % 6)))
    # round 5: direct `crossval` calls with / without `ceil_set` on the folds of every generator and on
    # hand-built splits, every class on a fixed schedule
    for rep in range({'quick': 2, 'thorough': 14}.get(tier, 2)):
        for name in CV_PLANS:
            yield gen_one(rng, 'crossval', force=name)
    # a stack with a single RDM and one with a single RDM group
    c = gen_one(rng, 'fixed')
    c['vecs'] = c['vecs'][:1]
    c['rdm_groups'] = None if c['rdm_groups'] is None else c['rdm_groups'][:1]
    yield c
    from engines import C04_session
    yield from C04_session.generate(rng, tier)          # round 4: reuse sessions
    if tier == 'thorough':
        yield from exhaustive_small(rng)


def exhaustive_small(rng):
    """every draw outcome of a 2-RDM x 4-condition bootstrap (4 x 256), injected"""
    c = base_case(rng, 'bootstrap', 2, 4, ['fixed', 'select'])
    c.update(bt='both', N=2, boot_nc=True, theta=[None, 1], rdm_groups=None, pat_groups=None)
    for r in itertools.product(range(2), repeat=2):
        for p in itertools.product(range(4), repeat=4):
            d = copy.deepcopy(c)
            # first resample scripted, second one always the identity draw (N = 1 is not a
            # supported call: the routines then allocate a 1-D evaluations array)
            d['script'] = [['randint', list(r)], ['randint', list(p)],
                           ['randint', [0, 1]], ['randint', [0, 1, 2, 3]]]
            yield d


# ------------------------------------------------------------------ features

def features(case, impl, obs=None):
    if case.get('session'):
        from engines import C04_session
        return C04_session.features(case, impl)
    ctx = L.Ctx(case)
    br = ['routine:' + case['routine']]
    if 'bt' in case:
        br.append('bt:' + case['bt'])
    if case.get('rdm_groups') is not None and len(set(ctx.rdesc)) < ctx.n_rdm:
        br.append('grouped:rdm')
    if case.get('pat_groups') is not None and len(set(ctx.pdesc)) < ctx.n_cond:
        br.append('grouped:pattern')
    allv = (case.get('rdm_groups') or []) + (case.get('pat_groups') or [])
    if any(isinstance(v, str) for v in allv):
        br.append('desc:str')
    if any(isinstance(v, float) for v in allv):
        br.append('desc:float')
    for vals in (case.get('rdm_groups'), case.get('pat_groups')):
        if vals and any(isinstance(v, float) for v in vals) \
                and len({int(v) for v in vals}) < len(set(vals)):
            br.append('desc:float-collide-int')
    if any(isinstance(v, bool) for v in allv):
        br.append('desc:bool')
    if any(isinstance(v, int) and not isinstance(v, bool) and v < 0 for v in allv):
        br.append('desc:negative')
    if allv and case.get('desc_form', 'list') != 'list':
        br.append('desc:' + case['desc_form'])
    if len(case['models']) >= 4:
        br.append('models:4+')
    if len({m['type'] for m in case['models']}) >= 3:
        br.append('models:mixed3')
    if case.get('N', 0) >= 8:
        br.append('N:large')
    if case.get('N', 9) == 2:
        br.append('N:2')
    if case['routine'] in ('bcv', 'dual') and (case.get('kr') is None or case.get('kp') is None):
        br.append('k:default')
    if case['routine'] == 'random' and (case.get('nr') is None or case.get('np') is None):
        br.append('n:default')
    if case['routine'] == 'crossval' and not case['gen'].get('random', True):
        br.append('cv:nonrandom')
    for m in case['models']:
        br.append('model:' + m['type'])
    if case.get('theta') is not None:
        br.append('theta:given')
    if case['routine'] not in ('fixed', 'bootstrap'):
        br.append('fitter:' + ('regress' if case.get('fitter') == 'regress' else 'default'))
    if 'boot_nc' in case:
        br.append('boot_nc:' + ('true' if case['boot_nc'] else 'false'))
    if 'use_correction' in case:
        br.append('correction:' + ('on' if case['use_correction'] and case['n_cv'] > 1 else 'off'))
    if 'kr' in case:
        e = L.eff(case)
        br.append('k:1' if e['kr'] == 1 and e['kp'] == 1 else 'k:2+')
    if case['routine'] == 'crossval':
        br.append('cv:ceil' if L.ceil_given(case) else 'cv:noceil')
    br.append('method:' + case['method'])
    if ctx.n_rdm == 1:
        br.append('single_rdm')
    f = {'routine': case['routine'], 'bt': case.get('bt'), 'method': case['method'],
         'n_rdm': ctx.n_rdm, 'n_cond': ctx.n_cond, 'n_models': len(case['models']),
         'n_cv': case.get('n_cv'), 'use_correction': case.get('use_correction'),
         'grouped_rdm': 'grouped:rdm' in br, 'grouped_pattern': 'grouped:pattern' in br}
    if isinstance(impl, dict):
        if impl.get('exc') == 'AssertionError' and case['routine'] == 'crossval':
            br.append('sets:rejected')
        if 'exc' not in impl and 'evals' in impl and case['routine'] in ('bootstrap', 'bcv', 'random', 'dual'):
            usable = sum(1 for row in impl['evals'] if next(_flat(row), None) is not None)
            if usable < 2:
                br.append('cov:undefined')
        o = obs if obs is not None else L.observe(case)
        kinds = {f_['opt']['kind'] for f_ in o.get('fits', []) if f_.get('opt')}
        for k_ in kinds:
            br.append('fitcheck:' + k_)
        if case['routine'] == 'crossval' and 'exc' not in impl and case.get('calc_nc', True) \
                and any(x is not None for x in _flat(impl.get('nc'))):
            # round 5: a ceiling was computed and stored: which path, on which kind of folds
            how = 'ceil_set' if L.ceil_given(case) else 'no_ceil_set'
            split = {'rp': 'both_split', 'r': 'rdm_split', 'p': 'pattern_only', '': 'no_split'}[cv_split(case, ctx)]
            kind = case['gen']['kind']
            br += [f'crossval:{how}:{split}', f'crossval:{how}:gen:{kind}']
            if kind == 'hand':
                br.append('crossval:hand:idx:' + case['gen'].get('idx_form', 'list'))
                if any(set(f_['tr']) & set(f_['te']) for f_ in case['gen']['folds']) and 'r' in cv_split(case, ctx):
                    br.append('crossval:hand:overlap')
            if case.get('calc_nc_form'):
                br.append('crossval:calc_nc:nonbool')
        if 'exc' in impl:
            f['exc'] = impl['exc']
        elif 'evals' in impl:
            flat = list(_flat(impl['evals']))
            if any(x is None for x in flat):
                br.append('nan_sample')
            if any(x is not None for x in flat):
                br.append('ok_sample')
    f['branches'] = sorted(set(br))
    return f


def _flat(x):
    if isinstance(x, list):
        for y in x:
            yield from _flat(y)
    else:
        yield x


# ------------------------------------------------------------------ shrinking

_SHRUNK = [0, 0]


def shrink(case, still_fails):
    """fewer samples, fewer models, fewer RDMs, no grouping, simpler method
    (only the first few failing cases of a run are shrunk: a broken tree fails on many)"""
    cur = copy.deepcopy(case)
    if case.get('session'):
        _SHRUNK[1] += 1
        if _SHRUNK[1] > 3:
            return cur
        from engines import C04_session
        return C04_session.shrink(case, still_fails)
    _SHRUNK[0] += 1
    if _SHRUNK[0] > 4:
        return cur

    def kind_of(c):
        o = L.oracle(c)
        return None if not o else o['what']

    want = kind_of(cur)

    def attempt(c):
        nonlocal cur
        try:
            if want is not None and kind_of(c) == want:     # same failure, not just any failure
                cur = c
                return True
        except Exception:  # noqa: BLE001
            pass
        return False

    for _ in range(2):
        if 'N' in cur and cur['N'] > 2:       # N = 1 changes the shape conventions of the routines
            for n in (2, 3):
                if n < cur['N']:
                    c = copy.deepcopy(cur)
                    c['N'] = n
                    if attempt(c):
                        break
        while len(cur['models']) > 1:
            ok = False
            for k in range(len(cur['models'])):
                c = copy.deepcopy(cur)
                del c['models'][k]
                if c.get('theta') is not None:
                    del c['theta'][k]
                if attempt(c):
                    ok = True
                    break
            if not ok:
                break
        while len(cur['vecs']) > 2:
            c = copy.deepcopy(cur)
            c['vecs'].pop()
            if c.get('rdm_groups') is not None:
                c['rdm_groups'].pop()
            if c.get('gen', {}).get('kind') == 'hand':
                for f_ in c['gen']['folds']:
                    f_['tr'] = [r for r in f_['tr'] if r < len(c['vecs'])]
                    f_['te'] = [r for r in f_['te'] if r < len(c['vecs'])]
                if any(not f_['tr'] or not f_['te'] for f_ in c['gen']['folds']):
                    break
            if not attempt(c):
                break
        while cur.get('gen', {}).get('kind') == 'hand' and len(cur['gen']['folds']) > 1:
            ok = False
            for k in range(len(cur['gen']['folds'])):
                c = copy.deepcopy(cur)
                del c['gen']['folds'][k]
                if attempt(c):
                    ok = True
                    break
            if not ok:
                break
        for k in ('rdm_groups', 'pat_groups'):
            if cur.get(k) is not None and cur.get('gen', {}).get('kind') != 'hand':
                c = copy.deepcopy(cur)
                c[k] = None
                attempt(c)
        if cur['method'] != 'cosine':
            c = copy.deepcopy(cur)
            c['method'] = 'cosine'
            attempt(c)
        if cur.get('fitter') not in (None, 'default'):
            c = copy.deepcopy(cur)
            c['fitter'] = 'default'
            attempt(c)
    return cur
