"""C07 — upper noise ceiling is unbeatable; lower is leave-one-out and not above it.

Engine interface (see harness/run_check.py):
  THEOREMS, LEVEL, RULE, BRANCHES, generate, run_impl, model_requests, model_result,
  compare, oracle, features, nontrivial_key, search, shrink

Case kinds
  boot   inference.boot_noise_ceiling + util.inference_util.pool_rdm (+ util.pooling.pool_rdm) on a
         stack of RDMs with a grouping rdm descriptor; candidates and an invariance transform
         travel with the case for the oracle
  cv     inference.cv_noise_ceiling on explicit (ceil_set, test_set) structures built the way the
         generators of crossvalsets.py build them (subsample by rdm descriptor values,
         subset_pattern by pattern descriptor values)
  nonzero / poolonly  the `_nonzero` guard on raw norms; pool_rdm for the methods outside the property
  cvgen  the same on the sets a real generator of crossvalsets.py returns under a numpy seed
         (the structure handed to the model is read back from the returned objects)
  session  (round 4) ONE RDMs object analysed by 2-4 successive calls (both ceilings, both pool_rdm, eval_fixed)
         with different methods, in both orders; every call compared with the model (op c07.session, which threads
         the state through `runSessionG`/`callEffect`) and judged — in a pristine process, C07_fresh.py — against
         the pristine data; the object must hold the pristine data after every call
The model side is the Lean driver (ops c07.boot / c07.cv / c07.session), the oracle an independent
plain-python transcription of the property (C07_oracle.py) applied to the real code's output.
"""
import math

import numpy as np

from lean import fbits, unfbits, first_diff, close
from engines import C07_oracle as O
from engines.C07_fresh import Fresh

_FRESH = Fresh()

PROPERTY = 'C07'
LEVEL = 'proof'
P = 'Rsa.Props.C07.'
THEOREMS = [P + n for n in (
    'mean_sim_eq_sim_to_pool', 'cosine_pool_optimal', 'corr_pool_optimal', 'rhoa_pool_optimal',
    'singleton_groups_spec', 'upper_attained', 'upper_unbeatable_cosine', 'upper_unbeatable_corr',
    'upper_unbeatable_rhoa',
    'loo_term_le', 'loo_term_le_whitened', 'loo_corr_term_le', 'lower_le_upper_cosine',
    'lower_le_upper_corr', 'lower_le_upper_whitened',
    'lower_excludes_left_out', 'cv_prediction_uses_ceil_only', 'cv_prediction_excludes_test',
    'cv_upper_is_full_pool_at_test',
    'ceiling_scale_invariant', 'ceiling_affine_invariant', 'ceiling_ignores_common_nan',
    'nan_mismatch_rejected', 'degenerate_rdm_contributes_nothing',
    'leaf_texts', 'pool_shift_is_translation', 'normaliser_has_no_scale_threshold',
    'ceiling_scale_invariant_whitened', 'ceiling_affine_invariant_whitened',
    # round 3
    'grouped_score_is_weighted_sum', 'upper_unbeatable_balanced_groups', 'grouped_sup_is_weighted_pool',
    'cv_ignores_common_nan', 'coded_shortcut_eq_V_form', 'ceiling_coded_shortcut_eq_V_form',
    'lower_le_upper_whitened_coded', 'ceiling_invariant_whitened_coded',
    'guard_leaves', 'dispatch_leaves', 'loop_leaves',
    # round 4
    'input_write_leaves', 'call_leaves_data_unchanged', 'session_calls_independent', 'session_call_at',
    'inplace_write_changes_data',
    # round 7
    'cv_lower_pools_train_at_test', 'cv_ceil_data_is_train_at_conds')]
RULE = ('one PRNG; boot: 2-6 RDMs x 4-7 conditions, values small integers (ties) / quarters / '
        'distinct dyadics / signed integers with zeros, 0-3 entries missing from all RDMs (or, malformed stream, from one RDM), '
        'grouping descriptor singleton / 2-3 groups / one group, methods cosine, corr, rho-a, '
        'cosine_cov, corr_cov, spearman; 4 candidates + the data RDMs + an invariance transform '
        '(positive rescaling per RDM, plus a shift for the correlation measures) per case; '
        'nonzero: 23 norms from 0 and denormals to 1e300 through the real _nonzero of both files (bit-exact); '
        'poolonly: pool_rdm for euclid / neg_riem_dist / kendall / tau-b / tau-a (pooled vector only); '
        'unknown method names (ValueError); '
        'cv: explicit fold structures (rdm folds x pattern folds, rdm-only, random, '
        'leave-one-pattern-group-out) and the sets returned by the real generators under a seed; '
        'every data RDM is multiplied by its own power of two (unit / all tiny ~1e-12..1e-6 / all huge / '
        'mixed over 24 orders of magnitude; exact in binary), the invariance re-runs use per-RDM factors '
        '2^-40..2^40 (and proportional shifts for the correlation measures); '
        'a degenerate stream puts one all-zero (cosine family) / constant (other families) RDM into the stack; '
        'stacks whose pooled prediction is numerically zero/constant are rejected at generation; '
        'round 3: grouping descriptors with balanced groups (2-3 groups of equal size >= 2) and unequal groups; '
        'input forms: C / Fortran-ordered float64, int64 dissimilarities (integral unit-scale stacks), descriptors as '
        'lists / numpy arrays / strings; call forms: keywords, positional, default rdm_descriptor (singleton stacks), '
        'default method (cosine), default pattern_descriptor (cv without pattern groups); '
        'round 4, sessions: ONE RDMs object (float64 C / Fortran, or int64) analysed by 2-4 successive calls of '
        'boot_noise_ceiling / cv_noise_ceiling (explicit folds or sets_leave_one_out_rdm built from the same object) / '
        'both pool_rdm / eval_fixed with different methods (every ordered pair of the normalisation families plain < '
        'scale-free < shift-free < rank occurs), every session also in the reverse order; each call is compared with '
        'the model and judged against the pristine data, and the object must hold the pristine data after each call; '
        'all other kinds build a fresh object for every library call; '
        'a case is non-trivial when it has >= 2 RDMs, no exception and differing RDMs; distinct = '
        'distinct (kind, method, data, grouping, folds)')
BRANCHES = ['kind:boot', 'kind:cv', 'kind:cvgen',
            'm:cosine', 'm:corr', 'm:rho-a', 'm:cosine_cov', 'm:corr_cov', 'm:spearman',
            'groups:singleton', 'groups:multi', 'groups:one',
            'nan:none', 'nan:common', 'nan:mismatch', 'exc:ValueError', 'ties', 'degenerate',
            'cv:k_fold', 'cv:k_fold_rdm', 'cv:random', 'cv:loo_pattern',
            'gen:k_fold', 'gen:k_fold_rdm', 'gen:random', 'gen:loo_rdm', 'gen:loo_pattern',
            'gen:of_k_rdm', 'pdesc:group', 'cand', 'transform',
            'scale:tiny', 'scale:huge', 'scale:mixed', 'kind:nonzero', 'exc:unknown-method',
            'gen:defaults', 'gen:shared', 'kind:poolonly', 'pool:euclid', 'pool:neg_riem_dist',
            'pool:kendall', 'pool:tau-b', 'pool:tau-a',
            # round 3
            'groups:balanced', 'groups:unequal', 'wpool', 'fast', 'layout:fortran', 'layout:int',
            'layout:strdesc', 'layout:arraydesc', 'call:default_desc', 'call:positional',
            'call:default_method', 'call:cv_default_pdesc',
            # round 4: one object analysed by several successive calls
            'kind:session', 'sess:len2', 'sess:len3+', 'sess:float', 'sess:int', 'sess:boot', 'sess:cv',
            'sess:pool', 'sess:pooling', 'sess:evalfixed', 'sess:sensitive-order', 'sess:reversed',
            'sess:cv-loo-rdm', 'sess:nan-common',
            # round 7: content of the real generators' ceil sets where the folds test a proper subset of conditions
            'cvgen:ceil-content:k_pattern>1', 'cvgen:ceil-content:random', 'cvgen:ceil-content:loo_pattern']
ASSUMPTIONS = [
    'no pooled prediction is numerically (but not exactly) zero or constant: the similarity of such a '
    'prediction is rounding noise on both sides (such stacks are rejected at generation, see RULE); '
    'exactly zero / constant data RDMs are generated (degenerate stream) with exactly representable values',
    'entries are missing from all RDMs at once (the property\'s domain); RDMs missing different '
    'entries are only checked to be rejected with ValueError',
    'noise ceilings never pass sigma_k: the whitened measures use V for the identity covariance']
TRUSTED_EXTRA = [
    'scipy.stats.rankdata = tie-averaged ranks (checked exactly by C03)',
    'the library\'s linear-CKA shortcut for the whitened cosine equals r1\'V^-1 r2/sqrt(..) on the '
    'kept entries (checked numerically: the model and the oracle use the V form)',
    'RDMs.subset / subsample / subset_pattern / subsample_pattern select as modelled in Rsa.Core.Folds (C05)',
    'the in-place write counts (leaves poolInputWrites / poolingInputWrites / ceilingInputWrites) come from a syntactic '
    'may-alias analysis of pool_rdm (both files, with module-level helpers) and the two ceilings; writes inside '
    'compare / RDMs methods / numpy are outside it and are covered by the sessions of the correspondence only']

METHODS = ['cosine', 'corr', 'rho-a', 'cosine_cov', 'corr_cov', 'spearman']
PLAIN_MEAN = ('euclid', 'neg_riem_dist')
POOL_ONLY = ('euclid', 'neg_riem_dist', 'kendall', 'tau-b', 'tau-a')
OPTIMAL = ('cosine', 'corr', 'rho-a')
ORDERED = ('cosine', 'corr', 'cosine_cov', 'corr_cov')
TOL = {'cosine': 1e-9, 'corr': 1e-9, 'rho-a': 1e-9, 'spearman': 1e-9,
       'cosine_cov': 1e-7, 'corr_cov': 1e-7}
COND_MIN = 1e-3
# util/pooling.pool_rdm (not used by the noise ceilings; the property does not speak about it for the
# whitened measures) solves V x = r with scipy's cg(atol=1e-9): for data of scale <~1e-9 the solve
# returns 0 and the RDM is left unnormalised (notes/C07.md, observation).  Its whitened branch is
# therefore compared / checked for optimality on unit-scale stacks only; set True once
# notes/C07-observation-pooling-cg-atol.diff is applied.
POOLING_WHITENED_ALL_SCALES = True


# ------------------------------------------------------------------ building inputs

def _tri(n):
    return n * (n - 1) // 2


def _np_rows(rows):
    return np.array([[np.nan if v is None else float(v) for v in r] for r in rows], dtype=float)


def _build(case, rows=None):
    from rsatoolbox.rdm import RDMs
    rows = case['rows'] if rows is None else rows
    n = case['n']
    nR = len(rows)
    pdesc = case.get('pdesc') or list(range(n))
    arr = _np_rows(rows)
    g = list(case['rdesc'])
    pg = list(pdesc)
    lay = case.get('layout')
    if lay == 'fortran':
        arr = np.asfortranarray(arr)
    elif lay == 'int':
        arr = arr.astype(np.int64)
    elif lay == 'strdesc':      # zero-padded: np.unique's lexicographic order = numeric order
        g = [f's{v:03d}' for v in g]
    elif lay == 'arraydesc':
        g = np.array(g)
        pg = np.array(pg)
    return RDMs(arr,
                rdm_descriptors={'g': g, 'uid': list(range(nR))},
                pattern_descriptors={'g': pg, 'cid': list(range(n))})


def _pname(case):
    return 'g' if case.get('pdesc') else 'index'


def _gv(case, vals):
    """rdm-descriptor values as the case's layout stores them"""
    return [f's{v:03d}' for v in vals] if case.get('layout') == 'strdesc' else vals


def _explicit_sets(case, rdms):
    """(ceil_set, test_set) from value-level folds, built as crossvalsets.py builds them"""
    pname = _pname(case)
    ceil_set, test_set = [], []
    n = case['n']
    for f in case['folds']:
        te = rdms.subsample('g', _gv(case, f['rtest'])) if f.get('rtest') is not None else rdms
        tr = rdms.subsample('g', _gv(case, f['rtrain'])) if f.get('rtrain') is not None else rdms
        if f.get('ptest') is not None:
            te = te.subset_pattern(pname, f['ptest'])
            tr = tr.subset_pattern(pname, f['ptest'])
            pidx = list(f['ptest'])
        else:
            pidx = np.arange(n)
        ceil_set.append([tr, pidx])
        test_set.append([te, pidx])
    return ceil_set, test_set


def _real_sets(case, rdms):
    """(ceil_set, test_set) from a real generator under the case's numpy seed"""
    from rsatoolbox.inference import crossvalsets as cvs
    g = case['gen']
    prm = case.get('params', {})
    pname = _pname(case)
    st = np.random.get_state()
    np.random.seed(case['seed'])
    try:
        if g == 'k_fold':
            _, te, ce = cvs.sets_k_fold(rdms, k_rdm=prm.get('k_rdm'), k_pattern=prm.get('k_pattern'),
                                        random=prm.get('random', True), pattern_descriptor=pname,
                                        rdm_descriptor='g')
        elif g == 'k_fold_rdm':
            _, te, ce = cvs.sets_k_fold_rdm(rdms, k_rdm=prm.get('k_rdm'),
                                            random=prm.get('random', True), rdm_descriptor='g')
        elif g == 'of_k_rdm':
            _, te, ce = cvs.sets_of_k_rdm(rdms, rdm_descriptor='g', k=prm.get('k', 1),
                                          random=prm.get('random', False))
        elif g == 'random':
            _, te, ce = cvs.sets_random(rdms, n_rdm=prm.get('n_rdm'), n_pattern=prm.get('n_pattern'),
                                        n_cv=prm.get('n_cv', 2), pattern_descriptor=pname,
                                        rdm_descriptor='g')
        elif g == 'loo_rdm':
            _, te, ce = cvs.sets_leave_one_out_rdm(rdms, 'g')
        elif g == 'loo_pattern':
            _, te, ce = cvs.sets_leave_one_out_pattern(rdms, pname)
        else:
            raise KeyError(g)
    finally:
        np.random.set_state(st)
    return ce, te


def _positions(part):
    """original RDM / condition positions an RDMs object of a set holds"""
    return [int(v) for v in part.rdm_descriptors['uid']], [int(v) for v in part.pattern_descriptors['cid']]


def _fold_positions(case):
    """[{ceil_rows, ceil_conds, test_rows, test_conds, pidx}] for cv / cvgen cases, from the
    objects the library's own selection functions return"""
    rdms = _build(case)
    ce, te = _explicit_sets(case, rdms) if case['kind'] == 'cv' else _real_sets(case, rdms)
    out = []
    for c, t in zip(ce, te):
        cr, cc = _positions(c[0])
        tr, tc = _positions(t[0])
        out.append({'ceil_rows': cr, 'ceil_conds': cc, 'test_rows': tr, 'test_conds': tc,
                    'pidx': [int(v) for v in t[1]]})
    return out


def _set_contents(case):
    """[{ceil: {rows, conds, pidx, vecs}, test: {...}}] — what the objects of a real generator's ceil_set /
    test_set hold (freshly generated from a freshly built object under the case's seed)"""
    rdms = _build(case)
    ce, te = _real_sets(case, rdms)
    out = []
    for c, t in zip(ce, te):
        ent = {}
        for key, part in (('ceil', c), ('test', t)):
            r, cd = _positions(part[0])
            ent[key] = {'rows': r, 'conds': cd, 'pidx': [int(v) for v in np.asarray(part[1]).ravel()],
                        'vecs': [_vec(v) for v in np.asarray(part[0].get_vectors(), dtype=float)]}
        out.append(ent)
    return out


def _spec_conds(case, pidx):
    """the test conditions of a fold by definition: the conditions whose pattern-descriptor value is one of
    the advertised test pattern values (positions in the full RDM, ascending)"""
    pd = list(case.get('pdesc') or range(case['n']))
    want = set(int(v) for v in pidx)
    return [i for i in range(case['n']) if pd[i] in want]


# ------------------------------------------------------------------ implementation side

def _exc(exc):
    name = type(exc).__name__
    return {'exc': name if name in ('ValueError', 'TypeError', 'AssertionError', 'KeyError',
                                    'IndexError', 'ZeroDivisionError') else 'other:' + name}


def _vec(a):
    return [None if (v is None or (isinstance(v, float) and math.isnan(v))) else float(v)
            for v in np.asarray(a, dtype=float).ravel().tolist()]


def run_impl(case):
    import warnings
    from rsatoolbox.inference.noise_ceiling import boot_noise_ceiling, cv_noise_ceiling
    from rsatoolbox.util.inference_util import pool_rdm
    from rsatoolbox.util import pooling
    m = case['method']
    with warnings.catch_warnings():
        warnings.simplefilter('ignore')
        np.seterr(all='ignore')
        if case['kind'] == 'nonzero':
            from rsatoolbox.util.inference_util import _nonzero
            a = np.array(case['norms'], dtype=float).reshape(-1, 1)
            return {'iu': [float(v) for v in np.asarray(_nonzero(a)).ravel()],
                    'po': [float(v) for v in np.asarray(pooling._nonzero(a)).ravel()]}
        if case['kind'] == 'session':
            return _run_session(case)
        rdms = _build(case)
        if case['kind'] == 'poolonly':
            res = {}
            for key, fn in (('iu', pool_rdm), ('po', pooling.pool_rdm)):
                if key == 'po' and m == 'neg_riem_dist':
                    continue
                try:
                    res[key] = _vec(fn(_build(case), method=m).get_vectors()[0])
                except Exception as exc:  # noqa: BLE001
                    res[key] = _exc(exc)
            return res
        if case['kind'] == 'boot':
            # every library call gets its own freshly built object (round 4): a call that writes into its
            # argument must not leak into the next comparison of this case — sessions (kind 'session') are
            # where one object is deliberately analysed several times
            res = {}
            try:
                res['pool'] = _vec(pool_rdm(_build(case), method=m).get_vectors()[0])
            except Exception as exc:  # noqa: BLE001
                res['pool'] = _exc(exc)
            try:
                res['pool2'] = _vec(pooling.pool_rdm(_build(case), method=m).get_vectors()[0])
            except Exception as exc:  # noqa: BLE001
                res['pool2'] = _exc(exc)
            rdms = _build(case)
            try:
                call = case.get('call')
                if call == 'default_desc':          # rdm_descriptor='index': every RDM its own group
                    lo, up = boot_noise_ceiling(rdms, method=m)
                elif call == 'positional':
                    lo, up = boot_noise_ceiling(rdms, m, 'g')
                elif call == 'default_method':      # method='cosine'
                    lo, up = boot_noise_ceiling(rdms, rdm_descriptor='g')
                else:
                    lo, up = boot_noise_ceiling(rdms, method=m, rdm_descriptor='g')
                res['lower'], res['upper'] = float(lo), float(up)
            except Exception as exc:  # noqa: BLE001
                res.update(_exc(exc))
            if m in ('cosine', 'corr') and O.common_mask(case['rows']) and len(set(case['rdesc'])) > 1 \
                    and 'exc' not in res:
                # the library's own grouped score of the group-weighted pool (round 3)
                try:
                    wp = O.wpool(m, [O.dense(r) for r in case['rows']], case['rdesc'])
                    it = iter(wp)
                    wpo = [next(it) if k else None for k in O.mask_of(case['rows'][0])]
                    res['wscore'] = _real_score_grouped(case, wpo)
                except Exception as exc:  # noqa: BLE001
                    res['wscore'] = _exc(exc)
            return res
        try:
            ce, te = _explicit_sets(case, rdms) if case['kind'] == 'cv' else _real_sets(case, rdms)
            if case.get('call') == 'cv_default_pdesc':      # pattern_descriptor='index'
                lo, up = cv_noise_ceiling(rdms, ce, te, method=m)
            elif case.get('call') == 'positional':
                lo, up = cv_noise_ceiling(rdms, ce, te, m, _pname(case))
            else:
                lo, up = cv_noise_ceiling(rdms, ce, te, method=m, pattern_descriptor=_pname(case))
            res = {'lower': float(lo), 'upper': float(up), 'folds': len(te)}
        except Exception as exc:  # noqa: BLE001
            res = _exc(exc)
        if case['kind'] == 'cvgen':
            # round 7: the CONTENT of every ceil_set / test_set entry a real generator handed out (which RDMs,
            # which conditions, which dissimilarities the object holds, the advertised pattern values)
            try:
                res['sets'] = _set_contents(case)
            except Exception as exc:  # noqa: BLE001
                res['sets'] = _exc(exc)
        return res


# ------------------------------------------------------------------ model side

def _rows_bits(rows):
    return [[fbits(v) for v in r] for r in rows]


def model_requests(case):
    if case['kind'] == 'session':
        return _session_requests(case)
    if case['kind'] == 'nonzero':
        return [{'op': 'c07.nonzero', 'norms': [fbits(v) for v in case['norms']]}]
    if case['kind'] == 'poolonly':
        return [{'op': 'c07.poolonly', 'rows': _rows_bits(case['rows']),
                 'norm': 'none' if case['method'] in PLAIN_MEAN else 'rank'}]
    base = {'method': case['method'], 'n': case['n'], 'rows': _rows_bits(case['rows']),
            'rdesc': list(case['rdesc'])}
    if case['kind'] == 'boot':
        return [dict(base, op='c07.boot')]
    base['pdesc'] = list(case.get('pdesc') or range(case['n']))
    if case['kind'] == 'cv':
        folds = [{'rtrain': f.get('rtrain'), 'rtest': f.get('rtest'),
                  'ptest': f['ptest'] if f.get('ptest') is not None else list(range(case['n']))}
                 for f in case['folds']]
    else:
        try:
            folds = _fold_positions(case)
        except Exception:  # noqa: BLE001  (the generator itself failed: nothing to model)
            return []
        # round 7: only the DRAW outcome is read back (which RDMs train / test, which pattern values are
        # tested); the conditions of both parts are the specification's — the conditions whose pattern value
        # is a test value — so `cvPredTrain` pools the training RDMs AT THE TEST CONDITIONS whatever the
        # ceil objects hold; what they do hold is compared with the model's `partData` (answer key 'ceil')
        folds = [dict(f, ceil_conds=_spec_conds(case, f['pidx']), test_conds=_spec_conds(case, f['pidx']),
                      read_ceil_conds=f['ceil_conds'], read_test_conds=f['test_conds']) for f in folds]
        return [dict(base, op='c07.cv', folds=folds, want_ceil=True)]
    return [dict(base, op='c07.cv', folds=folds)]


def model_result(case, answers):
    if not answers:
        return {'exc': 'generator'}
    a = answers[0]
    if isinstance(a, dict) and 'model_error' in a:
        if str(a['model_error']).startswith('unknown method'):
            return {'exc': 'ValueError', 'unknown_method': True}
        return {'model_error': a['model_error']}
    if case['kind'] == 'session':
        return _session_model(case, a)
    if case['kind'] == 'nonzero':
        return {'nz': [unfbits(v) for v in a]}
    if case['kind'] == 'poolonly':
        return {'pool': [None if v is None else unfbits(v) for v in a]}
    res = {}
    if 'exc' in a:
        res['exc'] = a['exc']
    else:
        res['lower'], res['upper'] = unfbits(a['lower']), unfbits(a['upper'])
    if 'pool' in a:
        res['pool'] = [None if v is None else unfbits(v) for v in a['pool']]
    if a.get('poolw') is not None:
        res['poolw'] = [None if v is None else unfbits(v) for v in a['poolw']]
    if 'folds' in a:
        res['folds'] = a['folds']
    if a.get('ceil') is not None:
        res['ceil'] = [[[None if v is None else unfbits(v) for v in r] for r in f] for f in a['ceil']]
    if a.get('fast') is not None:
        res['fast'] = (unfbits(a['fast']['lower']), unfbits(a['fast']['upper']))
    if a.get('wpool') is not None:
        res['wscore'] = unfbits(a['wpool']['score'])
        res['wpool'] = [None if v is None else unfbits(v) for v in a['wpool']['pool']]
    return res


def compare(case, impl, model):
    m = case['method']
    tol = TOL.get(m, 1e-9)
    if 'model_error' in model:
        return f"model error {model['model_error']}"
    if case['kind'] == 'session':
        return _session_compare(case, impl, model)
    if case['kind'] == 'nonzero':
        for k in ('iu', 'po'):
            if [fbits(v) for v in impl[k]] != [fbits(v) for v in model['nz']]:
                return f'_nonzero ({k}): impl {impl[k]} model {model["nz"]}'
        return None
    if case['kind'] == 'poolonly':
        for k in ('iu', 'po'):
            if k not in impl:
                continue
            if isinstance(impl[k], dict):
                return f'pool_rdm ({k}) raised {impl[k]}'
            d = first_diff(impl[k], model['pool'], rtol=1e-9, atol=0.0, path=f'pool_rdm[{k}]')
            if d:
                return d
        return None
    if model.get('unknown_method'):
        bad = [k for k in ('pool', 'pool2') if not (isinstance(impl.get(k), dict) and impl[k].get('exc') == 'ValueError')]
        if bad or impl.get('exc') != 'ValueError':
            return f'unknown method accepted: {impl}'
        return None
    if model.get('exc') == 'generator':
        return None if 'exc' in impl else 'model has no folds but the implementation answered'
    if case['kind'] == 'cvgen':
        d = _content_diff(case, impl, model)
        if d:
            return d
    if ('exc' in impl) != ('exc' in model):
        return f"exception: impl {impl.get('exc')} model {model.get('exc')}"
    if 'exc' in impl:
        return None if impl['exc'] == model['exc'] else f"exception {impl['exc']} != {model['exc']}"
    for k in ('lower', 'upper'):
        if not close(impl[k], model[k], rtol=tol, atol=tol):
            return f'{k}: impl {impl[k]!r} model {model[k]!r}'
    if case['kind'] == 'boot' and model.get('fast') is not None:
        # complete RDMs: the model's transcription of the code path compare() really takes (linear-CKA
        # shortcut for the whitened measures) — same algorithm, tight tolerance
        for k, v in zip(('lower', 'upper'), model['fast']):
            if not close(impl[k], v, rtol=1e-9, atol=1e-9):
                return f'{k} (coded fast path): impl {impl[k]!r} model {v!r}'
    if case['kind'] == 'boot' and 'wscore' in impl:
        if isinstance(impl['wscore'], dict):
            return f"grouped score of the weighted pool raised {impl['wscore']}"
        if len(set(case['rdesc'])) > 1 and 'wscore' in model \
                and not close(impl['wscore'], model['wscore'], rtol=1e-9, atol=1e-9):
            return f"grouped score of the group-weighted pool: impl {impl['wscore']!r} model {model['wscore']!r}"
    if case['kind'] == 'boot':
        if isinstance(impl.get('pool'), dict):
            return f"pool_rdm raised {impl['pool']}"
        d = first_diff(_canon_pool(m, impl['pool']), _canon_pool(m, model['pool']),
                       rtol=1e-9, atol=1e-9, path='pool')
        if d:
            return d
        if isinstance(impl.get('pool2'), dict):
            return f"util.pooling.pool_rdm raised {impl['pool2']}"
        if m in ('cosine_cov', 'corr_cov') and not _unit_scale(case):
            d = None
        elif m in ('cosine_cov', 'corr_cov'):
            # the fitters' pooling divides by the whitened norm (CG solve inside: rtol 1e-5)
            d = first_diff(_canon_pool(m, impl['pool2']), _canon_pool(m, model['poolw']),
                           rtol=2e-4, atol=2e-4, path='pooling.pool_rdm(whitened)')
        else:
            d = first_diff(_canon_pool(m, impl['pool2']), _canon_pool(m, model['pool']),
                           rtol=1e-9, atol=1e-9, path='pooling.pool_rdm')
        if d:
            return d
    return None


def _content_diff(case, impl, model):
    """round 7: every ceil_set entry of a real generator must hold exactly the model's `cvPredTrain` input
    (`partData` of the ceil part = the training RDMs restricted to the test conditions), every test_set entry
    the test RDMs at the test conditions"""
    sets = impl.get('sets')
    if not isinstance(sets, list):
        return f'the sets of the generator could not be read back: {sets}'
    if model.get('ceil') is None:
        return 'model gave no ceil data'
    if len(sets) != len(model['ceil']):
        return f"number of folds: impl {len(sets)} model {len(model['ceil'])}"
    for i, (st, mc) in enumerate(zip(sets, model['ceil'])):
        conds = _spec_conds(case, st['test']['pidx'])
        for key in ('ceil', 'test'):
            if st[key]['conds'] != conds:
                return (f'fold {i}: {key}_set object holds conditions {st[key]["conds"]}, the test conditions '
                        f'are {conds}')
        d = first_diff(st['ceil']['vecs'], mc, rtol=0.0, atol=0.0, path=f'ceil_set[{i}][0].dissimilarities')
        if d:
            return d + ' (model: training RDMs restricted to the test conditions)'
    return None


def _unit_scale(case):
    return POOLING_WHITENED_ALL_SCALES or not any(case.get('exps') or [0])


def _canon_pool(method, vec):
    """what of a pooled RDM matters to the measure: direction (cosine), standardised values
    (correlation), ranks (rank measures); missing entries stay None"""
    d = [v for v in vec if v is not None]
    if not d or any(isinstance(v, float) and math.isnan(v) for v in d):
        return vec
    if method in ('cosine', 'cosine_cov'):
        s = math.sqrt(sum(a * a for a in d)) or 1.0
        c = [a / s for a in d]
    elif method in ('corr', 'corr_cov'):
        mu = sum(d) / len(d)
        s = math.sqrt(sum((a - mu) ** 2 for a in d)) or 1.0
        c = [(a - mu) / s for a in d]
    else:
        # ranks of values rounded to 1e-9 of their range (rank means are multiples of 1/(2n))
        c = O.ranks([round(a, 9) for a in d])
    it = iter(c)
    return [None if v is None else next(it) for v in vec]


# ------------------------------------------------------------------ oracle

def _viol(what, observed, expected, **feat):
    return {'what': what, 'observed': observed, 'expected': expected, 'features': feat}


def _real_boot(case, rows):
    from rsatoolbox.inference.noise_ceiling import boot_noise_ceiling
    # the transformed values are not integers: an integer-typed stack is re-run as float64
    rdms = _build(dict(case, layout=None) if case.get('layout') == 'int' else case, rows)
    lo, up = boot_noise_ceiling(rdms, method=case['method'], rdm_descriptor='g')
    return float(lo), float(up)


def _real_score(case, cand):
    """mean similarity of a candidate RDM to the data RDMs, by the library's compare"""
    from rsatoolbox.rdm import RDMs
    from rsatoolbox.rdm.compare import compare as rcompare
    rdms = _build(case)
    c = RDMs(_np_rows([cand]))
    return float(np.mean(rcompare(c, rdms, method=case['method'])))


def _real_score_grouped(case, cand):
    """the score boot_noise_ceiling's loop gives a candidate: mean within each rdm-descriptor group of the
    library's compare(candidate, data), then mean over groups"""
    from rsatoolbox.rdm import RDMs
    from rsatoolbox.rdm.compare import compare as rcompare
    rdms = _build(case)
    c = RDMs(_np_rows([cand]))
    sims = np.asarray(rcompare(c, rdms, method=case['method']), dtype=float).ravel()
    return float(np.mean([np.mean([sims[j] for j in g]) for g in O.groups_of(case['rdesc'])]))


def _transformed(case):
    t = case.get('transform')
    if not t:
        return None
    rows = []
    for r, s, b in zip(case['rows'], t['scale'], t['shift']):
        rows.append([None if v is None else s * v + b for v in r])
    return rows


def oracle(case):
    import warnings
    m = case['method']
    if case['kind'] == 'session':
        # judged in a process image in which the library has been imported but never called (C07_fresh.py):
        # the verdict, the shrinking and every replay are independent of what this process ran before
        return _FRESH.oracle(case)
    if case['kind'] == 'nonzero':
        impl = run_impl(case)
        want = [1.0 if v == 0 else float(v) for v in case['norms']]
        for k in ('iu', 'po'):
            if impl[k] != want:
                bad = [(a, b) for a, b, c in zip(case['norms'], impl[k], want) if b != c]
                return _viol('_nonzero changes a non-zero norm (an RDM of small scale would drop out of '
                             'the pool) or keeps a zero one', bad[:3], 'zero -> 1, everything else unchanged',
                             claim='nonzero')
        return None
    rows, n, rdesc = case['rows'], case['n'], case['rdesc']
    if case['kind'] == 'poolonly':
        # outside the property proper (euclid / neg_riem_dist / tau): the pooled RDM is the entry-wise
        # mean of the data (of their ranks), missing entries stay missing
        impl = run_impl(case)
        d = [O.dense(r) for r in rows]
        z = d if m in PLAIN_MEAN else [O.ranks(r) for r in d]
        want = [O.mean([zz[k] for zz in z]) for k in range(len(d[0]))]
        it = iter(want)
        want = [next(it) if kp else None for kp in O.mask_of(rows[0])]
        for k in ('iu', 'po'):
            if k in impl and (isinstance(impl[k], dict) or first_diff(impl[k], want, rtol=1e-9, atol=0.0)):
                return _viol(f'pool_rdm({m}) is not the entry-wise mean', impl[k], want, claim='pool-mean')
        return None
    if m not in TOL:
        impl = run_impl(case)
        if impl.get('exc') != 'ValueError':
            return _viol('unknown comparison method is not rejected', impl, 'ValueError', claim='unknown-method')
        return None
    tol = 10 * TOL[m]
    with warnings.catch_warnings():
        warnings.simplefilter('ignore')
        np.seterr(all='ignore')
        if not O.common_mask(rows):
            # outside the property's domain: must be rejected, never silently mis-aligned
            impl = run_impl(case)
            if impl.get('exc') != 'ValueError':
                return _viol('RDMs missing different entries are not rejected', impl, 'ValueError',
                             claim='nan-mismatch')
            return None
        impl = run_impl(case)
        if 'exc' in impl:
            try:
                want = list(O.boot_expected(m, rows, rdesc, n)) if case['kind'] == 'boot' else 'two numbers'
            except (ZeroDivisionError, ValueError):
                want = 'two numbers'
            return _viol('noise ceiling raised on a valid stack'
                         + (' (a zero / constant data RDM has similarity 0 to everything and must be '
                            'left out of the pool)' if case.get('degenerate') is not None else ''),
                         impl['exc'], want, claim='raises')
        lo, up = impl['lower'], impl['upper']
        if case['kind'] != 'boot':
            folds = _fold_positions(case)
            note = ''
            if case['kind'] == 'cvgen':
                # round 7: the lower bound is recomputed from the raw data by the definition — 'the training RDMs
                # at the test conditions': the draw (which RDMs train / test, which pattern values are tested) is
                # read from the generator's sets, the test conditions are the conditions whose pattern value is
                # an advertised test value — never from what the ceil objects hold.  What they hold is judged
                # against the raw data too and named in the verdict when a bound is off.
                sets = impl.get('sets')
                if not isinstance(sets, list) or len(sets) != len(folds):
                    return _viol('the sets of the generator could not be read back', sets, f'{len(folds)} folds',
                                 claim='cv-ceil-content')
                for i, (f, st) in enumerate(zip(folds, sets)):
                    conds = _spec_conds(case, st['test']['pidx'])
                    for key, what in (('ceil', 'training'), ('test', 'test')):
                        if note:
                            break
                        if st[key]['conds'] != conds:
                            note = (f' — {key}_set[{i}] holds the conditions {st[key]["conds"]}, the test conditions '
                                    f'are {conds} (pooling over other conditions normalises each RDM differently)')
                        elif first_diff(st[key]['vecs'], [O.sub_rdm(n, rows[j], conds) for j in st[key]['rows']],
                                        rtol=0.0, atol=0.0):
                            note = (f' — {key}_set[{i}] does not hold the dissimilarities of the {what} RDMs at '
                                    'the test conditions')
                    f['test_conds'] = conds
                    f['ceil_rows'] = list(st['ceil']['rows'])
                    f['test_rows'] = list(st['test']['rows'])
            for f in folds:
                if set(f['ceil_rows']) & set(f['test_rows']) and len(set(rdesc)) > 1 \
                        and case.get('gen') != 'loo_pattern' and not case.get('shared_rows'):
                    return _viol('ceiling set contains test RDMs', f, 'disjoint', claim='cv-exclusion')
            elo, eup = O.cv_expected(m, rows, n, folds)
            if not close(lo, elo, rtol=tol, atol=tol):
                return _viol('cv lower bound is not the mean similarity of the test RDMs to the pooled '
                             'training RDMs at the test conditions' + note, lo, elo, claim='cv-lower',
                             ceil_content=bool(note))
            if not close(up, eup, rtol=tol, atol=tol):
                return _viol('cv upper bound is not the mean similarity of the test RDMs to the pool of '
                             'all RDMs at the test conditions' + note, up, eup, claim='cv-upper',
                             ceil_content=bool(note))
            return None
        groups = O.groups_of(rdesc)
        # every RDM its own group — or, more generally (theorem upper_unbeatable_balanced_groups), groups of
        # one common size: all RDMs weigh the same and the coded pool is the optimum
        singleton = len({len(g) for g in groups}) == 1
        if len(groups) > 1 and m in ('cosine', 'corr'):
            # any grouping (theorem grouped_sup_is_weighted_pool): the highest achievable grouped score is
            # that of the group-weighted pool; the reported upper bound and every candidate stay below it,
            # and the weighted pool attains it under the library's own compare
            d = [O.dense(r) for r in rows]
            ws = O.wsup(m, d, rdesc)
            if up > ws + tol:
                return _viol('upper bound above the highest achievable grouped score', up, ws,
                             claim='grouped-weighted-sup')
            if isinstance(impl.get('wscore'), float) and not close(impl['wscore'], ws, rtol=tol, atol=tol):
                return _viol('the group-weighted pool does not attain the highest achievable grouped score',
                             impl['wscore'], ws, claim='grouped-weighted-sup')
            for c in list(case.get('cands', [])) + [list(r) for r in rows]:
                sc = _real_score_grouped(case, c)
                if sc > ws + tol:
                    return _viol('a candidate RDM scores above the group-weighted optimum', sc, ws,
                                 claim='grouped-weighted-sup')
        if singleton and len(groups) > 1:
            if m in OPTIMAL:
                sup = O.sup_mean_sim(m, [O.dense(r) for r in rows])
                if not close(up, sup, rtol=tol, atol=tol):
                    return _viol('upper bound differs from the highest achievable mean similarity',
                                 up, sup, claim='upper-sup')
                cands = list(case.get('cands', [])) + [list(r) for r in rows]
                if isinstance(impl.get('pool'), list):
                    cands.append(impl['pool'])
                for c in cands:
                    s = _real_score(case, c)
                    if s > up + tol:
                        return _viol('a candidate RDM scores above the upper noise ceiling', s, up,
                                     claim='upper-beaten')
                if isinstance(impl.get('pool'), list):
                    s = _real_score(case, impl['pool'])
                    if not close(s, up, rtol=tol, atol=tol):
                        return _viol('the pooled RDM does not attain the upper bound', s, up,
                                     claim='upper-attained')
            if m in ORDERED and lo > up + tol:
                return _viol('lower bound above upper bound', lo, up, claim='order')
            if m in ('cosine_cov', 'corr_cov') and isinstance(impl.get('pool2'), list) \
                    and case.get('degenerate') is None and _unit_scale(case):
                # util.pooling.pool_rdm (whitened norm) is the optimum of the whitened measure: the
                # ceiling's own pool and every candidate score at most as high (CG accuracy 1e-4)
                best = _real_score(case, impl['pool2'])
                if up > best + 1e-4:
                    return _viol('the whitened pool of util.pooling scores below the ceiling pool', best, up,
                                 claim='whitened-pool-opt')
                for c in list(case.get('cands', [])) + [list(r) for r in rows]:
                    sc = _real_score(case, c)
                    if sc > best + 1e-4:
                        return _viol('a candidate beats the whitened pool of util.pooling', sc, best,
                                     claim='whitened-pool-opt')
        tr = _transformed(case)
        if tr is not None and m != 'rho-a' and m != 'spearman':
            try:
                tlo, tup = _real_boot(case, tr)
            except Exception as exc:  # noqa: BLE001
                return _viol('noise ceiling raised on the rescaled stack', type(exc).__name__, (lo, up),
                             claim='invariance')
            if not (close(tlo, lo, rtol=tol, atol=tol) and close(tup, up, rtol=tol, atol=tol)):
                return _viol('bounds change when single data RDMs are rescaled'
                             + (' / shifted' if m in ('corr', 'corr_cov') else ''), (tlo, tup), (lo, up),
                             claim='invariance')
        elo, eup = O.boot_expected(m, rows, rdesc, n)
        if not close(lo, elo, rtol=tol, atol=tol):
            return _viol('lower bound is not the leave-one-group-out average (prediction from the '
                         'remaining groups only)', lo, elo, claim='lower-loo')
        if not close(up, eup, rtol=tol, atol=tol):
            return _viol('upper bound is not the mean similarity of the pooled RDM', up, eup,
                         claim='upper-pool')
    return None


# ------------------------------------------------------------------ features

def _has_ties(rows):
    for r in rows:
        d = [v for v in r if v is not None]
        if len(set(d)) < len(d):
            return True
    return False


def features(case, impl):
    if case['kind'] == 'session':
        return _session_features(case, impl)
    if case['kind'] == 'nonzero':
        return {'kind': 'nonzero', 'method': None, 'branches': ['kind:nonzero']}
    if case['kind'] == 'poolonly':
        return {'kind': 'poolonly', 'method': case['method'],
                'branches': ['kind:poolonly', 'pool:' + case['method']]}
    if case['method'] not in TOL:
        return {'kind': case['kind'], 'method': 'unknown', 'branches': ['exc:unknown-method']}
    rows = case['rows']
    groups = O.groups_of(case['rdesc'])
    if len(groups) == 1:
        gk = 'one'
    elif all(len(g) == 1 for g in groups):
        gk = 'singleton'
    else:
        gk = 'multi'
    gsub = None
    if gk == 'multi':
        gsub = 'balanced' if len({len(g) for g in groups}) == 1 else 'unequal'
    if not O.common_mask(rows):
        nk = 'mismatch'
    elif any(v is None for v in rows[0]):
        nk = 'common'
    else:
        nk = 'none'
    br = ['kind:' + case['kind'], 'm:' + case['method'], 'groups:' + gk, 'nan:' + nk]
    if gsub:
        br.append('groups:' + gsub)
    if case.get('layout'):
        br.append('layout:' + case['layout'])
    if case.get('call'):
        br.append('call:' + case['call'])
    if impl and isinstance(impl.get('wscore'), float):
        br.append('wpool')
    if case['kind'] == 'boot' and nk == 'none' and not (impl and 'exc' in impl):
        br.append('fast')
    if _has_ties(rows):
        br.append('ties')
    if case['kind'] == 'cv':
        br.append('cv:' + case.get('shape', '?'))
    if case['kind'] == 'cvgen':
        br.append('gen:' + case['gen'])
        prm = case.get('params', {})
        if any(prm.get(k, 0) is None for k in ('k_rdm', 'k_pattern', 'n_rdm', 'n_pattern')):
            br.append('gen:defaults')
        if prm.get('k_rdm') == 1 or prm.get('n_rdm') == 0 or prm.get('n_pattern') == 0:
            br.append('gen:shared')
        # round 7: the content of the ceil sets was read back and the folds test a PROPER subset of the
        # conditions (only then 'pool, then select' differs from 'select, then pool')
        sets = impl.get('sets') if impl else None
        if isinstance(sets, list) and sets and 'exc' not in impl and \
                any(len(_spec_conds(case, st['test']['pidx'])) < case['n'] for st in sets):
            if case['gen'] == 'k_fold':
                br.append('cvgen:ceil-content:k_pattern>1')
            elif case['gen'] == 'random':
                br.append('cvgen:ceil-content:random')
            elif case['gen'] == 'loo_pattern':
                br.append('cvgen:ceil-content:loo_pattern')
    if case.get('pdesc'):
        br.append('pdesc:group')
    if case.get('cands'):
        br.append('cand')
    if case.get('transform'):
        br.append('transform')
    if case.get('degenerate') is not None:
        br.append('degenerate')
    if case.get('scale') in ('tiny', 'huge', 'mixed'):
        br.append('scale:' + case['scale'])
    if impl and 'exc' in impl:
        br.append('exc:' + str(impl['exc']))
    return {'kind': case['kind'], 'method': case['method'], 'n_rdm': len(rows), 'n_cond': case['n'],
            'groups': gk, 'nan': nk, 'style': case.get('style'), 'gen': case.get('gen'),
            'degenerate': case.get('degenerate') is not None, 'scale': case.get('scale'),
            'layout': case.get('layout'), 'call': case.get('call'), 'group_sizes': gsub,
            'shape': case.get('shape'), 'branches': br}


def nontrivial_key(case, impl):
    if case['kind'] == 'nonzero':
        return ['nonzero', case['norms']]
    if case['kind'] == 'session':
        if impl is None or any('exc' in c for c in impl['calls']) or len(case['calls']) < 2:
            return None
        return ['session', case['rows'], case['rdesc'], case.get('pdesc'), case.get('layout'), case['calls']]
    if impl is None or 'exc' in impl or len(case['rows']) < 2:
        return None
    if all(r == case['rows'][0] for r in case['rows']):
        return None
    return [case['kind'], case['method'], case['rows'], case['rdesc'], case.get('pdesc'),
            case.get('layout'), case.get('call'),
            case.get('folds'), case.get('gen'), case.get('params'), case.get('seed')]


# ------------------------------------------------------------------ generation

def _values(rng, style, p):
    if style == 'ties':
        return [float(rng.randint(1, 6)) for _ in range(p)]
    if style == 'quarters':
        return [rng.randint(1, 40) / 4 for _ in range(p)]
    if style == 'signed':
        return [float(rng.randint(-3, 6)) for _ in range(p)]
    return [rng.randint(1, 4095) / 64 for _ in range(p)]


def _stack(rng, nR, n, style, correlated):
    p = _tri(n)
    base = _values(rng, style, p)
    rows = []
    for _ in range(nR):
        r = _values(rng, style, p)
        if correlated:
            r = [a + b for a, b in zip(r, base)]
        rows.append(r)
    return rows


SCALE_MODES = ('unit', 'unit', 'tiny', 'huge', 'mixed')


def _apply_scale(rng, rows, mode):
    """multiply every data RDM by its own power of two (exact): tiny ~1e-12..1e-6, huge ~1e6..1e12,
    mixed = independent exponents over the whole range; returns (rows, exponents)"""
    if mode == 'tiny':
        exps = [rng.randint(-40, -20) for _ in rows]
    elif mode == 'huge':
        exps = [rng.randint(20, 40) for _ in rows]
    elif mode == 'mixed':
        exps = [rng.choice([rng.randint(-40, -27), 0, rng.randint(27, 40), rng.randint(-40, 40)])
                for _ in rows]
        if len(set(exps)) < 2:
            exps[0] = -37 if exps[0] != -37 else 33
    else:
        exps = [0] * len(rows)
    return [[None if v is None else v * 2.0 ** e for v in r] for r, e in zip(rows, exps)], exps


def _rdesc(rng, nR, kind):
    if kind == 'singleton':
        vals = rng.sample(range(1, 20), nR)
        return vals
    if kind == 'one':
        return [3] * nR
    if kind == 'balanced':      # nR = k * size, size >= 2, shuffled membership
        size = 2 if nR % 2 == 0 else 3
        g = [v for v in range(nR // size) for _ in range(size)]
        rng.shuffle(g)
        return [5 + 2 * v for v in g]
    k = rng.randint(2, max(2, min(3, nR - 1)))
    while True:
        g = [rng.randint(0, k - 1) for _ in range(nR)]
        if len(set(g)) == k and len(set(g)) < nR:
            return [5 + 2 * v for v in g]


def _well_conditioned(case):
    rows = case['rows']
    if not O.common_mask(rows):
        return True
    for j, r in enumerate(rows):
        d = O.dense(r)
        if len(d) < 3:
            return False
        if len(set(d)) < 2 and j != case.get('degenerate'):
            return False
    try:
        return O.conditioning(case['method'], rows, case['rdesc']) > COND_MIN
    except (ZeroDivisionError, ValueError):
        return False


def _cands(rng, case):
    rows, m = case['rows'], case['method']
    keep = O.mask_of(rows[0])
    d = [O.dense(r) for r in rows]
    p = len(d[0])
    pool = O.pool(m, d)
    scale = max(abs(a) for a in pool) or 1.0
    out = [[rng.randint(0, 64) / 8 for _ in range(p)],
           [a + scale * rng.randint(-8, 8) / 64 for a in pool],
           [a + scale * rng.randint(-1, 1) / 256 for a in pool],
           [a + b for a, b in zip(d[0], d[-1])]]
    res = []
    for c in out:
        if len(set(c)) < 2:
            c[0] += 1.0
        it = iter(c)
        res.append([next(it) if k else None for k in keep])
    return res


def _transform(rng, case):
    """each data RDM r -> s*r + b with its own s > 0 (a power of two from 2^-40..2^40, or a small
    odd multiple) and, for the correlation measures, b = s * 2^e * b0 (e = the RDM's own scale
    exponent, b0 a small dyadic) so that every transformed entry is exactly representable"""
    nR = len(case['rows'])
    exps = case.get('exps') or [0] * nR
    scale = [rng.choice([0.25, 3.0, 1.5, 2.0 ** rng.randint(-40, -20), 2.0 ** rng.randint(20, 40),
                         2.0 ** rng.randint(-40, 40)]) for _ in range(nR)]
    if case['method'] in ('corr', 'corr_cov'):
        shift = [sc * 2.0 ** e * rng.choice([0.0, 1.0, -0.5, 4.0, 16.0, 1024.0, -2.0 ** 20])
                 for sc, e in zip(scale, exps)]
    else:
        shift = [0.0] * nR
    return {'scale': scale, 'shift': shift}


def _add_nan(rng, rows, n, how):
    p = _tri(n)
    if how == 'common':
        idx = rng.sample(range(p), rng.randint(1, min(3, p - 4)))
        return [[None if k in idx else v for k, v in enumerate(r)] for r in rows]
    if how == 'mismatch':
        j = rng.randrange(len(rows))
        k = rng.randrange(p)
        return [[None if (i == j and q == k) else v for q, v in enumerate(r)] for i, r in enumerate(rows)]
    return rows


def gen_boot(rng, method=None, groups=None, nan=None, big=False, degenerate=False, scale=None,
             layout=None, call=None):
    for _ in range(200):
        m = method or rng.choice(METHODS)
        if call == 'default_method':
            m = 'cosine'
        nR = rng.randint(2, 7 if big else 6)
        n = rng.randint(4, 8 if big else 7)
        style = rng.choice(['ties', 'quarters', 'distinct', 'signed'])
        gk = groups or rng.choice(['singleton', 'singleton', 'multi', 'one', 'balanced'])
        if call == 'default_desc':
            gk = 'singleton'
        if layout == 'int':
            style, scale, nan = rng.choice(['ties', 'signed']), 'unit', 'none'
        if gk == 'multi' and nR < 3:
            nR = 3
        if gk == 'balanced':
            nR = rng.choice([4, 6] + ([6] if big else []))
        nk = nan or rng.choice(['none', 'none', 'common'])
        rows = _stack(rng, nR, n, style, rng.random() < 0.6)
        case = {'kind': 'boot', 'method': m, 'n': n, 'rdesc': _rdesc(rng, nR, gk), 'style': style}
        if call == 'default_desc':
            case['rdesc'] = list(range(nR))     # what rdm_descriptor='index' means
        if layout:
            case['layout'] = layout
        if call:
            case['call'] = call
        if degenerate:
            # one data RDM is all zero (cosine family) / constant (correlation and rank families)
            j = rng.randrange(nR)
            v = 0.0 if m in ('cosine', 'cosine_cov') else float(rng.randint(0, 5))
            rows[j] = [v] * _tri(n)
            case['degenerate'] = j
        case['scale'] = scale or rng.choice(SCALE_MODES)
        rows, case['exps'] = _apply_scale(rng, rows, case['scale'])
        rows = _add_nan(rng, rows, n, nk)
        case['rows'] = rows
        if not _well_conditioned(case):
            continue
        if nk != 'mismatch':
            case['cands'] = _cands(rng, case)
            case['transform'] = _transform(rng, case)
        return case
    raise RuntimeError('no well-conditioned stack found')


def _split(rng, vals, k):
    vals = list(vals)
    rng.shuffle(vals)
    return [vals[i::k] for i in range(k)]


def gen_cv(rng, method=None, shape=None, scale=None, no_pdesc=False):
    for _ in range(200):
        m = method or rng.choice(METHODS)
        shape_ = shape or rng.choice(['k_fold', 'k_fold_rdm', 'random', 'loo_pattern'])
        nR = rng.randint(3, 6)
        n = rng.randint(5, 8)
        style = rng.choice(['ties', 'quarters', 'distinct', 'signed'])
        grouped_r = rng.random() < 0.4 and nR >= 4
        rdesc = _rdesc(rng, nR, 'multi') if grouped_r else _rdesc(rng, nR, 'singleton')
        pdesc = None
        if not no_pdesc and (shape_ == 'loo_pattern' or (shape_ != 'k_fold_rdm' and rng.random() < 0.3)):
            k = rng.randint(2, 3) if n >= 6 else 2
            while True:
                g = [rng.randint(0, k - 1) for _ in range(n)]
                if all(g.count(v) >= 2 for v in range(k)):
                    break
            pdesc = [10 + v for v in g]
        rvals = sorted(set(rdesc))
        pvals = sorted(set(pdesc)) if pdesc else list(range(n))
        folds = []
        if shape_ == 'k_fold':
            kr = rng.randint(2, len(rvals))
            for rt in _split(rng, rvals, kr):
                kp = 2
                parts = _split(rng, pvals, kp)
                if pdesc is None and any(len(q) < 3 for q in parts):
                    parts = [pvals[:len(pvals) // 2], pvals[len(pvals) // 2:]]
                for pt in parts:
                    folds.append({'rtrain': [v for v in rvals if v not in rt], 'rtest': rt,
                                  'ptest': sorted(pt) if rng.random() < 0.5 else pt})
        elif shape_ == 'k_fold_rdm':
            kr = rng.randint(2, len(rvals))
            for rt in _split(rng, rvals, kr):
                folds.append({'rtrain': [v for v in rvals if v not in rt], 'rtest': rt, 'ptest': None})
        elif shape_ == 'random':
            for _c in range(rng.randint(1, 3)):
                rv = list(rvals)
                rng.shuffle(rv)
                pv = list(pvals)
                rng.shuffle(pv)
                nr = rng.randint(1, len(rv) - 1)
                npat = rng.randint(3 if pdesc is None else 1, len(pv) - 1)
                folds.append({'rtrain': rv[nr:], 'rtest': rv[:nr], 'ptest': pv[:npat]})
        else:  # leave one pattern group out: all RDMs on both sides
            for v in pvals:
                folds.append({'rtrain': None, 'rtest': None, 'ptest': [v]})
        nk = rng.choice(['none', 'none', 'common'])
        sc = scale or rng.choice(SCALE_MODES)
        rows, exps = _apply_scale(rng, _stack(rng, nR, n, style, rng.random() < 0.6), sc)
        rows = _add_nan(rng, rows, n, nk)
        case = {'kind': 'cv', 'method': m, 'n': n, 'rows': rows, 'rdesc': rdesc, 'style': style,
                'shape': shape_, 'folds': folds, 'scale': sc, 'exps': exps}
        if pdesc:
            case['pdesc'] = pdesc
        if shape_ == 'loo_pattern':
            case['shared_rows'] = True
        if _cv_ok(case):
            return case
    raise RuntimeError('no usable cv case found')


def gen_cvgen(rng, method=None, gen=None, scale=None, variant=None):
    for _ in range(200):
        m = method or rng.choice(METHODS)
        g = gen or rng.choice(['k_fold', 'k_fold_rdm', 'random', 'loo_rdm', 'loo_pattern', 'of_k_rdm'])
        nR = rng.randint(4, 7)
        n = rng.randint(6, 9)
        style = rng.choice(['ties', 'quarters', 'distinct', 'signed'])
        rdesc = _rdesc(rng, nR, 'multi') if (rng.random() < 0.3 and g != 'of_k_rdm') else _rdesc(rng, nR, 'singleton')
        pdesc = None
        if g == 'loo_pattern' or (g in ('k_fold', 'random') and rng.random() < 0.3):
            k = 3 if g != 'loo_pattern' else rng.randint(2, 3)
            while True:
                gg = [rng.randint(0, k - 1) for _ in range(n)]
                if all(gg.count(v) >= 2 for v in range(k)):
                    break
            pdesc = [10 + v for v in gg]
        prm = {}
        ng = len(set(rdesc))
        if g == 'k_fold':
            prm = {'k_rdm': rng.choice([None, 1, rng.randint(2, min(3, ng))]),
                   'k_pattern': rng.choice([None, 2, 2]), 'random': rng.random() < 0.7}
        elif g == 'k_fold_rdm':
            prm = {'k_rdm': rng.choice([None, rng.randint(2, ng), rng.randint(2, ng)]),
                   'random': rng.random() < 0.7}
        elif g == 'of_k_rdm':
            prm = {'k': rng.randint(1, ng // 2), 'random': rng.random() < 0.5}
        elif g == 'random':
            prm = {'n_rdm': rng.choice([None, 0, rng.randint(1, ng - 1), rng.randint(1, ng - 1)]),
                   'n_pattern': rng.choice([None, 0]) if (pdesc is None and rng.random() < 0.3)
                   else (rng.randint(1, 2) if pdesc else rng.randint(3, n - 3)),
                   'n_cv': rng.randint(1, 3)}
        if variant == 'defaults':       # the generators' own default fold counts / test sizes
            for k in ('k_rdm', 'k_pattern', 'n_rdm', 'n_pattern'):
                if k in prm:
                    prm[k] = None
        elif variant == 'pattern':      # round 7: the folds test a proper subset of the conditions
            if g == 'k_fold':
                prm['k_pattern'] = 3 if (n >= 9 and rng.random() < 0.5) else 2
                if prm.get('k_rdm') == 1:
                    prm['k_rdm'] = rng.choice([None, 2])
            elif g == 'random':
                prm['n_pattern'] = rng.randint(1, 2) if pdesc else rng.randint(3, n - 3)
                if prm.get('n_rdm') == 0:
                    prm['n_rdm'] = rng.randint(1, ng - 1)
        elif variant == 'shared':       # one RDM fold / no RDM split: training and test RDMs coincide
            if g == 'k_fold':
                prm['k_rdm'] = 1
            elif g == 'random':
                prm['n_rdm'] = 0
        nk = rng.choice(['none', 'none', 'common'])
        sc = scale or rng.choice(SCALE_MODES)
        rows, exps = _apply_scale(rng, _stack(rng, nR, n, style, rng.random() < 0.6), sc)
        rows = _add_nan(rng, rows, n, nk)
        case = {'kind': 'cvgen', 'method': m, 'n': n, 'rows': rows, 'rdesc': rdesc, 'style': style,
                'gen': g, 'params': prm, 'seed': rng.randint(0, 2 ** 31 - 1), 'scale': sc, 'exps': exps}
        if pdesc:
            case['pdesc'] = pdesc
        if g == 'loo_pattern' or prm.get('k_rdm') == 1 or prm.get('n_rdm') == 0:
            case['shared_rows'] = True
        if _cv_ok(case):
            return case
    raise RuntimeError('no usable cvgen case found')


def _cv_ok(case):
    """every comparison of the case is well conditioned (no constant / tiny test or pooled RDM)"""
    import warnings
    try:
        with warnings.catch_warnings():
            warnings.simplefilter('ignore')
            folds = _fold_positions(case)
    except Exception:  # noqa: BLE001
        return False
    rows, n, m = case['rows'], case['n'], case['method']
    if not _well_conditioned(dict(case, rdesc=list(range(len(rows))))):
        return False
    for f in folds:
        conds = sorted(f['test_conds'])
        if len(conds) < 3 or not f['ceil_rows'] or not f['test_rows']:
            return False
        test = [O.dense(O.sub_rdm(n, rows[j], conds)) for j in f['test_rows']]
        train = [O.dense(O.sub_rdm(n, rows[j], conds)) for j in f['ceil_rows']]
        for r in test + train:
            if len(r) < 3 or len(set(r)) < 2:
                return False
        sub = {'method': m, 'rows': [[v for v in r] for r in train], 'rdesc': [0] * len(train)}
        try:
            if O.conditioning(m, sub['rows'], sub['rdesc']) < COND_MIN:
                return False
            full = O.pool(m, [O.dense(r) for r in rows])
            it = iter(full)
            full_o = [next(it) if kp else None for kp in O.mask_of(rows[0])]
            pt = O.dense(O.sub_rdm(n, full_o, conds))
            c = pt if m in ('cosine', 'cosine_cov') else O.center(pt)
            if math.sqrt(O.mean([a * a for a in c])) < COND_MIN * (math.sqrt(O.mean([a * a for a in full])) or 1):
                return False
        except (ZeroDivisionError, ValueError):
            return False
    return True


def gen_nonzero(rng):
    norms = [0.0, 5e-324, 2.0 ** -1060, 1e-300, 2.0 ** -40, 1e-11, 9.99e-9, 1e-8, 1.0, 2.0 ** 40, 1e300]
    norms += [rng.randint(1, 2 ** 20) * 2.0 ** rng.randint(-1040, 990) for _ in range(12)]
    rng.shuffle(norms)
    return {'kind': 'nonzero', 'method': 'cosine', 'norms': norms}


def generate(rng, tier):
    reps = 3 if tier == 'quick' else 80
    for _ in range(reps):
        yield gen_nonzero(rng)
        for pm in POOL_ONLY:
            c = gen_boot(rng, 'rho-a', 'singleton', rng.choice(['none', 'common']))
            yield {'kind': 'poolonly', 'method': pm, 'n': c['n'], 'rows': c['rows'], 'rdesc': c['rdesc'],
                   'style': c['style'], 'scale': c['scale'], 'exps': c['exps']}
        c = gen_boot(rng, 'cosine', 'singleton', 'none')
        yield dict(c, method=rng.choice(['nonsense', 'euclidean', 'Cosine']))
        # boot: every method x grouping x nan status
        for m in METHODS:
            for gk in ('singleton', 'singleton', 'multi', 'one'):
                for nk in ('none', 'common'):
                    yield gen_boot(rng, m, gk, nk, big=(tier != 'quick'))
            yield gen_boot(rng, m, None, 'mismatch')
        for _k in range(12):
            yield gen_boot(rng)
        for m in METHODS:
            for gk in ('singleton', 'multi'):
                yield gen_boot(rng, m, gk, None, degenerate=True)
        # per-RDM scales over 24 orders of magnitude (the bounds are scale-free)
        for m in METHODS:
            for sc in ('tiny', 'huge', 'mixed'):
                yield gen_boot(rng, m, 'singleton', None, scale=sc)
            yield gen_boot(rng, m, 'multi', None, scale='mixed')
            yield gen_cv(rng, m, None, scale=rng.choice(['tiny', 'huge', 'mixed']))
        # round 3: balanced / unequal groups, input forms, call forms
        for m in METHODS:
            yield gen_boot(rng, m, 'balanced', None)
            yield gen_boot(rng, m, 'multi', None, layout=rng.choice(['fortran', 'strdesc', 'arraydesc']))
        for lay in ('fortran', 'int', 'strdesc', 'arraydesc'):
            for m in ('cosine', 'corr', rng.choice(METHODS[2:])):
                yield gen_boot(rng, m, rng.choice([None, 'singleton']), None, layout=lay)
        for call in ('default_desc', 'positional', 'default_method'):
            yield gen_boot(rng, None, None, None, call=call)
            yield gen_boot(rng, None, None, None, call=call)
        for m in rng.sample(METHODS, 3):
            c = gen_cv(rng, m, rng.choice(['k_fold', 'k_fold_rdm', 'random']), no_pdesc=True)
            yield dict(c, call='cv_default_pdesc')
            c = gen_cv(rng, m, None)
            yield dict(c, call='positional', layout=rng.choice(['fortran', 'strdesc', 'arraydesc']))
        for m in METHODS:
            for shape in ('k_fold', 'k_fold_rdm', 'random', 'loo_pattern'):
                yield gen_cv(rng, m, shape)
        for g in ('k_fold', 'k_fold_rdm', 'random', 'loo_rdm', 'loo_pattern', 'of_k_rdm'):
            for m in rng.sample(METHODS, 3):
                yield gen_cvgen(rng, m, g)
        for g in ('k_fold', 'k_fold_rdm', 'random'):
            yield gen_cvgen(rng, None, g, variant='defaults')
        for g in ('k_fold', 'random'):
            yield gen_cvgen(rng, None, g, variant='shared')
        # round 7: pattern folds of the real generators (k_pattern > 1 / n_pattern > 0), every method
        for m in METHODS:
            for g in ('k_fold', 'random'):
                yield gen_cvgen(rng, m, g, variant='pattern')
        # round 4: sessions (one object, several calls), each in both orders
        for c in gen_sessions(rng, tier):
            yield c


def search(rng, tier):
    while True:
        r = rng.random()
        if r < 0.35:
            c = gen_session(rng, layout=rng.choice([None, None, None, 'fortran', 'int']))
            yield c
            yield _reversed_session(c)
            continue
        r = rng.random()
        if r < 0.6:
            yield gen_boot(rng, layout=rng.choice([None, None, None, 'fortran', 'int', 'strdesc', 'arraydesc']),
                           call=rng.choice([None, None, None, 'default_desc', 'positional', 'default_method']))
        elif r < 0.8:
            yield gen_cv(rng)
        else:
            yield gen_cvgen(rng)


# ------------------------------------------------------------------ round 4: sessions
#
# kind 'session': ONE RDMs object is analysed by 2-4 successive library calls (`calls`, each with its own
# method), the way an analyst computes the ceiling of one data set under several measures.  Every call's
# result is compared with the model's / judged by the oracle against an independent computation from the
# pristine rows of the case, and after every call the object must still hold the pristine data.
#   fn  boot       boot_noise_ceiling(rdms, method, rdm_descriptor='g')
#       cv         cv_noise_ceiling(rdms, ceil_set, test_set, method, pattern_descriptor) with the sets built
#                  from the same object right before the call (explicit folds, or gen 'loo_rdm' =
#                  sets_leave_one_out_rdm(rdms, 'g'))
#       pool       util.inference_util.pool_rdm(rdms, method)    (also euclid / neg_riem_dist / tau)
#       pooling    util.pooling.pool_rdm(rdms, method)
#       evalfixed  inference.eval_fixed(ModelFixed(cand), rdms, method=method): noise ceiling (every RDM
#                  its own group) and the candidate's evaluations from one public call

SESSION_FNS = ('boot', 'cv', 'pool', 'pooling', 'evalfixed')


def _call_folds(case, call):
    """value-level folds of a cv call (gen 'loo_rdm': one fold per rdm-descriptor value, np.unique order)"""
    if call.get('gen') == 'loo_rdm':
        vals = sorted(set(case['rdesc']))
        return [{'rtrain': [v for v in vals if v != t], 'rtest': [t], 'ptest': None} for t in vals]
    return call['folds']


def _cv_view(case, call):
    """the cv case a cv call of a session amounts to on a fresh object"""
    c = {k: v for k, v in case.items() if k not in ('calls',)}
    return dict(c, kind='cv', method=call['method'], folds=_call_folds(case, call))


def _same_state(state, rows):
    if len(state) != len(rows):
        return False
    for a, b in zip(state, rows):
        if len(a) != len(b):
            return False
        for x, y in zip(a, b):
            if (x is None) != (y is None):
                return False
            if x is not None and fbits(float(x)) != fbits(float(y)):
                return False
    return True


def _meta(rdms):
    d = np.asarray(rdms.dissimilarities)
    return [str(d.dtype), list(d.shape),
            [str(v) for v in rdms.rdm_descriptors['g']], [int(v) for v in rdms.rdm_descriptors['uid']],
            [str(v) for v in rdms.pattern_descriptors['g']], [int(v) for v in rdms.pattern_descriptors['cid']]]


def _session_call(case, rdms, call):
    from rsatoolbox.inference.noise_ceiling import boot_noise_ceiling, cv_noise_ceiling
    from rsatoolbox.util.inference_util import pool_rdm
    from rsatoolbox.util import pooling
    m, fn = call['method'], call['fn']
    if fn == 'boot':
        lo, up = boot_noise_ceiling(rdms, method=m, rdm_descriptor='g')
        return {'lower': float(lo), 'upper': float(up)}
    if fn == 'cv':
        if call.get('gen') == 'loo_rdm':
            from rsatoolbox.inference.crossvalsets import sets_leave_one_out_rdm
            _, te, ce = sets_leave_one_out_rdm(rdms, 'g')
        else:
            ce, te = _explicit_sets(_cv_view(case, call), rdms)
        lo, up = cv_noise_ceiling(rdms, ce, te, method=m, pattern_descriptor=_pname(case))
        return {'lower': float(lo), 'upper': float(up), 'folds': len(te)}
    if fn == 'pool':
        return {'pool': _vec(pool_rdm(rdms, method=m).get_vectors()[0])}
    if fn == 'pooling':
        return {'pool': _vec(pooling.pool_rdm(rdms, method=m).get_vectors()[0])}
    if fn == 'evalfixed':
        from rsatoolbox.model import ModelFixed
        from rsatoolbox.inference import eval_fixed
        model = ModelFixed('cand', _np_rows([call['cand']])[0])
        r = eval_fixed(model, rdms, method=m)
        lo, up = r.noise_ceiling
        return {'lower': float(lo), 'upper': float(up),
                'evals': [float(v) for v in np.asarray(r.evaluations)[0, 0]]}
    raise KeyError(fn)


def _run_session(case):
    rdms = _build(case)          # the one object of the session
    meta0 = _meta(rdms)
    out = {'calls': [], 'states': [], 'meta_ok': []}
    for call in case['calls']:
        try:
            out['calls'].append(_session_call(case, rdms, call))
        except Exception as exc:  # noqa: BLE001
            out['calls'].append(_exc(exc))
        try:
            st = [_vec(r) for r in np.asarray(rdms.dissimilarities)]
            out['states'].append(None if _same_state(st, case['rows']) else st)
            out['meta_ok'].append(_meta(rdms) == meta0)
        except Exception as exc:  # noqa: BLE001
            out['states'].append(_exc(exc))
            out['meta_ok'].append(False)
    return out


def _session_requests(case):
    n, nR = case['n'], len(case['rows'])
    calls = []
    for c in case['calls']:
        j = {'fn': c['fn'], 'method': c['method'], 'n': n, 'rdesc': list(case['rdesc']),
             'pdesc': list(case.get('pdesc') or range(n))}
        if c['fn'] == 'cv':
            j['folds'] = [{'rtrain': f.get('rtrain'), 'rtest': f.get('rtest'),
                           'ptest': f['ptest'] if f.get('ptest') is not None else list(range(n))}
                          for f in _call_folds(case, c)]
        elif c['fn'] == 'evalfixed':
            j['rdesc'] = list(range(nR))        # eval_fixed passes rdm_descriptor='index'
            j['cand'] = [fbits(v) for v in c['cand']]
        elif c['method'] in POOL_ONLY:
            j['fn'] = 'poolonly'
            j['norm'] = 'none' if c['method'] in PLAIN_MEAN else 'rank'
            j['effect'] = c['fn']
        calls.append(j)
    return [{'op': 'c07.session', 'rows': _rows_bits(case['rows']), 'calls': calls}]


def _unvec(v):
    return [None if x is None else unfbits(x) for x in v]


def _session_model(case, a):
    out = {'calls': [], 'states': []}
    for c, r in zip(case['calls'], a):
        res, fn = r['res'], c['fn']
        if c['method'] in POOL_ONLY:
            out['calls'].append({'pool': _unvec(res)})
        elif fn == 'evalfixed':
            sub = model_result(dict(case, kind='boot', method=c['method']), [res['boot']])
            sub['score'] = unfbits(res['score'])
            out['calls'].append(sub)
        else:
            out['calls'].append(model_result(dict(case, kind='boot' if fn != 'cv' else 'cv', method=c['method']),
                                             [res]))
        st = [_unvec(v) for v in r['state']]
        out['states'].append(None if _same_state(st, case['rows']) else st)
    return out


def _session_compare(case, impl, model):
    for k, (c, ic, mc) in enumerate(zip(case['calls'], impl['calls'], model['calls'])):
        m, fn = c['method'], c['fn']
        tag = f"call {k + 1}/{len(case['calls'])} {fn}({m})"
        tol = TOL.get(m, 1e-9)
        if ('exc' in ic) != ('exc' in mc):
            return f"{tag}: exception: impl {ic.get('exc')} model {mc.get('exc')}"
        if 'exc' not in ic:
            if fn in ('boot', 'cv', 'evalfixed'):
                for b in ('lower', 'upper'):
                    if not close(ic[b], mc[b], rtol=tol, atol=tol):
                        return f'{tag}: {b}: impl {ic[b]!r} model {mc[b]!r}'
                if fn != 'cv' and mc.get('fast') is not None:
                    for b, v in zip(('lower', 'upper'), mc['fast']):
                        if not close(ic[b], v, rtol=1e-9, atol=1e-9):
                            return f'{tag}: {b} (coded fast path): impl {ic[b]!r} model {v!r}'
                if fn == 'evalfixed':
                    sc = float(np.mean(ic['evals']))
                    if not close(sc, mc['score'], rtol=tol, atol=tol):
                        return f"{tag}: mean evaluation of the candidate: impl {sc!r} model {mc['score']!r}"
            else:
                whitened = fn == 'pooling' and m in ('cosine_cov', 'corr_cov')
                want = mc['poolw'] if whitened else mc['pool']
                t = 2e-4 if whitened else 1e-9
                if m in PLAIN_MEAN:
                    d = first_diff(ic['pool'], want, rtol=1e-9, atol=0.0, path=tag + ' pool')
                else:
                    d = first_diff(_canon_pool(m, ic['pool']), _canon_pool(m, want), rtol=t, atol=t,
                                   path=tag + ' pool')
                if d:
                    return d
        if impl['states'][k] != model['states'][k]:
            return (f'{tag}: the RDMs object holds different data after the call: impl '
                    f"{_state_diff(case, impl['states'][k])} model {_state_diff(case, model['states'][k])}")
        if not impl['meta_ok'][k]:
            return f'{tag}: dtype / shape / descriptors of the RDMs object changed'
    return None


def _state_diff(case, st):
    if st is None:
        return 'unchanged'
    if isinstance(st, dict):
        return str(st)
    for i, (a, b) in enumerate(zip(st, case['rows'])):
        for q, (x, y) in enumerate(zip(a, b)):
            if (x is None) != (y is None) or (x is not None and x != y):
                return f'RDM {i} entry {q}: {x!r} (was {y!r})'
    return 'shape changed'


SESS = ' — one RDMs object analysed by several successive calls (see `where`)'


def _session_oracle(case):
    """every call of the session is judged against an independent computation from the pristine rows of the
    case; after every call the analysed object must still hold those rows.  A wrong *result* is reported in
    preference to (and together with) the in-place change that caused it"""
    import warnings
    with warnings.catch_warnings():
        warnings.simplefilter('ignore')
        np.seterr(all='ignore')
        impl = _run_session(case)
        mutated = None
        hist = []
        for k, (c, ic) in enumerate(zip(case['calls'], impl['calls'])):
            hist.append(f"{c['fn']}({c['method']})")
            where = f"call {k + 1} of the session {' -> '.join(hist)} on one RDMs object"
            feat = dict(session=True, n_calls=k + 1, seq=' -> '.join(hist), mutated_by_call=mutated)
            v = _judge_call(case, c, ic, where, feat)
            if v:
                v['where'] = where + (f'; call {mutated} had changed the data held by the object'
                                      if mutated is not None else '')
                return v
            if mutated is None and (impl['states'][k] is not None or not impl['meta_ok'][k]):
                mutated = k + 1
                first = _viol('a call changed the RDMs object it analysed (the caller\'s data RDMs / their dtype / '
                              'descriptors are overwritten in place)' + SESS, _state_diff(case, impl['states'][k])
                              if impl['meta_ok'][k] else 'dtype / shape / descriptors changed', 'unchanged',
                              **dict(feat, claim='input-mutated', mutated_by_call=k + 1))
                first['where'] = where
        return first if mutated is not None else None


def _judge_call(case, c, ic, where, feat):
    rows, n, rdesc = case['rows'], case['n'], case['rdesc']
    keep = O.mask_of(rows[0])
    d = [O.dense(r) for r in rows]
    m, fn = c['method'], c['fn']
    tol = 10 * TOL.get(m, 1e-9)
    if 'exc' in ic:
        return _viol('noise ceiling / pooling raised on a valid stack' + SESS, ic['exc'], 'a result',
                     **dict(feat, claim='raises'))
    if fn in ('boot', 'evalfixed'):
        rd = rdesc if fn == 'boot' else list(range(len(rows)))
        lo, up = ic['lower'], ic['upper']
        elo, eup = O.boot_expected(m, rows, rd, n)
        groups = O.groups_of(rd)
        balanced = len(groups) > 1 and len({len(g) for g in groups}) == 1
        if balanced and m in OPTIMAL:
            sup = O.sup_mean_sim(m, d)
            if not close(up, sup, rtol=tol, atol=tol):
                return _viol('upper bound differs from the highest achievable mean similarity to the data '
                             'RDMs' + SESS, up, sup, **dict(feat, claim='upper-sup'))
            # the pool of the original data, scored by the library against a fresh copy of the data
            it = iter(O.pool(m, d))
            po = [next(it) if kp else None for kp in keep]
            s = _real_score(dict(case, kind='boot', method=m, rdesc=rd, layout=None), po)
            if s > up + tol:
                return _viol('the pooled RDM of the data scores above the reported upper noise ceiling' + SESS,
                             s, up, **dict(feat, claim='upper-beaten'))
        if not close(lo, elo, rtol=tol, atol=tol):
            return _viol('lower bound is not the leave-one-group-out average on the data' + SESS, lo, elo,
                         **dict(feat, claim='lower-loo'))
        if not close(up, eup, rtol=tol, atol=tol):
            return _viol('upper bound is not the mean similarity of the pooled RDM of the data' + SESS, up, eup,
                         **dict(feat, claim='upper-pool'))
        if balanced and m in ORDERED and lo > up + tol:
            return _viol('lower bound above upper bound' + SESS, lo, up, **dict(feat, claim='order'))
        if fn == 'evalfixed':
            cd = O.dense(c['cand'])
            want = [O.sim(m, cd, r, n, keep) for r in d]
            if first_diff(ic['evals'], want, rtol=tol, atol=tol):
                return _viol('evaluations of the candidate are not its similarities to the data RDMs' + SESS,
                             ic['evals'], want, **dict(feat, claim='evaluations'))
            if m in OPTIMAL and float(np.mean(ic['evals'])) > up + tol:
                return _viol('the candidate scores above the upper noise ceiling' + SESS,
                             float(np.mean(ic['evals'])), up, **dict(feat, claim='upper-beaten'))
    elif fn == 'cv':
        folds = _fold_positions(_cv_view(case, c))      # from a fresh object
        elo, eup = O.cv_expected(m, rows, n, folds)
        if not close(ic['lower'], elo, rtol=tol, atol=tol):
            return _viol('cv lower bound is not the mean similarity of the test RDMs to the pooled training RDMs '
                         'at the test conditions' + SESS, ic['lower'], elo, **dict(feat, claim='cv-lower'))
        if not close(ic['upper'], eup, rtol=tol, atol=tol):
            return _viol('cv upper bound is not the mean similarity of the test RDMs to the pool of all RDMs at '
                         'the test conditions' + SESS, ic['upper'], eup, **dict(feat, claim='cv-upper'))
    else:
        if m in PLAIN_MEAN:
            want = O.plain_mean(d)
            bad = first_diff(O.dense(ic['pool']), want, rtol=1e-9, atol=0.0)
        else:
            if fn == 'pooling' and m in ('cosine_cov', 'corr_cov'):
                want, t = O.pool_whitened(m, d, n, keep), 2e-3
            elif m in POOL_ONLY:
                want, t = O.plain_mean([O.ranks(r) for r in d]), 1e-8
            else:
                want, t = O.pool(m, d), 1e-8
            bad = first_diff(O.dense(_canon_pool(m, ic['pool'])), _canon_pool(m, want), rtol=t, atol=t)
        if O.mask_of(ic['pool']) != keep or bad:
            return _viol('pooled RDM is not the pool of the data' + SESS, ic['pool'], want,
                         **dict(feat, claim='pool-value'))
    return None


def _session_features(case, impl):
    calls = case['calls']
    ms = [c['method'] for c in calls]
    br = ['kind:session', 'sess:len2' if len(calls) == 2 else ('sess:len3+' if len(calls) > 2 else 'sess:len1'),
          'sess:' + ('int' if case.get('layout') == 'int' else 'float')]
    br += sorted({'sess:' + c['fn'] for c in calls})
    br += sorted({'m:' + m for m in ms if m in TOL})
    if O.order_sensitive(ms):
        br.append('sess:sensitive-order')
    if case.get('reversed'):
        br.append('sess:reversed')
    if any(c.get('gen') == 'loo_rdm' for c in calls):
        br.append('sess:cv-loo-rdm')
    if any(v is None for v in case['rows'][0]):
        br.append('sess:nan-common')
    if case.get('layout'):
        br.append('layout:' + case['layout'])
    if case.get('scale') in ('tiny', 'huge', 'mixed'):
        br.append('scale:' + case['scale'])
    if impl and any('exc' in c for c in impl['calls']):
        br.append('exc:session')
    return {'kind': 'session', 'method': ms[-1], 'n_rdm': len(case['rows']), 'n_cond': case['n'],
            'n_calls': len(calls), 'fns': '+'.join(c['fn'] for c in calls), 'layout': case.get('layout'),
            'scale': case.get('scale'), 'sensitive': O.order_sensitive(ms), 'branches': br}


def _session_ok(case):
    """every call of the session is well conditioned on the pristine data"""
    rows = case['rows']
    if len(rows) < 2 or not case.get('calls') or not O.common_mask(rows):
        return False
    if len(set(case['rdesc'])) < 2:
        return False
    for c in case['calls']:
        m = c['method']
        cm = m if m in TOL else 'rho-a'
        if c['fn'] == 'cv':
            if not _cv_ok(_cv_view(case, dict(c, method=cm))):
                return False
        else:
            rd = list(range(len(rows))) if c['fn'] == 'evalfixed' else case['rdesc']
            if not _well_conditioned(dict(case, method=cm, rdesc=rd)):
                return False
            if c['fn'] == 'evalfixed' and (len(c['cand']) != len(rows[0])
                                           or O.mask_of(c['cand']) != O.mask_of(rows[0])
                                           or len(set(O.dense(c['cand']))) < 2):
                return False
    return True


def _gen_call(rng, case, fn, m):
    c = {'fn': fn, 'method': m}
    if fn == 'cv':
        if rng.random() < 0.5:
            c['gen'] = 'loo_rdm'
        else:
            vals = sorted(set(case['rdesc']))
            kr = rng.randint(2, len(vals))
            c['folds'] = [{'rtrain': [v for v in vals if v not in rt], 'rtest': rt, 'ptest': None}
                          for rt in _split(rng, vals, kr)]
    elif fn == 'evalfixed':
        c['cand'] = rng.choice(_cands(rng, dict(case, method=m if m in TOL else 'cosine')))
    return c


def gen_session(rng, fns=None, methods=None, n_calls=None, layout=None, scale=None, groups=None):
    """one object, 2-4 calls with different methods; `sensitive` orders (a call after one of a coarser
    normalisation family) are what an in-place normaliser needs to show in a result"""
    for _ in range(300):
        k = n_calls or rng.choice([2, 2, 3, 4])
        nR = rng.randint(3, 6)
        n = rng.randint(5, 7)
        style = rng.choice(['ties', 'signed']) if layout == 'int' else \
            rng.choice(['ties', 'quarters', 'distinct', 'signed'])
        gk = groups or rng.choice(['singleton', 'singleton', 'singleton', 'balanced'])
        if gk == 'balanced':
            nR = rng.choice([4, 6])
        sc = 'unit' if layout == 'int' else (scale or rng.choice(SCALE_MODES))
        rows, exps = _apply_scale(rng, _stack(rng, nR, n, style, rng.random() < 0.7), sc)
        if layout != 'int' and rng.random() < 0.25:
            rows = _add_nan(rng, rows, n, 'common')
        case = {'kind': 'session', 'n': n, 'rows': rows, 'rdesc': _rdesc(rng, nR, gk), 'style': style,
                'scale': sc, 'exps': exps}
        if layout:
            case['layout'] = layout
        ms = list(methods) if methods else None
        if ms is None:
            ms = rng.sample(METHODS, min(k, len(METHODS)))
        ms = (ms * k)[:k]
        calls = []
        for i, m in enumerate(ms):
            fn = fns[i % len(fns)] if fns else rng.choice(SESSION_FNS)
            if fn == 'pool' and not methods and rng.random() < 0.35:
                m = rng.choice(POOL_ONLY)
            if fn == 'pooling' and m == 'neg_riem_dist':
                m = 'euclid'
            calls.append(_gen_call(rng, case, fn, m))
        case['calls'] = calls
        case['method'] = calls[-1]['method']
        if _session_ok(case):
            return case
    raise RuntimeError('no usable session found')


def _reversed_session(case):
    calls = list(reversed(case['calls']))
    return dict(case, calls=calls, method=calls[-1]['method'], reversed=True)


def gen_sessions(rng, tier):
    """sessions of one generation round, every one also in the reverse order"""
    out = []
    # the ceiling of one data set under two measures, every ordered pair of families over the round
    pairs = [('corr', 'cosine'), ('corr_cov', 'cosine_cov'), ('rho-a', 'corr'), ('spearman', 'cosine_cov'),
             ('cosine', 'corr_cov'), ('cosine_cov', 'rho-a')]
    rng.shuffle(pairs)
    for a, b in pairs[:4 if tier == 'quick' else 6]:
        out.append(gen_session(rng, fns=['boot'], methods=[a, b], n_calls=2))
    for a, b in pairs[:2]:
        out.append(gen_session(rng, fns=['cv'], methods=[a, b], n_calls=2))
    out.append(gen_session(rng, fns=['evalfixed', 'boot'], n_calls=2))
    out.append(gen_session(rng, fns=['pool', 'pooling', 'boot'], n_calls=3))
    out.append(gen_session(rng, fns=['pool', 'pool'], methods=[rng.choice(['cosine', 'corr', 'rho-a']), 'euclid'],
                           n_calls=2))
    out.append(gen_session(rng))
    out.append(gen_session(rng, n_calls=rng.choice([3, 4])))
    out.append(gen_session(rng, layout='int', n_calls=2, fns=['boot', rng.choice(SESSION_FNS)]))
    out.append(gen_session(rng, layout='fortran'))
    res = []
    for c in out:
        res.append(c)
        res.append(_reversed_session(c))
    return res


def _session_shrink(case, still_fails):
    """shortest failing call sequence first, then fewer RDMs / no missing entries / unit scale"""
    import time
    cur = case
    # run_check shrinks every failing case before it dedupes the findings; a mutant on which every session
    # fails would spend minutes here (each trial is a verdict in a pristine process).  The first findings are
    # shrunk fully; once the budget of the run is used up the remaining ones only lose superfluous calls.
    t0 = time.time()
    full = _SHRINK_SPENT[0] < 20.0
    o0 = oracle(case)
    if not o0:
        return case
    value = o0['features'].get('claim') != 'input-mutated'
    if not full:
        k = o0['features'].get('n_calls') or len(case['calls'])
        if k < len(case['calls']):          # the calls after the failing one are superfluous by construction
            cs = case['calls'][:k]
            return dict(case, calls=cs, method=cs[-1]['method'])
        return case

    def ok(t):
        # keep the class of the finding: a wrong result stays a wrong result (its shortest sequence has the
        # call that changed the object / the library's state and the call that then answers wrongly);
        # `oracle` judges sessions in a pristine process, as `still_fails` does
        try:
            if not _session_ok(t):
                return False
            o = oracle(t)
            return bool(o) and (o['features'].get('claim') != 'input-mutated') == value
        except Exception:  # noqa: BLE001
            return False
    changed = True
    while changed:
        changed = False
        trials = []
        if len(cur['calls']) > 1:
            for i in range(len(cur['calls'])):
                cs = cur['calls'][:i] + cur['calls'][i + 1:]
                trials.append(dict(cur, calls=cs, method=cs[-1]['method']))
        # a simpler route to the same quantity
        for i, c in enumerate(cur['calls']):
            if c['fn'] in ('cv', 'evalfixed', 'pooling'):
                cs = list(cur['calls'])
                cs[i] = {'fn': 'boot' if c['fn'] != 'pooling' else 'pool', 'method': c['method']}
                trials.append(dict(cur, calls=cs))
        if len(cur['rows']) > 2 and not any(c['fn'] == 'cv' and not c.get('gen') for c in cur['calls']):
            for i in range(len(cur['rows'])):
                t = dict(cur, rows=cur['rows'][:i] + cur['rows'][i + 1:],
                         rdesc=cur['rdesc'][:i] + cur['rdesc'][i + 1:])
                if cur.get('exps'):
                    t['exps'] = cur['exps'][:i] + cur['exps'][i + 1:]
                trials.append(t)
        if any(v is None for v in cur['rows'][0]):
            t = dict(cur, rows=[[1.0 if v is None else v for v in r] for r in cur['rows']])
            t['calls'] = [dict(c, cand=[1.0 if v is None else v for v in c['cand']]) if 'cand' in c else c
                          for c in cur['calls']]
            trials.append(t)
        if cur.get('exps') and any(cur['exps']):
            t = dict(cur, rows=[[None if v is None else v * 2.0 ** -e for v in r]
                                for r, e in zip(cur['rows'], cur['exps'])],
                     exps=[0] * len(cur['rows']), scale='unit')
            trials.append(t)
        for t in trials:
            if ok(t):
                cur = t
                changed = True
                break
    _SHRINK_SPENT[0] += time.time() - t0
    return cur


_SHRINK_SPENT = [0.0]


# ------------------------------------------------------------------ shrinking

def shrink(case, still_fails):
    if case['kind'] == 'session':
        return _session_shrink(case, still_fails)
    cur = case
    changed = True
    while changed:
        changed = False
        trials = []
        if cur.get('cands'):
            for i in range(len(cur['cands'])):
                trials.append(dict(cur, cands=cur['cands'][:i] + cur['cands'][i + 1:]))
        if cur.get('transform') and cur['kind'] == 'boot':
            trials.append({k: v for k, v in cur.items() if k != 'transform'})
        if cur['kind'] == 'boot' and len(cur['rows']) > 2:
            for i in range(len(cur['rows'])):
                t = dict(cur, rows=cur['rows'][:i] + cur['rows'][i + 1:],
                         rdesc=cur['rdesc'][:i] + cur['rdesc'][i + 1:])
                if cur.get('exps'):
                    t['exps'] = cur['exps'][:i] + cur['exps'][i + 1:]
                if cur.get('degenerate') is not None:
                    dj = cur['degenerate']
                    if dj == i:
                        t.pop('degenerate')
                    elif dj > i:
                        t['degenerate'] = dj - 1
                if cur.get('transform'):
                    t['transform'] = {k: v[:i] + v[i + 1:] for k, v in cur['transform'].items()}
                trials.append(t)
        if cur['kind'] == 'cv' and len(cur['folds']) > 1:
            for i in range(len(cur['folds'])):
                trials.append(dict(cur, folds=cur['folds'][:i] + cur['folds'][i + 1:]))
        if any(v is None for r in cur['rows'] for v in r) and O.common_mask(cur['rows']):
            filled = [[1.0 if v is None else v for v in r] for r in cur['rows']]
            t = dict(cur, rows=filled)
            if t.get('cands'):
                t['cands'] = [[1.0 if v is None else v for v in c] for c in t['cands']]
            trials.append(t)
        for t in trials:
            try:
                ok = _well_conditioned(t) and still_fails(t)
            except Exception:  # noqa: BLE001
                ok = False
            if ok:
                cur = t
                changed = True
                break
    return cur
