"""C07 — upper noise ceiling is unbeatable; lower is leave-one-out and not above it.

Engine interface (see harness/run_check.py):
  THEOREMS, LEVEL, RULE, BRANCHES, generate, run_impl, model_requests, model_result,
  compare, oracle, features, nontrivial_key, search, shrink

Case kinds
  boot   inference.boot_noise_ceiling + util.inference_util.pool_rdm (+ util.pooling.pool_rdm) on a
         stack of RDMs with a grouping rdm descriptor; candidates and an invariance transform
         travel with the case for the oracle
  cv     inference.cv_noise_ceiling on explicit (ceil_set, test_set) structures built the way the
         generators of crossvalsets.py build them (subsample by rdm descriptor values,
         subset_pattern by pattern descriptor values)
  cvgen  the same on the sets a real generator of crossvalsets.py returns under a numpy seed
         (the structure handed to the model is read back from the returned objects)
The model side is the Lean driver (ops c07.boot / c07.cv), the oracle an independent
plain-python transcription of the property (C07_oracle.py) applied to the real code's output.
"""
import math

import numpy as np

from lean import fbits, unfbits, first_diff, close
from engines import C07_oracle as O

PROPERTY = 'C07'
LEVEL = 'proof'
P = 'Rsa.Props.C07.'
THEOREMS = [P + n for n in (
    'mean_sim_eq_sim_to_pool', 'cosine_pool_optimal', 'corr_pool_optimal', 'rhoa_pool_optimal',
    'singleton_groups_spec', 'upper_attained', 'upper_unbeatable_cosine', 'upper_unbeatable_corr',
    'upper_unbeatable_rhoa',
    'loo_term_le', 'loo_term_le_whitened', 'loo_corr_term_le', 'lower_le_upper_cosine',
    'lower_le_upper_corr', 'lower_le_upper_whitened',
    'lower_excludes_left_out', 'cv_prediction_uses_ceil_only', 'cv_prediction_excludes_test',
    'cv_upper_is_full_pool_at_test',
    'ceiling_scale_invariant', 'ceiling_affine_invariant', 'ceiling_ignores_common_nan',
    'nan_mismatch_rejected', 'degenerate_rdm_contributes_nothing')]
RULE = ('one PRNG; boot: 2-6 RDMs x 4-7 conditions, values small integers (ties) / quarters / '
        'distinct dyadics / signed integers with zeros, 0-3 entries missing from all RDMs (or, malformed stream, from one RDM), '
        'grouping descriptor singleton / 2-3 groups / one group, methods cosine, corr, rho-a, '
        'cosine_cov, corr_cov, spearman; 4 candidates + the data RDMs + an invariance transform '
        '(positive rescaling per RDM, plus a shift for the correlation measures) per case; '
        'cv: explicit fold structures (rdm folds x pattern folds, rdm-only, random, '
        'leave-one-pattern-group-out) and the sets returned by the real generators under a seed; '
        'a degenerate stream puts one all-zero (cosine family) / constant (other families) RDM into the stack; '
        'stacks whose pooled prediction is numerically zero/constant are rejected at generation; '
        'a case is non-trivial when it has >= 2 RDMs, no exception and differing RDMs; distinct = '
        'distinct (kind, method, data, grouping, folds)')
BRANCHES = ['kind:boot', 'kind:cv', 'kind:cvgen',
            'm:cosine', 'm:corr', 'm:rho-a', 'm:cosine_cov', 'm:corr_cov', 'm:spearman',
            'groups:singleton', 'groups:multi', 'groups:one',
            'nan:none', 'nan:common', 'nan:mismatch', 'exc:ValueError', 'ties', 'degenerate',
            'cv:k_fold', 'cv:k_fold_rdm', 'cv:random', 'cv:loo_pattern',
            'gen:k_fold', 'gen:k_fold_rdm', 'gen:random', 'gen:loo_rdm', 'gen:loo_pattern',
            'gen:of_k_rdm', 'pdesc:group', 'cand', 'transform']
ASSUMPTIONS = [
    'no pooled prediction is numerically (but not exactly) zero or constant: the similarity of such a '
    'prediction is rounding noise on both sides (such stacks are rejected at generation, see RULE); '
    'exactly zero / constant data RDMs are generated (degenerate stream) with exactly representable values',
    'entries are missing from all RDMs at once (the property\'s domain); RDMs missing different '
    'entries are only checked to be rejected with ValueError',
    'noise ceilings never pass sigma_k: the whitened measures use V for the identity covariance']
TRUSTED_EXTRA = [
    'scipy.stats.rankdata = tie-averaged ranks (checked exactly by C03)',
    'the library\'s linear-CKA shortcut for the whitened cosine equals r1\'V^-1 r2/sqrt(..) on the '
    'kept entries (checked numerically: the model and the oracle use the V form)',
    'RDMs.subset / subsample / subset_pattern / subsample_pattern select as modelled in Rsa.Core.Folds (C05)']

METHODS = ['cosine', 'corr', 'rho-a', 'cosine_cov', 'corr_cov', 'spearman']
OPTIMAL = ('cosine', 'corr', 'rho-a')
ORDERED = ('cosine', 'corr', 'cosine_cov', 'corr_cov')
TOL = {'cosine': 1e-9, 'corr': 1e-9, 'rho-a': 1e-9, 'spearman': 1e-9,
       'cosine_cov': 1e-7, 'corr_cov': 1e-7}
COND_MIN = 1e-3


# ------------------------------------------------------------------ building inputs

def _tri(n):
    return n * (n - 1) // 2


def _np_rows(rows):
    return np.array([[np.nan if v is None else float(v) for v in r] for r in rows], dtype=float)


def _build(case, rows=None):
    from rsatoolbox.rdm import RDMs
    rows = case['rows'] if rows is None else rows
    n = case['n']
    nR = len(rows)
    pdesc = case.get('pdesc') or list(range(n))
    return RDMs(_np_rows(rows),
                rdm_descriptors={'g': list(case['rdesc']), 'uid': list(range(nR))},
                pattern_descriptors={'g': list(pdesc), 'cid': list(range(n))})


def _pname(case):
    return 'g' if case.get('pdesc') else 'index'


def _explicit_sets(case, rdms):
    """(ceil_set, test_set) from value-level folds, built as crossvalsets.py builds them"""
    pname = _pname(case)
    ceil_set, test_set = [], []
    n = case['n']
    for f in case['folds']:
        te = rdms.subsample('g', f['rtest']) if f.get('rtest') is not None else rdms
        tr = rdms.subsample('g', f['rtrain']) if f.get('rtrain') is not None else rdms
        if f.get('ptest') is not None:
            te = te.subset_pattern(pname, f['ptest'])
            tr = tr.subset_pattern(pname, f['ptest'])
            pidx = list(f['ptest'])
        else:
            pidx = np.arange(n)
        ceil_set.append([tr, pidx])
        test_set.append([te, pidx])
    return ceil_set, test_set


def _real_sets(case, rdms):
    """(ceil_set, test_set) from a real generator under the case's numpy seed"""
    from rsatoolbox.inference import crossvalsets as cvs
    g = case['gen']
    prm = case.get('params', {})
    pname = _pname(case)
    st = np.random.get_state()
    np.random.seed(case['seed'])
    try:
        if g == 'k_fold':
            _, te, ce = cvs.sets_k_fold(rdms, k_rdm=prm.get('k_rdm'), k_pattern=prm.get('k_pattern'),
                                        random=prm.get('random', True), pattern_descriptor=pname,
                                        rdm_descriptor='g')
        elif g == 'k_fold_rdm':
            _, te, ce = cvs.sets_k_fold_rdm(rdms, k_rdm=prm.get('k_rdm'),
                                            random=prm.get('random', True), rdm_descriptor='g')
        elif g == 'of_k_rdm':
            _, te, ce = cvs.sets_of_k_rdm(rdms, rdm_descriptor='g', k=prm.get('k', 1),
                                          random=prm.get('random', False))
        elif g == 'random':
            _, te, ce = cvs.sets_random(rdms, n_rdm=prm.get('n_rdm'), n_pattern=prm.get('n_pattern'),
                                        n_cv=prm.get('n_cv', 2), pattern_descriptor=pname,
                                        rdm_descriptor='g')
        elif g == 'loo_rdm':
            _, te, ce = cvs.sets_leave_one_out_rdm(rdms, 'g')
        elif g == 'loo_pattern':
            _, te, ce = cvs.sets_leave_one_out_pattern(rdms, pname)
        else:
            raise KeyError(g)
    finally:
        np.random.set_state(st)
    return ce, te


def _positions(part):
    """original RDM / condition positions an RDMs object of a set holds"""
    return [int(v) for v in part.rdm_descriptors['uid']], [int(v) for v in part.pattern_descriptors['cid']]


def _fold_positions(case):
    """[{ceil_rows, ceil_conds, test_rows, test_conds, pidx}] for cv / cvgen cases, from the
    objects the library's own selection functions return"""
    rdms = _build(case)
    ce, te = _explicit_sets(case, rdms) if case['kind'] == 'cv' else _real_sets(case, rdms)
    out = []
    for c, t in zip(ce, te):
        cr, cc = _positions(c[0])
        tr, tc = _positions(t[0])
        out.append({'ceil_rows': cr, 'ceil_conds': cc, 'test_rows': tr, 'test_conds': tc,
                    'pidx': [int(v) for v in t[1]]})
    return out


# ------------------------------------------------------------------ implementation side

def _exc(exc):
    name = type(exc).__name__
    return {'exc': name if name in ('ValueError', 'TypeError', 'AssertionError', 'KeyError',
                                    'IndexError', 'ZeroDivisionError') else 'other:' + name}


def _vec(a):
    return [None if (v is None or (isinstance(v, float) and math.isnan(v))) else float(v)
            for v in np.asarray(a, dtype=float).ravel().tolist()]


def run_impl(case):
    import warnings
    from rsatoolbox.inference.noise_ceiling import boot_noise_ceiling, cv_noise_ceiling
    from rsatoolbox.util.inference_util import pool_rdm
    from rsatoolbox.util import pooling
    m = case['method']
    with warnings.catch_warnings():
        warnings.simplefilter('ignore')
        np.seterr(all='ignore')
        rdms = _build(case)
        if case['kind'] == 'boot':
            res = {}
            try:
                res['pool'] = _vec(pool_rdm(rdms, method=m).get_vectors()[0])
                if m in OPTIMAL:
                    res['pool2'] = _vec(pooling.pool_rdm(rdms, method=m).get_vectors()[0])
            except Exception as exc:  # noqa: BLE001
                res['pool'] = _exc(exc)
            try:
                lo, up = boot_noise_ceiling(rdms, method=m, rdm_descriptor='g')
                res['lower'], res['upper'] = float(lo), float(up)
            except Exception as exc:  # noqa: BLE001
                res.update(_exc(exc))
            return res
        try:
            ce, te = _explicit_sets(case, rdms) if case['kind'] == 'cv' else _real_sets(case, rdms)
            lo, up = cv_noise_ceiling(rdms, ce, te, method=m, pattern_descriptor=_pname(case))
            return {'lower': float(lo), 'upper': float(up), 'folds': len(te)}
        except Exception as exc:  # noqa: BLE001
            return _exc(exc)


# ------------------------------------------------------------------ model side

def _rows_bits(rows):
    return [[fbits(v) for v in r] for r in rows]


def model_requests(case):
    base = {'method': case['method'], 'n': case['n'], 'rows': _rows_bits(case['rows']),
            'rdesc': list(case['rdesc'])}
    if case['kind'] == 'boot':
        return [dict(base, op='c07.boot')]
    base['pdesc'] = list(case.get('pdesc') or range(case['n']))
    if case['kind'] == 'cv':
        folds = [{'rtrain': f.get('rtrain'), 'rtest': f.get('rtest'),
                  'ptest': f['ptest'] if f.get('ptest') is not None else list(range(case['n']))}
                 for f in case['folds']]
    else:
        try:
            folds = _fold_positions(case)
        except Exception:  # noqa: BLE001  (the generator itself failed: nothing to model)
            return []
    return [dict(base, op='c07.cv', folds=folds)]


def model_result(case, answers):
    if not answers:
        return {'exc': 'generator'}
    a = answers[0]
    if isinstance(a, dict) and 'model_error' in a:
        return {'model_error': a['model_error']}
    res = {}
    if 'exc' in a:
        res['exc'] = a['exc']
    else:
        res['lower'], res['upper'] = unfbits(a['lower']), unfbits(a['upper'])
    if 'pool' in a:
        res['pool'] = [None if v is None else unfbits(v) for v in a['pool']]
    if 'folds' in a:
        res['folds'] = a['folds']
    return res


def compare(case, impl, model):
    m = case['method']
    tol = TOL[m]
    if 'model_error' in model:
        return f"model error {model['model_error']}"
    if model.get('exc') == 'generator':
        return None if 'exc' in impl else 'model has no folds but the implementation answered'
    if ('exc' in impl) != ('exc' in model):
        return f"exception: impl {impl.get('exc')} model {model.get('exc')}"
    if 'exc' in impl:
        return None if impl['exc'] == model['exc'] else f"exception {impl['exc']} != {model['exc']}"
    for k in ('lower', 'upper'):
        if not close(impl[k], model[k], rtol=tol, atol=tol):
            return f'{k}: impl {impl[k]!r} model {model[k]!r}'
    if case['kind'] == 'boot':
        if isinstance(impl.get('pool'), dict):
            return f"pool_rdm raised {impl['pool']}"
        d = first_diff(_canon_pool(m, impl['pool']), _canon_pool(m, model['pool']),
                       rtol=1e-9, atol=1e-9, path='pool')
        if d:
            return d
        if 'pool2' in impl:
            d = first_diff(_canon_pool(m, impl['pool2']), _canon_pool(m, model['pool']),
                           rtol=1e-9, atol=1e-9, path='pooling.pool_rdm')
            if d:
                return d
    return None


def _canon_pool(method, vec):
    """what of a pooled RDM matters to the measure: direction (cosine), standardised values
    (correlation), ranks (rank measures); missing entries stay None"""
    d = [v for v in vec if v is not None]
    if not d or any(isinstance(v, float) and math.isnan(v) for v in d):
        return vec
    if method in ('cosine', 'cosine_cov'):
        s = math.sqrt(sum(a * a for a in d)) or 1.0
        c = [a / s for a in d]
    elif method in ('corr', 'corr_cov'):
        mu = sum(d) / len(d)
        s = math.sqrt(sum((a - mu) ** 2 for a in d)) or 1.0
        c = [(a - mu) / s for a in d]
    else:
        # ranks of values rounded to 1e-9 of their range (rank means are multiples of 1/(2n))
        c = O.ranks([round(a, 9) for a in d])
    it = iter(c)
    return [None if v is None else next(it) for v in vec]


# ------------------------------------------------------------------ oracle

def _viol(what, observed, expected, **feat):
    return {'what': what, 'observed': observed, 'expected': expected, 'features': feat}


def _real_boot(case, rows):
    from rsatoolbox.inference.noise_ceiling import boot_noise_ceiling
    rdms = _build(case, rows)
    lo, up = boot_noise_ceiling(rdms, method=case['method'], rdm_descriptor='g')
    return float(lo), float(up)


def _real_score(case, cand):
    """mean similarity of a candidate RDM to the data RDMs, by the library's compare"""
    from rsatoolbox.rdm import RDMs
    from rsatoolbox.rdm.compare import compare as rcompare
    rdms = _build(case)
    c = RDMs(_np_rows([cand]))
    return float(np.mean(rcompare(c, rdms, method=case['method'])))


def _transformed(case):
    t = case.get('transform')
    if not t:
        return None
    rows = []
    for r, s, b in zip(case['rows'], t['scale'], t['shift']):
        rows.append([None if v is None else s * v + b for v in r])
    return rows


def oracle(case):
    import warnings
    m = case['method']
    rows, n, rdesc = case['rows'], case['n'], case['rdesc']
    tol = 10 * TOL[m]
    with warnings.catch_warnings():
        warnings.simplefilter('ignore')
        np.seterr(all='ignore')
        if not O.common_mask(rows):
            # outside the property's domain: must be rejected, never silently mis-aligned
            impl = run_impl(case)
            if impl.get('exc') != 'ValueError':
                return _viol('RDMs missing different entries are not rejected', impl, 'ValueError',
                             claim='nan-mismatch')
            return None
        impl = run_impl(case)
        if 'exc' in impl:
            try:
                want = list(O.boot_expected(m, rows, rdesc, n)) if case['kind'] == 'boot' else 'two numbers'
            except (ZeroDivisionError, ValueError):
                want = 'two numbers'
            return _viol('noise ceiling raised on a valid stack'
                         + (' (a zero / constant data RDM has similarity 0 to everything and must be '
                            'left out of the pool)' if case.get('degenerate') is not None else ''),
                         impl['exc'], want, claim='raises')
        lo, up = impl['lower'], impl['upper']
        if case['kind'] != 'boot':
            folds = _fold_positions(case)
            for f in folds:
                if set(f['ceil_rows']) & set(f['test_rows']) and len(set(rdesc)) > 1 \
                        and case.get('gen') != 'loo_pattern' and not case.get('shared_rows'):
                    return _viol('ceiling set contains test RDMs', f, 'disjoint', claim='cv-exclusion')
            elo, eup = O.cv_expected(m, rows, n, folds)
            if not close(lo, elo, rtol=tol, atol=tol):
                return _viol('cv lower bound is not the mean similarity of the test RDMs to the pooled '
                             'training RDMs at the test conditions', lo, elo, claim='cv-lower')
            if not close(up, eup, rtol=tol, atol=tol):
                return _viol('cv upper bound is not the mean similarity of the test RDMs to the pool of '
                             'all RDMs at the test conditions', up, eup, claim='cv-upper')
            return None
        groups = O.groups_of(rdesc)
        singleton = all(len(g) == 1 for g in groups)
        if singleton and len(groups) > 1:
            if m in OPTIMAL:
                sup = O.sup_mean_sim(m, [O.dense(r) for r in rows])
                if not close(up, sup, rtol=tol, atol=tol):
                    return _viol('upper bound differs from the highest achievable mean similarity',
                                 up, sup, claim='upper-sup')
                cands = list(case.get('cands', [])) + [list(r) for r in rows]
                if isinstance(impl.get('pool'), list):
                    cands.append(impl['pool'])
                for c in cands:
                    s = _real_score(case, c)
                    if s > up + tol:
                        return _viol('a candidate RDM scores above the upper noise ceiling', s, up,
                                     claim='upper-beaten')
                if isinstance(impl.get('pool'), list):
                    s = _real_score(case, impl['pool'])
                    if not close(s, up, rtol=tol, atol=tol):
                        return _viol('the pooled RDM does not attain the upper bound', s, up,
                                     claim='upper-attained')
            if m in ORDERED and lo > up + tol:
                return _viol('lower bound above upper bound', lo, up, claim='order')
        tr = _transformed(case)
        if tr is not None and m != 'rho-a' and m != 'spearman':
            try:
                tlo, tup = _real_boot(case, tr)
            except Exception as exc:  # noqa: BLE001
                return _viol('noise ceiling raised on the rescaled stack', type(exc).__name__, (lo, up),
                             claim='invariance')
            if not (close(tlo, lo, rtol=tol, atol=tol) and close(tup, up, rtol=tol, atol=tol)):
                return _viol('bounds change when single data RDMs are rescaled'
                             + (' / shifted' if m in ('corr', 'corr_cov') else ''), (tlo, tup), (lo, up),
                             claim='invariance')
        elo, eup = O.boot_expected(m, rows, rdesc, n)
        if not close(lo, elo, rtol=tol, atol=tol):
            return _viol('lower bound is not the leave-one-group-out average (prediction from the '
                         'remaining groups only)', lo, elo, claim='lower-loo')
        if not close(up, eup, rtol=tol, atol=tol):
            return _viol('upper bound is not the mean similarity of the pooled RDM', up, eup,
                         claim='upper-pool')
    return None


# ------------------------------------------------------------------ features

def _has_ties(rows):
    for r in rows:
        d = [v for v in r if v is not None]
        if len(set(d)) < len(d):
            return True
    return False


def features(case, impl):
    rows = case['rows']
    groups = O.groups_of(case['rdesc'])
    if len(groups) == 1:
        gk = 'one'
    elif all(len(g) == 1 for g in groups):
        gk = 'singleton'
    else:
        gk = 'multi'
    if not O.common_mask(rows):
        nk = 'mismatch'
    elif any(v is None for v in rows[0]):
        nk = 'common'
    else:
        nk = 'none'
    br = ['kind:' + case['kind'], 'm:' + case['method'], 'groups:' + gk, 'nan:' + nk]
    if _has_ties(rows):
        br.append('ties')
    if case['kind'] == 'cv':
        br.append('cv:' + case.get('shape', '?'))
    if case['kind'] == 'cvgen':
        br.append('gen:' + case['gen'])
    if case.get('pdesc'):
        br.append('pdesc:group')
    if case.get('cands'):
        br.append('cand')
    if case.get('transform'):
        br.append('transform')
    if case.get('degenerate') is not None:
        br.append('degenerate')
    if impl and 'exc' in impl:
        br.append('exc:' + str(impl['exc']))
    return {'kind': case['kind'], 'method': case['method'], 'n_rdm': len(rows), 'n_cond': case['n'],
            'groups': gk, 'nan': nk, 'style': case.get('style'), 'gen': case.get('gen'),
            'degenerate': case.get('degenerate') is not None,
            'shape': case.get('shape'), 'branches': br}


def nontrivial_key(case, impl):
    if impl is None or 'exc' in impl or len(case['rows']) < 2:
        return None
    if all(r == case['rows'][0] for r in case['rows']):
        return None
    return [case['kind'], case['method'], case['rows'], case['rdesc'], case.get('pdesc'),
            case.get('folds'), case.get('gen'), case.get('params'), case.get('seed')]


# ------------------------------------------------------------------ generation

def _values(rng, style, p):
    if style == 'ties':
        return [float(rng.randint(1, 6)) for _ in range(p)]
    if style == 'quarters':
        return [rng.randint(1, 40) / 4 for _ in range(p)]
    if style == 'signed':
        return [float(rng.randint(-3, 6)) for _ in range(p)]
    return [rng.randint(1, 4095) / 64 for _ in range(p)]


def _stack(rng, nR, n, style, correlated):
    p = _tri(n)
    base = _values(rng, style, p)
    rows = []
    for _ in range(nR):
        r = _values(rng, style, p)
        if correlated:
            r = [a + b for a, b in zip(r, base)]
        rows.append(r)
    return rows


def _rdesc(rng, nR, kind):
    if kind == 'singleton':
        vals = rng.sample(range(1, 20), nR)
        return vals
    if kind == 'one':
        return [3] * nR
    k = rng.randint(2, max(2, min(3, nR - 1)))
    while True:
        g = [rng.randint(0, k - 1) for _ in range(nR)]
        if len(set(g)) == k and len(set(g)) < nR:
            return [5 + 2 * v for v in g]


def _well_conditioned(case):
    rows = case['rows']
    if not O.common_mask(rows):
        return True
    for j, r in enumerate(rows):
        d = O.dense(r)
        if len(d) < 3:
            return False
        if len(set(d)) < 2 and j != case.get('degenerate'):
            return False
    try:
        return O.conditioning(case['method'], rows, case['rdesc']) > COND_MIN
    except (ZeroDivisionError, ValueError):
        return False


def _cands(rng, case):
    rows, m = case['rows'], case['method']
    keep = O.mask_of(rows[0])
    d = [O.dense(r) for r in rows]
    p = len(d[0])
    pool = O.pool(m, d)
    scale = max(abs(a) for a in pool) or 1.0
    out = [[rng.randint(0, 64) / 8 for _ in range(p)],
           [a + scale * rng.randint(-8, 8) / 64 for a in pool],
           [a + scale * rng.randint(-1, 1) / 256 for a in pool],
           [a + b for a, b in zip(d[0], d[-1])]]
    res = []
    for c in out:
        if len(set(c)) < 2:
            c[0] += 1.0
        it = iter(c)
        res.append([next(it) if k else None for k in keep])
    return res


def _transform(rng, case):
    nR = len(case['rows'])
    scale = [rng.choice([0.25, 0.5, 2.0, 3.0, 1.5, 8.0]) for _ in range(nR)]
    if case['method'] in ('corr', 'corr_cov'):
        shift = [rng.choice([0.0, 1.0, -0.5, 4.0, 16.0]) for _ in range(nR)]
    else:
        shift = [0.0] * nR
    return {'scale': scale, 'shift': shift}


def _add_nan(rng, rows, n, how):
    p = _tri(n)
    if how == 'common':
        idx = rng.sample(range(p), rng.randint(1, min(3, p - 4)))
        return [[None if k in idx else v for k, v in enumerate(r)] for r in rows]
    if how == 'mismatch':
        j = rng.randrange(len(rows))
        k = rng.randrange(p)
        return [[None if (i == j and q == k) else v for q, v in enumerate(r)] for i, r in enumerate(rows)]
    return rows


def gen_boot(rng, method=None, groups=None, nan=None, big=False, degenerate=False):
    for _ in range(200):
        m = method or rng.choice(METHODS)
        nR = rng.randint(2, 7 if big else 6)
        n = rng.randint(4, 8 if big else 7)
        style = rng.choice(['ties', 'quarters', 'distinct', 'signed'])
        gk = groups or rng.choice(['singleton', 'singleton', 'multi', 'one'])
        if gk == 'multi' and nR < 3:
            nR = 3
        nk = nan or rng.choice(['none', 'none', 'common'])
        rows = _stack(rng, nR, n, style, rng.random() < 0.6)
        case = {'kind': 'boot', 'method': m, 'n': n, 'rdesc': _rdesc(rng, nR, gk), 'style': style}
        if degenerate:
            # one data RDM is all zero (cosine family) / constant (correlation and rank families)
            j = rng.randrange(nR)
            v = 0.0 if m in ('cosine', 'cosine_cov') else float(rng.randint(0, 5))
            rows[j] = [v] * _tri(n)
            case['degenerate'] = j
        rows = _add_nan(rng, rows, n, nk)
        case['rows'] = rows
        if not _well_conditioned(case):
            continue
        if nk != 'mismatch':
            case['cands'] = _cands(rng, case)
            case['transform'] = _transform(rng, case)
        return case
    raise RuntimeError('no well-conditioned stack found')


def _split(rng, vals, k):
    vals = list(vals)
    rng.shuffle(vals)
    return [vals[i::k] for i in range(k)]


def gen_cv(rng, method=None, shape=None):
    for _ in range(200):
        m = method or rng.choice(METHODS)
        shape_ = shape or rng.choice(['k_fold', 'k_fold_rdm', 'random', 'loo_pattern'])
        nR = rng.randint(3, 6)
        n = rng.randint(5, 8)
        style = rng.choice(['ties', 'quarters', 'distinct', 'signed'])
        grouped_r = rng.random() < 0.4 and nR >= 4
        rdesc = _rdesc(rng, nR, 'multi') if grouped_r else _rdesc(rng, nR, 'singleton')
        pdesc = None
        if shape_ == 'loo_pattern' or (shape_ != 'k_fold_rdm' and rng.random() < 0.3):
            k = rng.randint(2, 3) if n >= 6 else 2
            while True:
                g = [rng.randint(0, k - 1) for _ in range(n)]
                if all(g.count(v) >= 2 for v in range(k)):
                    break
            pdesc = [10 + v for v in g]
        rvals = sorted(set(rdesc))
        pvals = sorted(set(pdesc)) if pdesc else list(range(n))
        folds = []
        if shape_ == 'k_fold':
            kr = rng.randint(2, len(rvals))
            for rt in _split(rng, rvals, kr):
                kp = 2
                parts = _split(rng, pvals, kp)
                if pdesc is None and any(len(q) < 3 for q in parts):
                    parts = [pvals[:len(pvals) // 2], pvals[len(pvals) // 2:]]
                for pt in parts:
                    folds.append({'rtrain': [v for v in rvals if v not in rt], 'rtest': rt,
                                  'ptest': sorted(pt) if rng.random() < 0.5 else pt})
        elif shape_ == 'k_fold_rdm':
            kr = rng.randint(2, len(rvals))
            for rt in _split(rng, rvals, kr):
                folds.append({'rtrain': [v for v in rvals if v not in rt], 'rtest': rt, 'ptest': None})
        elif shape_ == 'random':
            for _c in range(rng.randint(1, 3)):
                rv = list(rvals)
                rng.shuffle(rv)
                pv = list(pvals)
                rng.shuffle(pv)
                nr = rng.randint(1, len(rv) - 1)
                npat = rng.randint(3 if pdesc is None else 1, len(pv) - 1)
                folds.append({'rtrain': rv[nr:], 'rtest': rv[:nr], 'ptest': pv[:npat]})
        else:  # leave one pattern group out: all RDMs on both sides
            for v in pvals:
                folds.append({'rtrain': None, 'rtest': None, 'ptest': [v]})
        nk = rng.choice(['none', 'none', 'common'])
        rows = _add_nan(rng, _stack(rng, nR, n, style, rng.random() < 0.6), n, nk)
        case = {'kind': 'cv', 'method': m, 'n': n, 'rows': rows, 'rdesc': rdesc, 'style': style,
                'shape': shape_, 'folds': folds}
        if pdesc:
            case['pdesc'] = pdesc
        if shape_ == 'loo_pattern':
            case['shared_rows'] = True
        if _cv_ok(case):
            return case
    raise RuntimeError('no usable cv case found')


def gen_cvgen(rng, method=None, gen=None):
    for _ in range(200):
        m = method or rng.choice(METHODS)
        g = gen or rng.choice(['k_fold', 'k_fold_rdm', 'random', 'loo_rdm', 'loo_pattern', 'of_k_rdm'])
        nR = rng.randint(4, 7)
        n = rng.randint(6, 9)
        style = rng.choice(['ties', 'quarters', 'distinct', 'signed'])
        rdesc = _rdesc(rng, nR, 'multi') if (rng.random() < 0.3 and g != 'of_k_rdm') else _rdesc(rng, nR, 'singleton')
        pdesc = None
        if g == 'loo_pattern' or (g in ('k_fold', 'random') and rng.random() < 0.3):
            k = 3 if g != 'loo_pattern' else rng.randint(2, 3)
            while True:
                gg = [rng.randint(0, k - 1) for _ in range(n)]
                if all(gg.count(v) >= 2 for v in range(k)):
                    break
            pdesc = [10 + v for v in gg]
        prm = {}
        ng = len(set(rdesc))
        if g == 'k_fold':
            prm = {'k_rdm': rng.randint(2, min(3, ng)), 'k_pattern': 2, 'random': rng.random() < 0.7}
        elif g == 'k_fold_rdm':
            prm = {'k_rdm': rng.randint(2, ng), 'random': rng.random() < 0.7}
        elif g == 'of_k_rdm':
            prm = {'k': rng.randint(1, ng // 2), 'random': rng.random() < 0.5}
        elif g == 'random':
            prm = {'n_rdm': rng.randint(1, ng - 1), 'n_pattern': (rng.randint(1, 2) if pdesc else rng.randint(3, n - 3)),
                   'n_cv': rng.randint(1, 3)}
        nk = rng.choice(['none', 'none', 'common'])
        rows = _add_nan(rng, _stack(rng, nR, n, style, rng.random() < 0.6), n, nk)
        case = {'kind': 'cvgen', 'method': m, 'n': n, 'rows': rows, 'rdesc': rdesc, 'style': style,
                'gen': g, 'params': prm, 'seed': rng.randint(0, 2 ** 31 - 1)}
        if pdesc:
            case['pdesc'] = pdesc
        if g == 'loo_pattern':
            case['shared_rows'] = True
        if _cv_ok(case):
            return case
    raise RuntimeError('no usable cvgen case found')


def _cv_ok(case):
    """every comparison of the case is well conditioned (no constant / tiny test or pooled RDM)"""
    import warnings
    try:
        with warnings.catch_warnings():
            warnings.simplefilter('ignore')
            folds = _fold_positions(case)
    except Exception:  # noqa: BLE001
        return False
    rows, n, m = case['rows'], case['n'], case['method']
    if not _well_conditioned(dict(case, rdesc=list(range(len(rows))))):
        return False
    for f in folds:
        conds = sorted(f['test_conds'])
        if len(conds) < 3 or not f['ceil_rows'] or not f['test_rows']:
            return False
        test = [O.dense(O.sub_rdm(n, rows[j], conds)) for j in f['test_rows']]
        train = [O.dense(O.sub_rdm(n, rows[j], conds)) for j in f['ceil_rows']]
        for r in test + train:
            if len(r) < 3 or len(set(r)) < 2:
                return False
        sub = {'method': m, 'rows': [[v for v in r] for r in train], 'rdesc': [0] * len(train)}
        try:
            if O.conditioning(m, sub['rows'], sub['rdesc']) < COND_MIN:
                return False
            full = O.pool(m, [O.dense(r) for r in rows])
            it = iter(full)
            full_o = [next(it) if kp else None for kp in O.mask_of(rows[0])]
            pt = O.dense(O.sub_rdm(n, full_o, conds))
            c = pt if m in ('cosine', 'cosine_cov') else O.center(pt)
            if math.sqrt(O.mean([a * a for a in c])) < COND_MIN * (math.sqrt(O.mean([a * a for a in full])) or 1):
                return False
        except (ZeroDivisionError, ValueError):
            return False
    return True


def generate(rng, tier):
    reps = 3 if tier == 'quick' else 80
    for _ in range(reps):
        # boot: every method x grouping x nan status
        for m in METHODS:
            for gk in ('singleton', 'singleton', 'multi', 'one'):
                for nk in ('none', 'common'):
                    yield gen_boot(rng, m, gk, nk, big=(tier != 'quick'))
            yield gen_boot(rng, m, None, 'mismatch')
        for _k in range(12):
            yield gen_boot(rng)
        for m in METHODS:
            for gk in ('singleton', 'multi'):
                yield gen_boot(rng, m, gk, None, degenerate=True)
        for m in METHODS:
            for shape in ('k_fold', 'k_fold_rdm', 'random', 'loo_pattern'):
                yield gen_cv(rng, m, shape)
        for g in ('k_fold', 'k_fold_rdm', 'random', 'loo_rdm', 'loo_pattern', 'of_k_rdm'):
            for m in rng.sample(METHODS, 3):
                yield gen_cvgen(rng, m, g)


def search(rng, tier):
    while True:
        r = rng.random()
        if r < 0.6:
            yield gen_boot(rng)
        elif r < 0.8:
            yield gen_cv(rng)
        else:
            yield gen_cvgen(rng)


# ------------------------------------------------------------------ shrinking

def shrink(case, still_fails):
    cur = case
    changed = True
    while changed:
        changed = False
        trials = []
        if cur.get('cands'):
            for i in range(len(cur['cands'])):
                trials.append(dict(cur, cands=cur['cands'][:i] + cur['cands'][i + 1:]))
        if cur.get('transform') and cur['kind'] == 'boot':
            trials.append({k: v for k, v in cur.items() if k != 'transform'})
        if cur['kind'] == 'boot' and len(cur['rows']) > 2:
            for i in range(len(cur['rows'])):
                t = dict(cur, rows=cur['rows'][:i] + cur['rows'][i + 1:],
                         rdesc=cur['rdesc'][:i] + cur['rdesc'][i + 1:])
                if cur.get('degenerate') is not None:
                    dj = cur['degenerate']
                    if dj == i:
                        t.pop('degenerate')
                    elif dj > i:
                        t['degenerate'] = dj - 1
                if cur.get('transform'):
                    t['transform'] = {k: v[:i] + v[i + 1:] for k, v in cur['transform'].items()}
                trials.append(t)
        if cur['kind'] == 'cv' and len(cur['folds']) > 1:
            for i in range(len(cur['folds'])):
                trials.append(dict(cur, folds=cur['folds'][:i] + cur['folds'][i + 1:]))
        if any(v is None for r in cur['rows'] for v in r) and O.common_mask(cur['rows']):
            filled = [[1.0 if v is None else v for v in r] for r in cur['rows']]
            t = dict(cur, rows=filled)
            if t.get('cands'):
                t['cands'] = [[1.0 if v is None else v for v in c] for c in t['cands']]
            trials.append(t)
        for t in trials:
            try:
                ok = _well_conditioned(t) and still_fails(t)
            except Exception:  # noqa: BLE001
                ok = False
            if ok:
                cur = t
                changed = True
                break
    return cur
