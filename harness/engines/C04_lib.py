"""C04 engine library, part 1: building the inputs of a case, the taps, the observed run of the
real routine and the canonical form of a Result.  (Parts 2-4 are appended modules
C04_model / C04_plain / C04_gen imported at the end.)"""
import copy
import json
import zlib
import math
import warnings

import numpy as np

import lean

from rsatoolbox.rdm import RDMs
from rsatoolbox.model import ModelFixed, ModelWeighted, ModelSelect, ModelInterpolate
from rsatoolbox.model import fitter as FIT
from rsatoolbox.inference import evaluate as E
from rsatoolbox.inference import boot_testset as BT
from rsatoolbox.inference import crossvalsets as CVS
from rsatoolbox.inference import noise_ceiling as NC

SCALE = 8.0
BIG = 10 ** 6


# ------------------------------------------------------------------ context of a case

class Ctx:
    """names and code maps of the grouping descriptors of a case"""

    def __init__(self, case):
        self.n_rdm = len(case['vecs'])
        self.n_cond = case['n_cond']
        rg, pg = case.get('rdm_groups'), case.get('pat_groups')
        self.rd = 'subj' if rg is not None else 'index'
        self.pd = 'cat' if pg is not None else 'index'
        self.rvals = list(rg) if rg is not None else list(range(self.n_rdm))
        self.pvals = list(pg) if pg is not None else list(range(self.n_cond))
        self.rcode = {norm(v): k for k, v in enumerate(np.unique(np.array(self.rvals)))}
        self.pcode = {norm(v): k for k, v in enumerate(np.unique(np.array(self.pvals)))}
        self.rdesc = [self.rcode[norm(v)] for v in self.rvals]
        self.pdesc = [self.pcode[norm(v)] for v in self.pvals]

    def rcodes(self, vals, name=None):
        if name is not None and name != self.rd:
            return [int(v) if isinstance(norm(v), int) else BIG for v in vals]
        return [self.rcode.get(norm(v), BIG) for v in vals]

    def pcodes(self, vals):
        return [self.pcode.get(norm(v), BIG) for v in vals]


def norm(x):
    if isinstance(x, np.ndarray) and x.ndim == 0:
        x = x.item()
    if isinstance(x, (np.integer,)):
        return int(x)
    if isinstance(x, (np.str_, str)):
        return str(x)
    if isinstance(x, (bool, np.bool_)):
        return int(x)
    if isinstance(x, (float, np.floating)) and float(x) == int(x):
        return int(x)
    return x


def data_array(case):
    return np.array(case['vecs'], dtype=float) / SCALE


def as_descriptor(vals, form):
    """the container / dtype a grouping descriptor is handed over in"""
    if form == 'array':
        return np.array(vals)
    if form == 'int64' and all(isinstance(v, int) and not isinstance(v, bool) for v in vals):
        return np.array(vals, dtype=np.int64)
    if form == 'float' and all(isinstance(v, (int, float)) and not isinstance(v, bool) for v in vals):
        return np.array(vals, dtype=float)
    if form == 'tuple':
        return tuple(vals)
    return list(vals)


def build_data(case):
    ctx = Ctx(case)
    form = case.get('desc_form', 'list')
    rd = {} if case.get('rdm_groups') is None else {ctx.rd: as_descriptor(case['rdm_groups'], form)}
    pd = {} if case.get('pat_groups') is None else {ctx.pd: as_descriptor(case['pat_groups'], form)}
    return RDMs(data_array(case), dissimilarity_measure='test', rdm_descriptors=rd,
                pattern_descriptors=pd)


def build_models(case):
    ctx = Ctx(case)
    out = []
    for k, m in enumerate(case['models']):
        pd = {} if case.get('pat_groups') is None else \
            {ctx.pd: as_descriptor(case['pat_groups'], case.get('desc_form', 'list'))}
        base = RDMs(np.array(m['vecs'], dtype=float) / SCALE, pattern_descriptors=pd)
        cls = {'fixed': ModelFixed, 'weighted': ModelWeighted, 'select': ModelSelect,
               'interpolate': ModelInterpolate}[m['type']]
        out.append(cls(f'm{k}', base))
    return out


def base_fitter(case, model):
    name = case.get('fitter') or 'default'
    if name == 'regress' and isinstance(model, ModelWeighted):
        return FIT.fit_regress
    if name == 'regress_nn' and isinstance(model, ModelWeighted):
        return FIT.fit_regress_nn
    return model.default_fitter


def thetas(case, models):
    if case.get('theta') is None:
        return None
    return [None if t is None else (int(t) if isinstance(t, int) else np.array(t, dtype=float))
            for t in case['theta']]


# ------------------------------------------------------------------ content keys

def hexvec(v):
    return [None if math.isnan(x) else lean.fbits(x) for x in np.asarray(v, dtype=float).ravel()]


def content(obj, ctx, rname=None):
    """what a callee sees of an RDMs object: dissimilarity bits, group codes on both axes"""
    try:
        rvals = obj.rdm_descriptors[rname or ctx.rd]
        rdesc = ctx.rcodes(rvals, rname or ctx.rd)
    except KeyError:
        rdesc = [BIG]
    try:
        pdesc = ctx.pcodes(obj.pattern_descriptors[ctx.pd])
    except KeyError:
        pdesc = [BIG]
    return {'vecs': [hexvec(r) for r in np.asarray(obj.dissimilarities, dtype=float)],
            'rdesc': rdesc, 'pdesc': pdesc}


def piece(entry, ctx):
    return {'obj': content(entry[0], ctx), 'pidx': ctx.pcodes(list(entry[1]))}


def key(x):
    return json.dumps(x, sort_keys=True)


# ------------------------------------------------------------------ taps

class RngTap:
    """records np.random.randint / np.random.shuffle; optionally plays a script of outcomes"""

    def __init__(self, script=None):
        self.log = []
        self.script = list(script) if script else None
        self.o_randint = np.random.randint
        self.o_shuffle = np.random.shuffle

    def randint(self, low, high=None, size=None, dtype=int):
        if high is None:
            low, high = 0, low
        out = None
        if self.script:
            s = self.script[0]
            n = size if isinstance(size, (int, np.integer)) else None
            if s[0] == 'randint' and n == len(s[1]) and all(low <= d < high for d in s[1]):
                out = np.array(self.script.pop(0)[1], dtype=int)
        if out is None:
            out = self.o_randint(low, high, size=size)
        self.log.append(('randint', [int(d) for d in np.ravel(out)], int(low), int(high)))
        return out

    def shuffle(self, x):
        done = False
        if self.script:
            s = self.script[0]
            if s[0] == 'shuffle' and sorted(map(norm, s[1])) == sorted(map(norm, list(x))):
                x[:] = self.script.pop(0)[1]
                done = True
        if not done:
            self.o_shuffle(x)
        self.log.append(('shuffle', [norm(v) for v in list(x)]))

    def __enter__(self):
        np.random.randint = self.randint
        np.random.shuffle = self.shuffle
        return self

    def __exit__(self, *a):
        np.random.randint = self.o_randint
        np.random.shuffle = self.o_shuffle


class CallTap:
    """wrapping fitters and recording noise-ceiling functions"""

    def __init__(self, case, ctx, models):
        self.ctx = ctx
        self.fits = []
        self.ncs = []
        self.o_boot = E.boot_noise_ceiling
        self.o_cv = E.cv_noise_ceiling
        self.fitters = [self._wrap(j, base_fitter(case, m)) for j, m in enumerate(models)]

    def _wrap(self, j, base):
        """the fitter handed to the routines: the real fitter made a deterministic function of its
        arguments (its own random restarts are seeded from the argument content and the global
        generator state is restored), recording arguments and result; a fitter that raises on a
        degenerate training set is replaced by the all-zero parameter vector (recorded as such)"""
        def fit(model, data, method='cosine', pattern_idx=None, pattern_descriptor=None, **kw):
            pidx = [] if pattern_idx is None else list(pattern_idx)
            rec = {'j': j, 'obj': content(data, self.ctx), 'pidx': self.ctx.pcodes(pidx),
                   'pd': pattern_descriptor, 'method': method}
            state = np.random.get_state()
            np.random.seed(zlib.crc32(key([j, rec['obj'], rec['pidx']]).encode()))
            try:
                theta = base(model, data, method=method, pattern_idx=pattern_idx,
                             pattern_descriptor=pattern_descriptor, **kw)
            except Exception:  # noqa: BLE001
                theta = 0 if isinstance(model, ModelSelect) else np.zeros(model.n_param)
                rec['fitter_failed'] = True
            finally:
                np.random.set_state(state)
            rec['pred'] = [lean.fbits(x) for x in np.ravel(model.predict(theta))]
            if not rec.get('fitter_failed'):
                try:
                    rec['opt'] = train_optimality(base, model, data, method, pattern_idx,
                                                  pattern_descriptor, theta, rec, j)
                except Exception:  # noqa: BLE001  (diagnostic only; never affects the run)
                    pass
            self.fits.append(rec)
            return theta
        return fit

    def boot(self, rdms, method='cosine', rdm_descriptor='index'):
        rec = {'kind': 'boot', 'obj': content(rdms, self.ctx, rdm_descriptor), 'method': method}
        try:
            val = self.o_boot(rdms, method=method, rdm_descriptor=rdm_descriptor)
        except Exception:  # noqa: BLE001  degenerate object for the ceiling (C07): NaN ceiling
            val = (np.nan, np.nan)
            rec['nc_failed'] = True
        rec['val'] = [lean.fbits(val[0]), lean.fbits(val[1])]
        self.ncs.append(rec)
        return val

    def cv(self, rdms, ceil_set, test_set, method='cosine', pattern_descriptor='index'):
        rec = {'kind': 'cv', 'whole': content(rdms, self.ctx),
               'ceil': [piece(e, self.ctx) for e in ceil_set],
               'test': [piece(e, self.ctx) for e in test_set], 'method': method,
               'pd': pattern_descriptor}
        try:
            val = self.o_cv(rdms, ceil_set, test_set, method=method,
                            pattern_descriptor=pattern_descriptor)
        except Exception:  # noqa: BLE001
            val = (np.nan, np.nan)
            rec['nc_failed'] = True
        rec['val'] = [lean.fbits(val[0]), lean.fbits(val[1])]
        self.ncs.append(rec)
        return val

    def result(self, *a, **kw):
        """records the keyword arguments of the evaluator's own `Result(...)` call"""
        self.result_kw.append({'n_rdm': kw.get('n_rdm'), 'n_pattern': kw.get('n_pattern'),
                               'has_variances': kw.get('variances') is not None,
                               'cv_method': kw.get('cv_method')})
        return self.o_result(*a, **kw)

    def __enter__(self):
        self.result_kw = []
        self.o_result = E.Result
        E.boot_noise_ceiling = self.boot
        E.cv_noise_ceiling = self.cv
        E.Result = self.result
        return self

    def __exit__(self, *a):
        E.boot_noise_ceiling = self.o_boot
        E.cv_noise_ceiling = self.o_cv
        E.Result = self.o_result


def train_criterion(model, data, method, pattern_idx, pattern_descriptor, theta):
    """what every fitter maximises: mean similarity of the prediction at `theta`, restricted to the
    training pattern indices, with the training RDMs (the *training view* only)"""
    from rsatoolbox.rdm import compare
    pred = model.predict_rdm(theta)
    if not (pattern_idx is None or pattern_descriptor is None):
        pred = pred.subsample_pattern(pattern_descriptor, pattern_idx)
    return float(np.mean(compare(pred, data, method=method)))


def train_optimality(base, model, data, method, pattern_idx, pattern_descriptor, theta, rec, j):
    """one-sided check of an observed fit: criterion at the returned parameters and at the
    competitors the fitter is *guaranteed* to be no worse than.
      fit_select    every candidate index (exact argmax)
      fit_optimize  its own 2 * n_param random starts (BFGS never ends above its start; the best
                    restart is returned) and, for cosine / corr (where the criterion has a single
                    maximum on the sphere: mean_i cos(p, d_i) = p/|p| . mean_i d_i/|d_i|), the
                    unit vectors and the least-squares projection of the mean normalised data
    Returns {'kind', 'crit', 'strict': [...], 'loose': [...]}."""
    name = getattr(base, '__name__', '')

    def crit(t):
        return train_criterion(model, data, method, pattern_idx, pattern_descriptor, t)
    if name == 'fit_select':
        return {'kind': 'select', 'crit': crit(int(theta)),
                'strict': [crit(k) for k in range(model.n_rdm)], 'loose': []}
    if name != 'fit_optimize':
        return None
    state = np.random.get_state()
    try:
        np.random.seed(zlib.crc32(key([j, rec['obj'], rec['pidx']]).encode()))
        starts = [np.random.rand(model.n_param) for _ in range(2 * model.n_param)]
    finally:
        np.random.set_state(state)
    out = {'kind': 'optimize', 'crit': crit(theta), 'strict': [crit(t0) for t0 in starts], 'loose': []}
    if method in ('cosine', 'corr'):
        comp = [np.eye(model.n_param)[k] for k in range(model.n_param)]
        try:
            B = model.rdm_obj
            if not (pattern_idx is None or pattern_descriptor is None):
                B = B.subsample_pattern(pattern_descriptor, pattern_idx)
            B = np.asarray(B.get_vectors(), dtype=float)
            D = np.asarray(data.get_vectors(), dtype=float)
            keep = ~np.isnan(B).any(0) & ~np.isnan(D).any(0)
            B, D = B[:, keep], D[:, keep]
            if method == 'corr':
                B = B - B.mean(1, keepdims=True)
                D = D - D.mean(1, keepdims=True)
            g = (D / np.sqrt((D ** 2).sum(1, keepdims=True))).mean(0)
            comp.append(np.linalg.lstsq(B.T, g, rcond=None)[0])
        except Exception:  # noqa: BLE001
            pass
        out['loose'] = [crit(t) for t in comp]
    return out


# ------------------------------------------------------------------ running the real routine

def num(x):
    x = float(x)
    return None if math.isnan(x) else x


def tolist(a):
    if a is None:
        return None
    a = np.asarray(a, dtype=float)
    if a.ndim == 0:
        return num(a)
    return [tolist(x) for x in a]


def ceil_given(case):
    """is a `ceil_set` (not None) handed to `crossval`?  `ceil: 'omit'` leaves the argument out
    (round 5); `sets_k_fold_pattern` itself returns `ceil_set = None`"""
    return case.get('ceil', 'gen') != 'omit' and case['gen']['kind'] != 'k_fold_pattern'


def hand_parts(case, ctx):
    """the hand-built folds of a case as position lists: per fold
    {'train': (rows, conds, pidx codes), 'test': (…), 'ceil': (…)}; the ceil set of a fold is — as
    the generators build it — the training RDMs at the test conditions"""
    out = []
    for f in case['gen']['folds']:
        trc = [c for c in range(ctx.n_cond) if ctx.pdesc[c] in f['trp']]
        tec = [c for c in range(ctx.n_cond) if ctx.pdesc[c] in f['tep']]
        out.append({'train': (sorted(f['tr']), trc, list(f['trp'])),
                    'test': (sorted(f['te']), tec, list(f['tep'])),
                    'ceil': (sorted(f['tr']), tec, list(f['tep']))})
    return out


def idx_form(vals, form):
    if form == 'tuple':
        return tuple(vals)
    if form == 'array':
        return np.array(vals)
    return list(vals)


def hand_sets(case, data, ctx):
    """train / test / ceil sets built by hand with the public selection methods of RDMs (no set
    generator involved): any RDM positions, any groups of conditions"""
    inv = {}
    for code, val in zip(ctx.pdesc, ctx.pvals):
        inv.setdefault(code, val)
    form = case['gen'].get('idx_form', 'list')

    def piece(rows, pcodes):
        vals = [inv[c] for c in pcodes]
        obj = data.subset('index', [int(r) for r in rows]).subset_pattern(ctx.pd, vals)
        return (obj, idx_form(vals, form))
    train, test, ceil = [], [], []
    for f in case['gen']['folds']:
        train.append(piece(f['tr'], f['trp']))
        test.append(piece(f['te'], f['tep']))
        ceil.append(piece(f['tr'], f['tep']))
    return train, test, ceil


def make_sets(case, data, ctx):
    g = case['gen']
    kind = g['kind']
    if kind == 'hand':
        return hand_sets(case, data, ctx)
    if kind == 'k_fold':
        return CVS.sets_k_fold(data, k_rdm=g['kr'], k_pattern=g['kp'], random=g.get('random', True),
                               pattern_descriptor=ctx.pd, rdm_descriptor=ctx.rd)
    if kind == 'k_fold_pattern':
        return CVS.sets_k_fold_pattern(data, pattern_descriptor=ctx.pd, k=g['kp'],
                                       random=g.get('random', False))
    if kind == 'k_fold_rdm':
        return CVS.sets_k_fold_rdm(data, k_rdm=g['kr'], random=g.get('random', True),
                                   rdm_descriptor=ctx.rd)
    if kind == 'loo_rdm':
        return CVS.sets_leave_one_out_rdm(data, rdm_descriptor=ctx.rd)
    if kind == 'loo_pattern':
        return CVS.sets_leave_one_out_pattern(data, ctx.pd)
    raise ValueError(kind)


def call_routine(case, data, models, ctx, tap, th=None):
    """`th`: the parameter objects to hand over (sessions reuse them); default: built from the case"""
    if th is None:
        th = thetas(case, models)
    r = case['routine']
    bt = case.get('bt', 'both')
    method = case['method']
    if r == 'fixed':
        return E.eval_fixed(models, data, theta=th, method=method)
    if r == 'bootstrap':
        kw = dict(theta=th, method=method, N=case['N'],
                  boot_noise_ceil=case['boot_nc'])
        if bt == 'both':
            return E.eval_bootstrap(models, data, pattern_descriptor=ctx.pd, rdm_descriptor=ctx.rd, **kw)
        if bt == 'pattern':
            return E.eval_bootstrap_pattern(models, data, pattern_descriptor=ctx.pd,
                                            rdm_descriptor=ctx.rd, **kw)
        return E.eval_bootstrap_rdm(models, data, rdm_descriptor=ctx.rd, **kw)
    if r == 'crossval':
        train, test, ceil = make_sets(case, data, ctx)
        calc = case.get('calc_nc', True)
        if case.get('calc_nc_form') == 'int':           # truthy / falsy non-bool arguments
            calc = int(calc)
        elif case.get('calc_nc_form') == 'np':
            calc = np.bool_(calc)
        if case.get('ceil', 'gen') == 'omit':
            # round 5: the public default — no `ceil_set` argument at all
            return E.crossval(models, data, train, test, method=method, fitter=tap.fitters,
                              pattern_descriptor=ctx.pd, calc_noise_ceil=calc)
        return E.crossval(models, data, train, test, ceil_set=ceil, method=method,
                          fitter=tap.fitters, pattern_descriptor=ctx.pd,
                          calc_noise_ceil=calc)
    if r == 'bcv':
        return E.bootstrap_crossval(models, data, method=method, fitter=tap.fitters,
                                    k_pattern=case.get('kp'), k_rdm=case.get('kr'), N=case['N'],
                                    n_cv=case['n_cv'], pattern_descriptor=ctx.pd,
                                    rdm_descriptor=ctx.rd, boot_type=bt,
                                    use_correction=case['use_correction'])
    if r == 'dual':
        return E.eval_dual_bootstrap(models, data, method=method, fitter=tap.fitters,
                                     k_pattern=case.get('kp'), k_rdm=case.get('kr'), N=case['N'],
                                     n_cv=case['n_cv'], pattern_descriptor=ctx.pd,
                                     rdm_descriptor=ctx.rd, use_correction=case['use_correction'])
    if r == 'random':
        return E.eval_dual_bootstrap_random(models, data, method=method, fitter=tap.fitters,
                                            n_pattern=case.get('np'), n_rdm=case.get('nr'), N=case['N'],
                                            n_cv=case['n_cv'], pattern_descriptor=ctx.pd,
                                            rdm_descriptor=ctx.rd, boot_type=bt,
                                            use_correction=case['use_correction'])
    if r == 'testset':
        if bt == 'both':
            return BT.bootstrap_testset(models, data, method=method, fitter=tap.fitters, N=case['N'],
                                        pattern_descriptor=ctx.pd, rdm_descriptor=ctx.rd)
        if bt == 'pattern':
            return BT.bootstrap_testset_pattern(models, data, method=method, fitter=tap.fitters,
                                                N=case['N'], pattern_descriptor=ctx.pd)
        return BT.bootstrap_testset_rdm(models, data, method=method, fitter=tap.fitters,
                                        N=case['N'], rdm_descriptor=ctx.rd)
    raise ValueError(r)


def canon_result(case, res):
    """property-relevant observables of what the routine returned"""
    if case['routine'] == 'testset':
        ev = res[0]
        out = {'evals': tolist(ev)}
        if case.get('bt', 'both') == 'both':
            out['n_rdm'], out['n_pattern'] = [int(x) for x in res[1]], [int(x) for x in res[2]]
        elif case['bt'] == 'pattern':
            out['n_pattern'] = [int(x) for x in res[1]]
        else:
            out['n_rdm'] = [int(x) for x in res[1]]
        return out
    var = res.variances
    if var is not None:
        var = np.asarray(var, dtype=float)
        if var.ndim < 2:
            var = var.reshape(1, 1) if var.size == 1 else np.atleast_2d(var)
    out = {'evals': tolist(res.evaluations), 'nc': tolist(res.noise_ceiling),
           'cov': tolist(var), 'cv_method': res.cv_method}
    if case['routine'] != 'crossval':
        out['dof'] = int(res.dof)
    out['meta'] = {'cv_method': res.cv_method,
                   'eval_shape': [int(x) for x in np.shape(res.evaluations)],
                   'nc_shape': [int(x) for x in np.shape(res.noise_ceiling)],
                   'attr_n_rdm': None if res.n_rdm is None else int(res.n_rdm),
                   'attr_n_pattern': None if res.n_pattern is None else int(res.n_pattern)}
    return out


_CACHE = {}


def observe(case, fresh=False):
    """run the real routine once under the taps; memoised"""
    k = key(case)
    if not fresh and k in _CACHE:
        return _CACHE[k]
    ctx = Ctx(case)
    out = {}
    with warnings.catch_warnings():
        warnings.simplefilter('ignore')
        try:
            data = build_data(case)
            models = build_models(case)
            np.random.seed(case['seed'])
            rng = RngTap(case.get('script'))
            tap = CallTap(case, ctx, models)
            try:
                with rng, tap:
                    res = call_routine(case, data, models, ctx, tap)
            finally:
                out['log'] = rng.log
                out['fits'] = tap.fits
                out['ncs'] = tap.ncs
            out['result'] = canon_result(case, res)
            if 'meta' in out['result'] and tap.result_kw:
                kw = tap.result_kw[-1]          # the evaluator's own call is the last one
                out['result']['meta'].update(
                    has_variances=bool(kw['has_variances']),
                    passed_n_rdm=None if kw['n_rdm'] is None else int(kw['n_rdm']),
                    passed_n_pattern=None if kw['n_pattern'] is None else int(kw['n_pattern']))
            if case.get('theta') is not None or case['routine'] in ('fixed', 'bootstrap'):
                th = thetas(case, models) or [None] * len(models)
                out['preds'] = [[lean.fbits(x) for x in np.ravel(m.predict(theta=t) if t is not None
                                                                  else m.predict())]
                                for m, t in zip(models, th)]
        except BaseException as exc:  # noqa: BLE001  (the library raises Warning objects too)
            if isinstance(exc, (KeyboardInterrupt, SystemExit)):
                raise
            name = type(exc).__name__
            tb, files = exc.__traceback__, []
            while tb is not None:
                files.append(tb.tb_frame.f_code.co_filename)
                tb = tb.tb_next
            if name == 'AssertionError' and files and files[-1].endswith('crossvalsets.py'):
                out['sets_rejected'] = True   # the set generator rejected its arguments
            out['exc'] = name if name in ('ValueError', 'TypeError', 'KeyError', 'IndexError',
                                          'AssertionError', 'Warning', 'ZeroDivisionError') \
                else 'other:' + name
            out['msg'] = str(exc)[:200]
    if not fresh:
        if len(_CACHE) > 5000:
            _CACHE.clear()
        _CACHE[k] = out
    return out


from engines.C04_model import model_request, model_canon, expected_exception, diff_results, eff  # noqa: E402,F401
from engines.C04_plain import oracle  # noqa: E402,F401
from engines.C04_gen import generate, shrink, features  # noqa: E402,F401
