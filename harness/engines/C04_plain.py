"""C04 engine library, part 4: the oracle — an independent, plain-loop transcription of the
property statement on the original arrays.

For a case it re-runs the real routine under the taps (observing the draws, the fitter calls and
nothing else), then recomputes from the *original* dissimilarity arrays, with explicit loops:
  * which RDMs / conditions every resample and every train / test fold consists of (from the
    observed draws and shuffles),
  * every stored evaluation as the mean over the resample's RDMs of the similarity between the
    prediction restricted to exactly those conditions and the data RDM restricted to them
    (prediction = recorded parameters of the fitter call that received exactly that fold's
    training set; no such call = violation),
  * NaN marks, noise ceilings (the real ceiling functions applied to independently constructed
    resample objects), dof = number of resampled groups - 1, the covariance across the usable
    resamples of the per-resample means (with the documented n_cv correction),
and finally re-runs the routine with the same seed and demands bit-identical arrays.
"""
import math
import warnings

import numpy as np

import lean
import engines.C04_lib as L
from engines.C04_model import split_log, diff_results, expected_exception, eff

from rsatoolbox.rdm import RDMs
from rsatoolbox.inference import noise_ceiling as NC

NAN = float('nan')


# ------------------------------------------------------------------ similarity, plain

def _mean(x):
    return sum(x) / len(x) if len(x) else NAN


def _cos(x, y):
    nx = math.sqrt(sum(a * a for a in x))
    ny = math.sqrt(sum(b * b for b in y))
    if not (nx > 0 and ny > 0):
        return 0.0
    return sum(a * b for a, b in zip(x, y)) / nx / ny


def _center(x):
    m = _mean(x)
    return [a - m for a in x]


def _ranks(x):
    return [sum(1 for b in x if b < a) + (sum(1 for b in x if b == a) + 1) / 2 for a in x]


def _tau_a(x, y):
    n = len(x)
    s = 0
    for i in range(n):
        for j in range(i + 1, n):
            p = (x[i] - x[j]) * (y[i] - y[j])
            s += 1 if p > 0 else (-1 if p < 0 else 0)
    return s / (n * (n - 1) / 2) if n > 1 else NAN


def similarity(method, x, y):
    if len(x) != len(y) or not x:
        return NAN
    if method == 'cosine':
        return _cos(x, y)
    if method == 'corr':
        return _cos(_center(x), _center(y))
    if method == 'spearman':
        return _cos(_center(_ranks(x)), _center(_ranks(y)))
    if method == 'rho-a':
        n = len(x)
        return sum(a * b for a, b in zip(_center(_ranks(x)), _center(_ranks(y)))) / (n ** 3 - n) * 12
    if method == 'tau-a':
        return _tau_a(x, y)
    raise ValueError(method)


# ------------------------------------------------------------------ the data, plain

class Plain:
    def __init__(self, case, obs):
        self.case = case
        self.obs = obs
        self.ctx = L.Ctx(case)
        self.method = case['method']
        self.n = case['n_cond']
        self.R = len(case['vecs'])
        self.mats = [self.square([v / L.SCALE for v in row]) for row in case['vecs']]
        self.rdesc = self.ctx.rdesc
        self.pdesc = self.ctx.pdesc if not (case['routine'] == 'testset' and case.get('bt') == 'rdm') \
            else list(range(self.n))
        self.M = len(case['models'])
        self.fits = {}
        for f in obs.get('fits', []):
            self.fits.setdefault((f['j'], L.key(f['obj']), L.key(f['pidx'])), f['pred'])
        self.problems = []

    def square(self, vec):
        m = [[NAN] * self.n for _ in range(self.n)]
        k = 0
        for i in range(self.n):
            for j in range(i + 1, self.n):
                m[i][j] = m[j][i] = vec[k]
                k += 1
        return m

    # ---- selections
    def groups_r(self):
        return sorted(set(self.rdesc))

    def groups_p(self):
        return sorted(set(self.pdesc))

    def rows_of(self, values):
        return [j for v in values for j in range(self.R) if self.rdesc[j] == v]

    def conds_of(self, values):
        return sorted(j for v in values for j in range(self.n) if self.pdesc[j] == v)

    def restricted(self, mat, conds, keep_nan=False):
        out = []
        for a in range(len(conds)):
            for b in range(a + 1, len(conds)):
                if conds[a] == conds[b]:
                    if keep_nan:
                        out.append(NAN)
                else:
                    out.append(mat[conds[a]][conds[b]])
        return out

    def content(self, rows, conds, by_index=False):
        return {'vecs': [L.hexvec(self.restricted(self.mats[r], conds, True)) for r in rows],
                'rdesc': list(rows) if by_index else [self.rdesc[r] for r in rows],
                'pdesc': [self.pdesc[c] for c in conds]}

    def rdms_object(self, rows, conds):
        """an RDMs object holding exactly (rows, conds), built with the constructor only"""
        c = self.case
        dis = np.array([self.restricted(self.mats[r], conds, True) for r in rows], dtype=float)
        dis = dis.reshape(len(rows), len(conds) * (len(conds) - 1) // 2)
        rd = {'index': np.array(rows, dtype=int)}
        pd = {'index': np.array(conds, dtype=int)}
        if c.get('rdm_groups') is not None:
            rd[self.ctx.rd] = [c['rdm_groups'][r] for r in rows]
        if c.get('pat_groups') is not None:
            pd[self.ctx.pd] = [c['pat_groups'][k] for k in conds]
        return RDMs(dis, dissimilarity_measure='test', rdm_descriptors=rd, pattern_descriptors=pd)

    def pvalues(self, codes):
        """descriptor values (as the library sees them) of pattern group codes"""
        inv = {v: k for k, v in self.ctx.pcode.items()}
        return [inv[c] for c in codes]

    # ---- evaluation
    def evaluate(self, pred_vec, rows, conds):
        pm = self.square(pred_vec)
        p = self.restricted(pm, conds)
        return _mean([similarity(self.method, p, self.restricted(self.mats[r], conds)) for r in rows])

    def fixed_preds(self):
        return [[lean.unfbits(x) for x in p] for p in self.obs.get('preds', [])]

    def fitted_pred(self, j, rows, conds, pidx, where):
        k = (j, L.key(self.content(rows, conds)), L.key(list(pidx)))
        if k not in self.fits:
            self.problems.append(f'model {j} was never fitted on exactly the training set of {where} '
                                 f'({len(rows)} RDMs, {len(conds)} conditions)')
            return None
        return [lean.unfbits(x) for x in self.fits[k]]

    def fold_eval(self, train, test, where):
        """(rows, conds, pidx) of the training and of the test set -> evaluation per model"""
        (trr, trc, tri), (ter, tec, _tei) = train, test
        if not trr or not ter or len(trc) <= 2 or len(tec) <= 2:
            return [None] * self.M
        out = []
        for j in range(self.M):
            pred = self.fitted_pred(j, trr, trc, tri, where)
            out.append(None if pred is None else self.evaluate(pred, ter, tec))
        return out

    # ---- noise ceilings through the real functions on independent objects
    def nc_boot(self, rows, conds, by):
        with warnings.catch_warnings():
            warnings.simplefilter('ignore')
            try:
                v = NC.boot_noise_ceiling(self.rdms_object(rows, conds), method=self.method,
                                          rdm_descriptor=by)
            except Exception:  # noqa: BLE001  degenerate object: the tap stores NaN as well
                v = (NAN, NAN)
        return [float(v[0]), float(v[1])]

    def nc_cv(self, rows, conds, folds):
        try:
            return self._nc_cv(rows, conds, folds)
        except AttributeError:      # an empty fold cannot be built as an RDMs object
            return [NAN, NAN]

    def _nc_cv(self, rows, conds, folds):
        whole = self.rdms_object(rows, conds)
        ceil = [[self.rdms_object(f['train'][0], f['test'][1]), self.pvalues(f['test_vals'])]
                for f in folds]
        test = [[self.rdms_object(f['test'][0], f['test'][1]), self.pvalues(f['test_vals'])]
                for f in folds]
        with warnings.catch_warnings():
            warnings.simplefilter('ignore')
            try:
                v = NC.cv_noise_ceiling(whole, ceil, test, method=self.method,
                                        pattern_descriptor=self.ctx.pd)
            except Exception:  # noqa: BLE001
                v = (NAN, NAN)
        return [float(v[0]), float(v[1])]


def uniq(x):
    return sorted(set(x))


def expand(pidx, vals):
    """the pattern indices of a fold with the multiplicity of the bootstrap draw"""
    return [p for v in vals for p in pidx if p == v]


def kfold(sel, k):
    """k groups of (almost) equal size out of the list `sel`: (train values, test values)"""
    n = len(sel)
    size, extra = n // k, n % k
    out = []
    for g in range(k):
        t = list(range(g * size, (g + 1) * size)) + ([n - (g + 1)] if g < extra else [])
        tr = t if k <= 1 else [i for i in range(n) if i not in t]
        out.append(([sel[i] for i in tr], [sel[i] for i in t]))
    return out


def sample_cov(obs, plain=False):
    """sample covariance (ddof 1) of observation vectors; NaN entries poison their variable"""
    n = len(obs)
    k = len(obs[0]) if obs else 0
    den = (n - 1) if (plain or n > 1) else 0
    cols = [[o[a] for o in obs] for a in range(k)]
    out = []
    for a in range(k):
        row = []
        for b in range(k):
            if any(x is None for x in cols[a]) or any(x is None for x in cols[b]):
                row.append(None)
                continue
            ma, mb = _mean(cols[a]), _mean(cols[b])
            s = sum((x - ma) * (y - mb) for x, y in zip(cols[a], cols[b]))
            row.append(s / den if den != 0 else NAN)
        out.append(row)
    return out


def smean(xs):
    return None if (not xs or any(x is None for x in xs)) else _mean(xs)


# ------------------------------------------------------------------ the routines, plain

def sample_views(P, case, s):
    """(rows, conds, rdm_idx, pattern_idx) of one observed bootstrap draw"""
    bt = 'both' if case['routine'] == 'dual' else case.get('bt', 'both')
    gr, gp = P.groups_r(), P.groups_p()
    ri = s['ri']
    if bt == 'both':
        ridx, pidx = [gr[d] for d in ri[0]], [gp[d] for d in ri[1]]
        return P.rows_of(ridx), P.conds_of(pidx), ridx, pidx
    if bt == 'rdm':
        ridx = [gr[d] for d in ri[0]]
        return P.rows_of(ridx), list(range(P.n)), ridx, gp
    pidx = [gp[d] for d in ri[0]]
    return list(range(P.R)), P.conds_of(pidx), gr, pidx


def folds_of(P, rows, conds, pidx, rsel, psels, kr, kp):
    """train / test sets of a k_rdm x k_pattern cross-validation of the object (rows, conds)"""
    out = []
    for g, (rtr, rte) in enumerate(kfold(rsel, kr)):
        psel = psels[g] if g < len(psels) else []
        for ptr, pte in kfold(psel, kp):
            trr = [r for v in rtr for r in rows if P.rdesc[r] == v]
            ter = [r for v in rte for r in rows if P.rdesc[r] == v]
            trc = [c for c in conds if P.pdesc[c] in ptr]
            tec = [c for c in conds if P.pdesc[c] in pte]
            tri = expand(pidx, ptr) if pidx is not None else list(ptr)
            tei = expand(pidx, pte) if pidx is not None else list(pte)
            out.append({'train': (trr, trc, tri), 'test': (ter, tec, tei), 'test_vals': list(pte)})
    return out


def internal_cv(P, rows, conds, pidx, sh, kr, kp, where):
    rsel = P.ctx.rcodes(sh[0]) if sh else []
    psels = [P.ctx.pcodes(x) for x in sh[1:]]
    folds = folds_of(P, rows, conds, pidx, rsel, psels, kr, kp)
    nc = P.nc_cv(rows, conds, folds) if (kr > 1 or kp > 1) else P.nc_boot(rows, conds, P.ctx.rd)
    evs = [P.fold_eval(f['train'], f['test'], f'{where} fold {k}') for k, f in enumerate(folds)]
    return evs, nc


def cv_cov(rows_ok, M, n_cv, corrected, plain=False):
    """rows_ok[i][rep] = (evals[fold][model], nc)"""
    def rep_obs(rep):
        return [smean([f[j] for f in rep[0]]) for j in range(M)] + list(rep[1])
    mean_obs = [[smean([rep_obs(rep)[a] for rep in reps]) for a in range(M + 2)] for reps in rows_ok]
    vm = sample_cov(mean_obs, plain) if mean_obs else [[(-0.0 if plain else None)] * (M + 2)] * (M + 2)
    if not (corrected and n_cv > 1):
        return vm
    v1s = [sample_cov([rep_obs(reps[i]) for reps in rows_ok], plain) for i in range(n_cv)]
    if not rows_ok:
        return vm
    out = []
    for a in range(M + 2):
        row = []
        for b in range(M + 2):
            xs = [v[a][b] for v in v1s]
            if vm[a][b] is None or any(x is None for x in xs):
                row.append(None)
            else:
                row.append((n_cv * vm[a][b] - _mean(xs)) / (n_cv - 1))
        out.append(row)
    return out


def none_nan(x):
    if isinstance(x, list):
        return [none_nan(y) for y in x]
    return None if (x is None or (isinstance(x, float) and math.isnan(x))) else x


def plain_result(case, obs):
    P = Plain(case, obs)
    r = case['routine']
    M = P.M
    pre, samples = split_log(case, obs['log'])
    gr, gp = len(P.groups_r()), len(P.groups_p())
    bt = case.get('bt', 'both')
    dof = {'both': min(gr, gp) - 1, 'rdm': gr - 1, 'pattern': gp - 1}['both' if r == 'dual' else bt]
    out = {}
    if r == 'fixed':
        preds = P.fixed_preds()
        ev = [[similarity(P.method, p, [v / L.SCALE for v in row]) for row in case['vecs']] for p in preds]
        out = {'evals': [ev], 'nc': P.nc_boot(list(range(P.R)), list(range(P.n)), 'index'),
               'dof': P.R - 1 if P.R > 1 else 0}
        if P.R > 1:
            cov = []
            for a in range(M):
                row = []
                for b in range(M):
                    ma, mb = _mean(ev[a]), _mean(ev[b])
                    row.append(sum((x - ma) * (y - mb) for x, y in zip(ev[a], ev[b])) / P.R / P.R)
                cov.append(row)
            out['cov'] = cov
        else:
            out['cov'] = None
    elif r == 'bootstrap':
        preds = P.fixed_preds()
        ev, ncs = [], []
        for s in samples:
            rows, conds, _ridx, pidx = sample_views(P, case, s)
            if bt == 'rdm' or len(uniq(pidx)) >= 3:
                ev.append([P.evaluate(p, rows, conds) for p in preds])
                ncs.append(P.nc_boot(rows, conds, P.ctx.rd) if case['boot_nc'] else None)
            else:
                ev.append([None] * M)
                ncs.append(None)
        ok = [i for i in range(len(ev)) if ev[i] and ev[i][0] is not None]
        if case['boot_nc']:
            out['nc'] = [[None if c is None else c[0] for c in ncs], [None if c is None else c[1] for c in ncs]]
            full = sample_cov([ev[i] + ncs[i] for i in ok]) if ok else None
        else:
            out['nc'] = P.nc_boot(list(range(P.R)), list(range(P.n)), P.ctx.rd)
            full = None
        out.update(evals=ev, dof=dof, cov=sample_cov([ev[i] for i in ok]) if not case['boot_nc'] else full)
        if full is not None:
            out['cov_with_nc'] = full
            if bt == 'rdm':
                out['cov'] = sample_cov([ev[i] for i in ok])
    elif r == 'crossval':
        g = case['gen']
        kind = g['kind']
        rows, conds = list(range(P.R)), list(range(P.n))
        ur, up = P.groups_r(), P.groups_p()
        rnd = g.get('random', kind in ('k_fold', 'k_fold_rdm'))
        if kind == 'hand':
            folds = [{'train': f['train'], 'test': f['test'], 'test_vals': list(f['test'][2])}
                     for f in L.hand_parts(case, P.ctx)]
        elif kind == 'k_fold':
            rsel = P.ctx.rcodes(pre[0]) if rnd else ur
            psels = [P.ctx.pcodes(x) for x in pre[1:]] if rnd else [up] * g['kr']
            folds = folds_of(P, rows, conds, None, rsel, psels, g['kr'], g['kp'])
        elif kind == 'k_fold_pattern':
            psel = P.ctx.pcodes(pre[0]) if rnd and pre else up
            folds = []
            for ptr, pte in kfold(psel, g['kp']):      # RDMs are not touched by this generator
                folds.append({'train': (rows, [c for c in conds if P.pdesc[c] in ptr], list(ptr)),
                              'test': (rows, [c for c in conds if P.pdesc[c] in pte], list(pte)),
                              'test_vals': list(pte)})
        elif kind == 'k_fold_rdm':
            rsel = P.ctx.rcodes(pre[0]) if rnd and pre else ur
            folds = []
            for _tr, te in kfold(rsel, g['kr']):
                ter = [r_ for v in te for r_ in rows if P.rdesc[r_] == v]
                trr = [r_ for v in rsel if v not in te for r_ in rows if P.rdesc[r_] == v]
                folds.append({'train': (trr, conds, conds), 'test': (ter, conds, conds),
                              'test_vals': conds})
        elif kind == 'loo_rdm':
            folds = []
            for v in ur:
                ter = [r_ for r_ in rows if P.rdesc[r_] == v]
                trr = [r_ for r_ in rows if P.rdesc[r_] != v] if len(ur) > 1 else ter
                folds.append({'train': (trr, conds, conds), 'test': (ter if len(ur) > 1 else rows, conds, conds),
                              'test_vals': conds})
        else:
            folds = []
            for v in up:
                tec = [c for c in conds if P.pdesc[c] == v]
                trc = [c for c in conds if P.pdesc[c] != v]
                folds.append({'train': (rows, trc, [u for u in up if u != v]), 'test': (rows, tec, [v]),
                              'test_vals': [v]})
        evs = [P.fold_eval(f['train'], f['test'], f'fold {k}') for k, f in enumerate(folds)]
        out['evals'] = [[[e[j] for e in evs] for j in range(M)]]
        if not case.get('calc_nc', True):
            out['nc'] = [None, None]
        elif not L.ceil_given(case):
            # no `ceil_set`: the documented ceiling of an evaluated fold is the one of the FULL data
            # (every RDM its own unit) restricted to the fold's test conditions — whatever RDMs the
            # test set holds; recomputed with the ceiling function on an object built here from the
            # case's numbers (all rows, the positions of the test groups)
            ncs = [P.nc_boot(rows, P.conds_of(f['test_vals']), 'index')
                   for f in folds
                   if not (not f['train'][0] or not f['test'][0]
                           or len(f['train'][1]) <= 2 or len(f['test'][1]) <= 2)]
            out['nc'] = [[c[0] for c in ncs], [c[1] for c in ncs]] if ncs else []
        else:
            out['nc'] = P.nc_cv(rows, conds, folds)
    elif r in ('bcv', 'random'):
        n_cv = case['n_cv']
        rows_all = []
        for i, s in enumerate(samples):
            rows, conds, ridx, pidx = sample_views(P, case, s)
            if r == 'bcv':
                kr, kp = eff(case)['kr'], eff(case)['kp']
                if len(uniq(ridx)) >= kr and len(uniq(pidx)) >= 3 * kp:
                    per = 1 + kr
                    reps = [internal_cv(P, rows, conds, pidx, s['sh'][c * per:(c + 1) * per], kr, kp,
                                        f'sample {i} repetition {c}') for c in range(n_cv)]
                    rows_all.append(reps)
                else:
                    rows_all.append(None)
            else:
                nr, npat = eff(case)['nr'], eff(case)['np']
                if len(uniq(ridx)) > nr and len(uniq(pidx)) >= 3 + npat:
                    folds = []
                    for c in range(n_cv):
                        rsel = P.ctx.rcodes(s['sh'][2 * c])
                        psel = P.ctx.pcodes(s['sh'][2 * c + 1])
                        rte, rtr = (rsel, rsel) if nr == 0 else (rsel[:nr], rsel[nr:])
                        pte, ptr = (psel, psel) if npat == 0 else (psel[:npat], psel[npat:])
                        folds.append({
                            'train': ([q for v in rtr for q in rows if P.rdesc[q] == v],
                                      [q for q in conds if P.pdesc[q] in ptr], expand(pidx, ptr)),
                            'test': ([q for v in rte for q in rows if P.rdesc[q] == v],
                                     [q for q in conds if P.pdesc[q] in pte], expand(pidx, pte)),
                            'test_vals': list(pte)})
                    nc = P.nc_cv(rows, conds, folds) if (nr > 0 or npat > 0) \
                        else P.nc_boot(rows, conds, P.ctx.rd)
                    rows_all.append([([P.fold_eval(f['train'], f['test'], f'sample {i} fold {c}')], nc)
                                     for c, f in enumerate(folds)])
                else:
                    rows_all.append(None)
        F = eff(case)['kr'] * eff(case)['kp'] if r == 'bcv' else 1
        ev, nc = [], [[], []]
        for row in rows_all:
            if row is None:
                ev.append([[[None] * n_cv for _ in range(F)] for _ in range(M)])
                nc[0].append([None] * n_cv)
                nc[1].append([None] * n_cv)
            else:
                ev.append([[[rep[0][f][j] for rep in row] for f in range(F)] for j in range(M)])
                nc[0].append([rep[1][0] for rep in row])
                nc[1].append([rep[1][1] for rep in row])
        ok = [row for row in rows_all if row is not None and row[0][0][0][0] is not None]
        if r == 'random':
            ev = [[mod[0] for mod in samp] for samp in ev]
        out = {'evals': ev, 'nc': nc, 'dof': dof,
               'cov': cv_cov(ok, M, n_cv, case['use_correction'])}
    elif r == 'dual':
        kr, kp = eff(case)['kr'], eff(case)['kp']
        n_cv, corr = (1, False) if (kr == 1 and kp == 1) else (case['n_cv'], case['use_correction'])
        per = 1 + kr
        allrows = []
        for i, s in enumerate(samples):
            rows, conds, ridx, pidx = sample_views(P, case, s)
            if len(uniq(ridx)) >= kr and len(uniq(pidx)) >= 3 * kp:
                variants = [(rows, conds, pidx), (rows, list(range(P.n)), P.groups_p()),
                            (list(range(P.R)), conds, pidx)]
                row = []
                for v, (vr, vc, vp) in enumerate(variants):
                    row.append([internal_cv(P, vr, vc, vp,
                                            s['sh'][(3 * c + v) * per:(3 * c + v + 1) * per], kr, kp,
                                            f'sample {i} repetition {c} variant {v}')
                                for c in range(n_cv)])
                allrows.append(row)
            else:
                allrows.append(None)
        F = kr * kp
        ev = [[[[[None if row is None else row[v][c][0][f][j] for v in range(3)] for c in range(n_cv)]
                for f in range(F)] for j in range(M)] for row in allrows]
        nc = [[[[None if row is None else row[v][c][1][b] for v in range(3)] for c in range(n_cv)]
               for row in allrows] for b in range(2)]
        ok = [row for row in allrows if row is not None and row[0][0][0][0][0] is not None]
        out = {'evals': ev, 'nc': nc, 'dof': dof,
               'cov': [cv_cov([row[v] for row in ok], M, n_cv, corr, plain=True) for v in range(3)]}
    elif r == 'testset':
        ev, nrs, nps = [], [], []
        for i, s in enumerate(samples):
            rows, conds, ridx, pidx = sample_views(P, case, s)
            r_out = [g for g in P.groups_r() if g not in ridx] if bt != 'pattern' else P.groups_r()
            p_out = [g for g in P.groups_p() if g not in pidx] if bt != 'rdm' else P.groups_p()
            usable = (bt == 'pattern' or len(r_out) >= 1) and (bt == 'rdm' or len(p_out) >= 3)
            ter = list(range(P.R)) if bt == 'pattern' else P.rows_of(r_out)
            tec = list(range(P.n)) if bt == 'rdm' else P.conds_of(p_out)
            tri = list(range(P.n)) if bt == 'rdm' else pidx
            ev.append(P.fold_eval((rows, conds, tri), (ter, tec, None), f'sample {i}')
                      if usable else [None] * M)
            nrs.append(len(r_out))
            nps.append(len(p_out))
        out = {'evals': ev}
        if bt in ('both', 'rdm'):
            out['n_rdm'] = nrs
        if bt in ('both', 'pattern'):
            out['n_pattern'] = nps
    if r in ('bootstrap', 'bcv', 'random', 'dual') and len(ok) < 2:
        out['cov'] = 'undefined'          # fewer than two usable resamples: no sample covariance
        out['n_usable'] = len(ok)
        out.pop('cov_with_nc', None)
    return none_nan(out), P.problems


def expected_rejection(case):
    """`crossval` cases: does the fold request exceed the number of groups (the set generator
    must then refuse with an AssertionError), independent of the model"""
    if case['routine'] != 'crossval':
        return False
    ctx = L.Ctx(case)
    g = case['gen']
    gr, gp = len(set(ctx.rdesc)), len(set(ctx.pdesc))
    return ('kr' in g and g['kr'] > gr) or ('kp' in g and g['kp'] > gp)


def finite_entries(x):
    if isinstance(x, list):
        return [v for y in x for v in finite_entries(y)]
    return [] if (x is None or (isinstance(x, float) and math.isnan(x))) else [x]


def check_optimality(obs):
    """every observed fit is at least as good, on its own training view, as the competitors the
    fitter is guaranteed to beat (C04_lib.train_optimality)"""
    for f in obs.get('fits', []):
        o = f.get('opt')
        if not o or o['crit'] is None or math.isnan(o['crit']):
            continue
        # round 5: only the competitors the fitter is *guaranteed* to be no worse than are judged
        # (`strict`: every candidate of fit_select; fit_optimize's own random starts — BFGS never
        # accepts an uphill step and the best restart is returned).  The `loose` competitors (unit
        # vectors, least-squares projection) are NOT guaranteed: BFGS with finite-difference
        # gradients on the scale-invariant criterion stops early now and then (observed on the
        # unchanged tree: 3 training conditions, corr, 0.09685 reached vs 0.09891 at the projection;
        # notes/C04-r5-observation-fit-optimize.json).  How close an optimiser gets is property
        # C08's subject, C04 only demands that the parameters come from the fold's training set.
        for tol, vals in ((1e-9, o['strict']),):
            for v in vals:
                if v is not None and not math.isnan(v) and o['crit'] < v - tol:
                    return (f"model {f['j']}: {o['kind']} fit reaches {o['crit']:.9g} on its training "
                            f"view, a competitor (start / candidate / projection) reaches {v:.9g}")
    return None


# ------------------------------------------------------------------ the oracle

def same(a, b):
    """bit-identical canonical results (None = NaN)"""
    return L.key(a) == L.key(b)


def oracle(case):
    if case.get('session'):
        from engines import C04_session
        return C04_session.oracle(case)
    obs = L.observe(case, fresh=True)
    return judge_call(case, obs, lambda: L.observe(case, fresh=True))


def judge_call(case, obs, rerun):
    """the property for ONE call: `obs` = what was observed under the taps, `rerun` = a function
    that repeats the call with the same seed and returns its observation (None: not repeated here)"""
    exp_exc = expected_exception(case)
    feats = {'routine': case['routine'], 'bt': case.get('bt')}
    if expected_rejection(case):
        if obs.get('exc') == 'AssertionError' and obs.get('sets_rejected'):
            return None
        return {'what': 'a fold request with more folds than groups was not refused',
                'observed': obs.get('exc', 'a result'), 'expected': 'AssertionError of the set generator',
                'features': dict(feats, kind='sets')}
    if 'exc' in obs:
        if exp_exc and obs['exc'] == exp_exc:
            return None
        return {'what': f"{case['routine']} raised instead of returning evaluations",
                'observed': f"{obs['exc']}: {obs.get('msg')}", 'expected': exp_exc or 'a result',
                'features': dict(feats, exc=obs['exc'])}
    if exp_exc:
        return {'what': 'the routine accepted an invalid correction request', 'observed': 'result',
                'expected': exp_exc, 'features': feats}
    impl = obs['result']
    again = rerun() if rerun is not None else None
    if again is not None and ('exc' in again or not same(again['result'], impl)):
        return {'what': 'a rerun with the same random seed does not reproduce the result',
                'observed': 'different arrays', 'expected': 'bit-identical arrays',
                'features': dict(feats, kind='determinism')}
    try:
        want, problems = plain_result(case, obs)
    except Exception:  # noqa: BLE001
        # the recorded numpy.random calls do not have the shape the routines are known to make
        # (another call pattern): the direct computation cannot be set up; not judged here
        return None
    if problems:
        return {'what': 'a fold was not fitted on its own training set only', 'observed': problems[:3],
                'expected': 'one fitter call per model and fold on exactly the training RDMs/conditions',
                'features': dict(feats, kind='fit')}
    bad = check_optimality(obs)
    if bad:
        return {'what': 'fitted parameters are worse on the training set than a competitor',
                'observed': bad, 'expected': 'the fitter maximises the training criterion',
                'features': dict(feats, kind='fit_opt')}
    if want.get('cov') == 'undefined':
        # fewer than two usable resamples: the sample covariance does not exist; the routine must
        # not report a number for it (NaN; numpy's einsum form gives 0 for no resample at all)
        fin = [v for v in finite_entries(impl.get('cov')) if v != 0]
        if fin:
            return {'what': 'a covariance is reported although fewer than two resamples were usable',
                    'observed': f"{len(fin)} finite entries, e.g. {fin[0]!r} ({want.get('n_usable')} usable)",
                    'expected': 'NaN (undefined)', 'features': dict(feats, kind='cov_undefined')}
        want = {k: v for k, v in want.items() if k not in ('cov', 'n_usable')}
        impl = {k: v for k, v in impl.items() if k != 'cov'}
    d = diff_results(case, impl, want, 'stored', 'direct computation')
    if d:
        kind = d.split(':')[0].split('[')[0]
        return {'what': f'stored {kind} differs from the direct computation on the resample',
                'observed': d, 'expected': 'equality within 1e-8',
                'features': dict(feats, kind=kind)}
    return None
