"""C20 / fMRIPrep design matrix (io/fmriprep.py: make_design_matrix)."""
import math
from fractions import Fraction as F
from lean import rat

CONDS = ['face', 'house', 'rest', 'A', 'b2', 'tool']
CFNAMES = ['global_signal', 'csf', 'white_matter', 'trans_x', 'rot_z', 'csf_derivative1']


# the tabulated standard HRF (io/hrf.py) is data, not logic: pinned by a digest
HRF_PINNED = {'len': 490, 'argmax': 48, 'max': 0.0182, 'argmin': 174, 'min': -0.00157,
              'sha1': 'e89b7fb9c817b22fdfb568cccfd1062f4fb96af0'}


def hrf_digest():
    import hashlib
    import numpy as np
    from rsatoolbox.io.hrf import HRF
    h = np.asarray(HRF, dtype='<f8')
    units = np.round(h * 1e7)
    return {'len': int(h.size), 'argmax': int(h.argmax()), 'max': float(h.max()),
            'argmin': int(h.argmin()), 'min': float(h.min()), 'sha1': hashlib.sha1(h.tobytes()).hexdigest(),
            # the table in units of 1e-7 (what the Lean side regenerates from the source text)
            'units': [int(v) for v in units], 'exact_units': bool(np.abs(h * 1e7 - units).max() < 1e-6)}


def dm_case(rng, form):
    """one event table / TR / volume count / confound table of the given form:
    noconf | confounds (all complete) | dropna (>= 1 column with n/a) | assert (wrong row count)"""
    tr = rng.choice([F(1), F(2), F(3, 2), F(3, 4), F(5, 2)])
    n_vols = rng.randint(24, 48)
    total = tr * (n_vols - 1)
    nc = rng.randint(1, 4)
    conds = rng.sample(CONDS, nc)
    events = []
    for c in conds:
        for _ in range(rng.randint(1, 4)):
            onset = F(rng.randint(0, int(total * 4 * F(3, 5))), 4)
            events.append([c, rat(onset), rat(F(rng.randint(2, 24), 4))])
    rng.shuffle(events)
    cf = None
    if form != 'noconf':
        cf = []
        names = rng.sample(CFNAMES, rng.randint(1, 4))
        holes = [form == 'dropna' and rng.random() < 0.5 for _ in names]
        if form == 'dropna' and not any(holes):
            holes[rng.randrange(len(holes))] = True
        for name, hole in zip(names, holes):
            col = [rat(F(rng.randint(-64, 64), 16)) for _ in range(n_vols)]
            if hole:
                col[rng.choice([0, 0, 0, n_vols - 1])] = None
            cf.append([name, col])
        if form == 'assert':
            cf = [[n, c[:-1]] for n, c in cf]
    return {'kind': 'dm', 'events': events, 'tr': rat(tr), 'n_vols': n_vols, 'confounds': cf,
            'form': form}


def gen(rng, tier):
    k = 1 if tier == 'quick' else 15
    # directed skeleton: every dm:* tag whatever the PRNG draws
    yield {'kind': 'dm', 'form': 'hrf_table'}
    for form in ('noconf', 'confounds', 'dropna', 'assert'):
        yield dm_case(rng, form)
    for i in range(30 * k):
        r = rng.random()
        yield dm_case(rng, 'noconf' if i % 3 == 0 else
                      'assert' if r < 0.08 else 'dropna' if r < 0.5 else 'confounds')


def _frames(case):
    import numpy as np
    import pandas
    ev = pandas.DataFrame({'onset': [float(F(e[1])) for e in case['events']],
                           'duration': [float(F(e[2])) for e in case['events']],
                           'trial_type': [e[0] for e in case['events']]})
    cf = None
    if case['confounds'] is not None:
        cf = pandas.DataFrame({n: [np.nan if v is None else float(F(v)) for v in col]
                               for n, col in case['confounds']})
    return ev, cf


def impl(case):
    if case['form'] == 'hrf_table':
        return hrf_digest()
    from rsatoolbox.io.fmriprep import make_design_matrix
    import numpy as np
    ev, cf = _frames(case)
    try:
        with np.errstate(all='ignore'):
            dm, mask, dof = make_design_matrix(ev, float(F(case['tr'])), case['n_vols'], cf)
    except AssertionError:
        return {'exc': 'AssertionError'}
    except Exception as exc:  # noqa: BLE001
        return {'exc': type(exc).__name__}
    return {'cols': dm.T.tolist(), 'mask': [bool(m) for m in mask], 'dof': int(dof)}


def response(case):
    """the contract side of the model: the resampled, peak-scaled response (an independent
    transcription of the documented steps) and its PCHIP interpolant placed at onset 0"""
    import numpy as np
    from scipy.interpolate import PchipInterpolator
    from rsatoolbox.io.hrf import HRF
    tr = float(F(case['tr']))
    durs = sorted(float(F(e[2])) for e in case['events'])
    m = len(durs)
    med = durs[m // 2] if m % 2 else (durs[m // 2 - 1] + durs[m // 2]) / 2
    kernel = np.convolve(HRF, np.ones(int(med / 0.1)))
    fine_t = np.arange(kernel.size) * 0.1
    coarse_t = np.arange(0, int((kernel.size - 1) * 0.1), tr)
    resp = PchipInterpolator(fine_t, kernel)(coarse_t)
    resp = resp / resp.max()
    resp_t = np.arange(len(resp)) * tr
    return resp, PchipInterpolator(resp_t, resp, extrapolate=True)


def raw_columns(case):
    """independent transcription of the documented pipeline up to the un-normalised predictor
    columns: standard HRF (100 ms) convolved with a box of the median duration, resampled at
    the TR with a monotone cubic (PCHIP), peak scaled to one, placed at every onset and
    evaluated at the volume times.  Returns {tuple(onsets): column}."""
    import numpy as np
    from scipy.interpolate import PchipInterpolator
    from rsatoolbox.io.hrf import HRF
    tr = float(F(case['tr']))
    n_vols = case['n_vols']
    durs = sorted(float(F(e[2])) for e in case['events'])
    m = len(durs)
    med = durs[m // 2] if m % 2 else (durs[m // 2 - 1] + durs[m // 2]) / 2
    box = np.ones(int(med / 0.1))
    kernel = np.convolve(HRF, box)
    fine_t = np.arange(kernel.size) * 0.1
    coarse_t = np.arange(0, int((kernel.size - 1) * 0.1), tr)
    resp = PchipInterpolator(fine_t, kernel)(coarse_t)
    resp = resp / resp.max()
    vol_t = np.linspace(0, tr * (n_vols - 1), n_vols)
    resp_t = np.linspace(0, tr * (len(resp) - 1), len(resp))
    out = {}
    order = []
    for e in case['events']:
        if e[0] not in order:
            order.append(e[0])
    for c in order:
        onsets = [float(F(e[1])) for e in case['events'] if e[0] == c]
        col = np.zeros(n_vols)
        for o in onsets:
            v = PchipInterpolator(o + resp_t, resp, extrapolate=False)(vol_t)
            col = col + np.where(np.isnan(v), 0.0, v)
        out[tuple(rat(o) for o in onsets)] = (c, col.tolist())
    return out


def requests(case):
    if case['form'] == 'hrf_table':
        return [{'op': 'c20.hrf_table'}]
    # the model places the response at every onset, decides what lies in its support, sums the
    # blocks of a condition, normalises, flags and counts; only the interpolant P is tabulated
    # here, at the arguments  t_i - onset  the model can ask for (exact rationals)
    resp, interp = response(case)
    tr = F(case['tr'])
    xs = sorted({tr * i - F(e[1]) for e in case['events'] for i in range(case['n_vols'])})
    vals = interp([float(x) for x in xs]) if xs else []
    ptable = [[rat(x), rat(float(v))] for x, v in zip(xs, vals)]
    cf = None if case['confounds'] is None else [col for _, col in case['confounds']]
    return [{'op': 'c20.dm', 'events': [[e[0], e[1]] for e in case['events']], 'tr': case['tr'],
             'resp_len': int(len(resp)), 'ptable': ptable,
             'confounds': cf, 'n_vols': case['n_vols']}]


def result(case, answers):
    if case['form'] == 'hrf_table':
        return dict(HRF_PINNED, units=answers[0], exact_units=True)
    a = answers[0]
    if isinstance(a, dict) and 'cols' in a:
        return {'cols': [[float(F(x)) if x is not None else float('nan') for x in c] for c in a['cols']],
                'mask': a['mask'], 'dof': a['dof']}
    return a


def oracle(case):
    """one range-normalised, centred column per condition plus flagged confound columns,
    dof = volumes - columns"""
    out = impl(case)
    feats = {'dm_form': case['form']}
    if case['form'] == 'assert':
        return None
    if case['form'] == 'hrf_table':
        # a haemodynamic response sampled at 100 ms: starts at 0, peaks 4-6 s, undershoots later
        import numpy as np
        from rsatoolbox.io.hrf import HRF
        ok = HRF[0] == 0 and 40 <= int(np.argmax(HRF)) <= 60 and HRF.min() < 0 \
            and int(np.argmin(HRF)) > int(np.argmax(HRF)) and abs(HRF[-1]) < 1e-4 and HRF.size >= 300
        return None if ok else {'what': 'tabulated HRF is not a haemodynamic response at 100 ms',
                                'observed': out, 'expected': HRF_PINNED, 'features': feats}
    if 'exc' in out:
        return {'what': 'design matrix not produced for valid events', 'observed': out,
                'expected': 'matrix', 'features': feats}
    order = []
    for e in case['events']:
        if e[0] not in order:
            order.append(e[0])
    kept = [] if case['confounds'] is None else \
        [[float(F(v)) for v in col] for _, col in case['confounds'] if all(v is not None for v in col)]
    ncol = len(order) + len(kept)
    if len(out['cols']) != ncol:
        return {'what': 'number of columns is not #conditions + #complete confounds',
                'observed': len(out['cols']), 'expected': ncol, 'features': feats}
    if out['mask'] != [True] * len(order) + [False] * len(kept):
        return {'what': 'predictor mask does not flag exactly the condition columns',
                'observed': out['mask'], 'expected': [True] * len(order) + [False] * len(kept),
                'features': feats}
    if out['dof'] != case['n_vols'] - ncol:
        return {'what': 'dof is not volumes - columns', 'observed': out['dof'],
                'expected': case['n_vols'] - ncol, 'features': feats}
    by_cond = {c: col for (c, col) in raw_columns(case).values()}
    ref = [by_cond.get(c) for c in order]
    for ci, col in enumerate(out['cols']):
        if any(math.isnan(v) for v in col):
            return {'what': 'column contains NaN', 'observed': ci, 'expected': 'finite', 'features': feats}
        if len(col) != case['n_vols']:
            return {'what': 'column length is not the number of volumes', 'observed': len(col),
                    'expected': case['n_vols'], 'features': feats}
        if abs(max(col) - min(col) - 1) > 1e-9:
            return {'what': 'column is not range-normalised', 'observed': max(col) - min(col),
                    'expected': 1, 'column': ci, 'features': feats}
        if abs(sum(col) / len(col)) > 1e-9:
            return {'what': 'column is not centred', 'observed': sum(col) / len(col),
                    'expected': 0, 'column': ci, 'features': feats}
        src = ref[ci] if ci < len(order) else kept[ci - len(order)]
        if src is None:
            continue
        mu = sum(src) / len(src)
        rg = max(src) - min(src)
        for a, b in zip(col, src):
            if abs(a - (b - mu) / rg) > 1e-6:
                return {'what': 'column is not the centred, range-normalised '
                        + ('HRF predictor of its condition' if ci < len(order) else 'confound'),
                        'observed': a, 'expected': (b - mu) / rg, 'column': ci, 'features': feats}
    return None


def feats(case, impl_res):
    return {'kind': 'dm', 'dm_form': case['form'], 'branches': ['dm:' + case['form']]}


BRANCHES = ['dm:noconf', 'dm:confounds', 'dm:dropna', 'dm:assert', 'dm:hrf_table']
