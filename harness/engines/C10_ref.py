"""C10 reference semantics in plain Python (square matrices, plain loops, no numpy, no rsatoolbox).

This is the *property statement* of C10 written out operation by operation: which RDMs and
conditions a structural operation requests, where each value of the result comes from (the
same RDM and the same pair of conditions of the source), NaN for pairs of two copies of one
condition and for pairs a partial RDM lacks, descriptors carried along.  It is used
  * by the oracle (applied to the *real* pre-state of a step, compared with the real post-state),
  * by the generator (to know sizes/labels while drawing admissible arguments).
It is deliberately written on square matrices so that it shares nothing with the Lean model
(condensed vectors, masks over the pair enumeration) or with the library's vector code.

object = {'n': int, 'mats': [n x n lists, None = NaN, diagonal 0], 'odesc': {k: lbl},
          'rdesc': {k: [lbl]}, 'pdesc': [[k, [lbl]], ...]  (ordered)}
"""
import copy as _copy


class Inadmissible(Exception):
    """the arguments are outside what the operation documents; the property says nothing"""


# does `permute_rdms` pass `dissimilarity_measure` on?  (probed from the tree by the engine; on the
# pinned tree it does not: the result has None)
PK = False


def resolve_idx(n, idx):
    """row positions `rdms[idx]` names among n RDMs: an int (negative counts from the end), a
    list / tuple / integer array (negative entries allowed), a slice, a boolean mask of length n"""
    kind = idx['kind']
    if kind == 'int':
        i = idx['i']
        if not -n <= i < n:
            raise Inadmissible('row index out of range')
        return [i % n]
    if kind == 'list':
        if any(not -n <= i < n for i in idx['l']):
            raise Inadmissible('row index out of range')
        return [i % n for i in idx['l']]
    if kind == 'mask':
        if len(idx['l']) != n:
            raise Inadmissible('mask of the wrong length')
        return [k for k, b in enumerate(idx['l']) if b]
    if kind == 'slice':
        if idx['step'] == 0:
            raise Inadmissible('slice step 0')
        out, k = [], None
        start, stop, step = idx.get('start'), idx.get('stop'), idx['step']
        # written out (not via Python's slice) so that it shares nothing with numpy
        def norm(b, lo, hi):
            if b < 0:
                b += n
            return max(lo, min(hi, b))
        if step > 0:
            a = 0 if start is None else norm(start, 0, n)
            z = n if stop is None else norm(stop, 0, n)
            k = a
            while k < z:
                out.append(k)
                k += step
        else:
            a = n - 1 if start is None else norm(start, -1, n - 1)
            z = -1 if stop is None else norm(stop, -1, n - 1)
            k = a
            while k > z:
                out.append(k)
                k += step
        return out
    raise Inadmissible(f'index kind {kind}')


def pget(o, k):
    for kk, v in o['pdesc']:
        if kk == k:
            return v
    raise Inadmissible(f'no pattern descriptor {k}')


def rget(o, k):
    if k not in o['rdesc']:
        raise Inadmissible(f'no rdm descriptor {k}')
    return o['rdesc'][k]


def is_perm(p, n):
    return sorted(p) == list(range(n))


def take_rows(o, sel):
    if not sel:
        raise Inadmissible('empty selection of RDMs')
    for i in sel:
        if not 0 <= i < len(o['mats']):
            raise Inadmissible('row index out of range')
    return {'n': o['n'], 'mats': [_copy.deepcopy(o['mats'][i]) for i in sel],
            'odesc': dict(o['odesc']), 'meas': o.get('meas'),
            'rdesc': {k: [v[i] for i in sel] for k, v in o['rdesc'].items()},
            'pdesc': [[k, list(v)] for k, v in o['pdesc']]}


def take_conds(o, sel):
    """conditions `sel` (positions, repetitions allowed): pair of two copies = NaN"""
    if not sel:
        raise Inadmissible('empty selection of conditions')
    k = len(sel)
    mats = []
    for m in o['mats']:
        new = [[None] * k for _ in range(k)]
        for a in range(k):
            for b in range(k):
                if a == b:
                    new[a][b] = 0
                elif sel[a] == sel[b]:
                    new[a][b] = None
                else:
                    new[a][b] = m[sel[a]][sel[b]]
        mats.append(new)
    return {'n': k, 'mats': mats, 'odesc': dict(o['odesc']), 'meas': o.get('meas'),
            'rdesc': {kk: list(v) for kk, v in o['rdesc'].items()},
            'pdesc': [[kk, [v[i] for i in sel]] for kk, v in o['pdesc']]}


def uniq(l):
    out = []
    for x in l:
        if x not in out:
            out.append(x)
    return out


def has_dup(l):
    return len(uniq(l)) != len(l)


def merged_descs(objs):
    """object-level descriptors kept when equal everywhere, else demoted to rdm descriptors"""
    first = objs[0]
    kept = {k: v for k, v in first['odesc'].items()
            if all(k in o['odesc'] and o['odesc'][k] == v for o in objs[1:])}
    names = []
    for o in objs:
        names += list(o['rdesc'].keys())
    for o in objs:
        names += [k for k in o['odesc'] if k not in kept]
    names = uniq(names)
    total = sum(len(o['mats']) for o in objs)
    rdesc = {}
    for name in names:
        if name == 'index':
            rdesc[name] = list(range(total))
            continue
        col = []
        for o in objs:
            for r in range(len(o['mats'])):
                if name in o['rdesc']:
                    col.append(o['rdesc'][name][r])
                elif name in o['odesc']:
                    if isinstance(o['odesc'][name], list):
                        raise Inadmissible('array-valued descriptor would become an rdm descriptor')
                    col.append(o['odesc'][name])
                else:
                    col.append(None)        # this RDM has no such descriptor
        rdesc[name] = col
    if 'index' not in rdesc:
        rdesc['index'] = list(range(total))
    return kept, rdesc


def concat_target(o):
    for k, v in o['pdesc']:
        if k != 'index' and not has_dup(v):
            return k
    return None


def align_order(o, t, auth):
    """positions of `o` in the order of the labels `auth` of descriptor `t`"""
    other = pget(o, t)
    if other == auth:
        return None
    if has_dup(other) or sorted(map(repr, other)) != sorted(map(repr, auth)):
        raise Inadmissible('objects do not hold the same conditions')
    return [other.index(x) for x in auth]


def with_index(pdesc, n):
    if not any(k == 'index' for k, _ in pdesc):
        pdesc = pdesc + [['index', list(range(n))]]
    return pdesc


def apply(store, op):
    """returns (new_store, changed) where changed = set of positions that may differ;
    raises Inadmissible.  `store` is not modified."""
    name = op['op']
    s = list(store)

    def src():
        i = op['src']
        if not 0 <= i < len(s):
            raise Inadmissible('no such object')
        return s[i]

    if name == 'getitem':
        o = src()
        sel = resolve_idx(len(o['mats']), op['idx']) if op.get('idx') is not None else op['sel']
        return s + [take_rows(o, sel)], set()
    if name == 'subset':
        o = src()
        col = rget(o, op['by'])
        return s + [take_rows(o, [i for i, x in enumerate(col) if x in op['vals']])], set()
    if name == 'subsample':
        o = src()
        col = rget(o, op['by'])
        return s + [take_rows(o, [i for v in op['vals'] for i, x in enumerate(col) if x == v])], set()
    if name == 'subset_pattern':
        o = src()
        col = pget(o, op['by'])
        return s + [take_conds(o, [i for i, x in enumerate(col) if x in op['vals']])], set()
    if name == 'subsample_pattern':
        o = src()
        col = pget(o, op['by'])
        sel = sorted(i for v in op['vals'] for i, x in enumerate(col) if x == v)
        return s + [take_conds(o, sel)], set()
    if name == 'reorder':
        o = src()
        if not is_perm(op['ord'], o['n']):
            raise Inadmissible('not a permutation')
        s[op['src']] = take_conds(o, op['ord'])
        return s, {op['src']}
    if name == 'sort_multi':
        # sort_by(k1=…, k2=…): the sorts one after the other, `index` reset once at the end
        cur = s
        for n_k, (by, how) in enumerate(op['keys']):
            last = n_k == len(op['keys']) - 1
            sub = {'op': 'sort_alpha' if how == 'alpha' else 'sort_list', 'src': op['src'], 'by': by,
                   'reindex': op['reindex'] and last}
            if how != 'alpha':
                sub['vals'] = how
            cur, _ = apply(cur, sub)
        return cur, {op['src']}
    if name in ('sort_alpha', 'sort_list'):
        o = src()
        col = pget(o, op['by'])
        if name == 'sort_alpha':
            if len({type(x) for x in col}) > 1:
                raise Inadmissible('mixed kinds')
            order = sorted(range(o['n']), key=lambda i: (col[i], i))
        else:
            m = op['vals']
            if any(x not in m for x in col) or any(x not in col for x in m):
                raise Inadmissible('listed values and descriptor values differ')
            order = [i for v in uniq(m) for i, x in enumerate(col) if x == v]
        new = take_conds(o, order)
        if op['reindex']:
            new['pdesc'] = [[k, (list(range(new['n'])) if k == 'index' else v)] for k, v in new['pdesc']]
        s[op['src']] = new
        return s, {op['src']}
    if name == 'append':
        o = src()
        j = op['other']
        if not 0 <= j < len(s):
            raise Inadmissible('no such object')
        r = s[j]
        if o['n'] != r['n'] or any(k not in r['rdesc'] for k in o['rdesc']):
            raise Inadmissible('shape / descriptor keys')
        if o.get('meas') != r.get('meas'):
            raise Inadmissible('different dissimilarity measures')
        new = _copy.deepcopy(o)
        new['mats'] = new['mats'] + _copy.deepcopy(r['mats'])
        new['rdesc'] = {k: list(v) + list(r['rdesc'][k]) for k, v in o['rdesc'].items()}
        new['rdesc']['index'] = list(range(len(new['mats'])))
        s[op['src']] = new
        return s, {op['src']}
    if name == 'concat':
        if not op['srcs'] or any(not 0 <= i < len(s) for i in op['srcs']):
            raise Inadmissible('no such object')
        objs = [s[i] for i in op['srcs']]
        first = objs[0]
        kept, rdesc = merged_descs(objs)
        if any(o['n'] != first['n'] for o in objs):
            raise Inadmissible('shape')
        if any(o.get('meas') != first.get('meas') for o in objs):
            raise Inadmissible('different dissimilarity measures')
        t = op.get('target')
        if t is None:
            t = concat_target(first)
        elif not any(k == t for k, _ in first['pdesc']):
            raise Inadmissible('target_pdesc is not a pattern descriptor of the first object')
        mats = _copy.deepcopy(first['mats'])
        maybe = set()
        for i, o in zip(op['srcs'][1:], objs[1:]):
            order = align_order(o, t, pget(first, t)) if t is not None else None
            al = take_conds(o, order) if order is not None else o
            if order is not None:
                maybe.add(i)
            mats += _copy.deepcopy(al['mats'])
        res = {'n': first['n'], 'mats': mats, 'odesc': kept, 'rdesc': rdesc, 'meas': first.get('meas'),
               'pdesc': [[k, list(v)] for k, v in first['pdesc']]}
        return s + [res], maybe
    if name in ('copy', 'dict'):
        return s + [_copy.deepcopy(src())], set()
    if name == 'from_partials':
        if not op['srcs'] or any(not 0 <= i < len(s) for i in op['srcs']):
            raise Inadmissible('no such object')
        objs = [s[i] for i in op['srcs']]
        d = op['desc']
        labs = [pget(o, d) for o in objs]
        if any(has_dup(l) for l in labs):
            raise Inadmissible('duplicate labels in a partial RDM')
        allp = op.get('all')
        if allp is None:
            allp = uniq([x for l in labs for x in l])
        if has_dup(allp) or not allp or any(x not in allp for l in labs for x in l):
            raise Inadmissible('all_patterns')
        for o in objs:
            for k, v in o['odesc'].items():
                for o2 in objs:
                    v2 = o2['odesc'].get(k)
                    if isinstance(v, list) and isinstance(v2, list) and len(v) != len(v2):
                        raise Inadmissible('array descriptors of different length')
        kept, rdesc = merged_descs(objs)
        big = len(allp)
        mats = []
        for o, l in zip(objs, labs):
            for m in o['mats']:
                new = [[(0 if a == b else None) for b in range(big)] for a in range(big)]
                for a in range(big):
                    for b in range(big):
                        if a != b and allp[a] in l and allp[b] in l:
                            new[a][b] = m[l.index(allp[a])][l.index(allp[b])]
                mats.append(new)
        res = {'n': big, 'mats': mats, 'odesc': kept, 'rdesc': rdesc, 'meas': objs[-1].get('meas'),
               'pdesc': [[d, list(allp)], ['index', list(range(big))]] if d != 'index'
               else [[d, list(allp)]]}
        return s + [res], set()
    if name in ('permute', 'inverse_permute'):
        o = src()
        if name == 'permute':
            p = op['p']
        else:
            p = o['odesc'].get('p_inv')
            if not isinstance(p, list):
                raise Inadmissible('no p_inv')
        if not is_perm(p, o['n']):
            raise Inadmissible('not a permutation')
        new = take_conds(o, p)
        new['pdesc'] = [[k, ([str(x) if isinstance(x, int) else x for x in v] if k == 'index' else v)]
                        for k, v in new['pdesc']]
        new['odesc']['p_inv'] = [p.index(i) for i in range(len(p))]
        new['meas'] = o.get('meas') if PK else None
        return s + [new], set()
    if name == 'sort_unknown':
        raise Inadmissible('sort_by method is neither alpha nor a list')
    raise Inadmissible(f'unknown op {name}')


def n_from_len(ln):
    n = 1
    while n * (n - 1) // 2 < ln:
        n += 1
    assert n * (n - 1) // 2 == ln
    return n


def new_obj(vecs, odesc, rdesc, pdesc, meas=None):
    """initial object from condensed vectors (row-major upper triangle)"""
    n = n_from_len(len(vecs[0]))
    mats = []
    for v in vecs:
        m = [[(0 if a == b else None) for b in range(n)] for a in range(n)]
        k = 0
        for a in range(n):
            for b in range(a + 1, n):
                m[a][b] = m[b][a] = v[k]
                k += 1
        mats.append(m)
    rd = {k: list(v) for k, v in rdesc}
    if 'index' not in rd:
        rd['index'] = list(range(len(vecs)))
    return {'n': n, 'mats': mats, 'odesc': {k: v for k, v in odesc}, 'rdesc': rd, 'meas': meas,
            'pdesc': with_index([[k, list(v)] for k, v in pdesc], n)}
