"""C10 — RDM container operations never change which value belongs to which pair.

Session engine: one case = initial RDMs objects + a sequence of structural operations.
  * run_impl      : the real rsatoolbox objects, canonical dump of the whole store after every step
  * model_*       : the Lean model (`c10.session`), same dump
  * oracle        : the property itself, step by step on the real objects, against the plain-Python
                    reference semantics of `C10_ref` (square matrices, plain loops)
"""
import copy
import io
import contextlib
import json
import os
import subprocess
import sys
import warnings
import numpy as np

from engines import C10_ref as ref

PROPERTY = 'C10'
LEVEL = 'proof'
P = 'Rsa.Props.C10.'
THEOREMS = [P + n for n in (
    'nFromReduced_triangular', 'nFromLength_triangular', 'pairs_getElem', 'pairs_length',
    'matToVec_vecToMat', 'vecToMat_matToVec', 'vecToMat_symm', 'vecToMat_diag',
    'maskVec_render', 'reindexVec_render', 'reindexVec_render_perm', 'scatterVec_render',
    'selSubset_spec', 'selSubsample_count', 'argsortStable_perm', 'selSortList_perm',
    'mk2d_wf', 'init_inv', 'step_inv', 'reachable_inv', 'reachable_entry', 'reachable_rdesc_partial',
    'tracked_keys_kept', 'tracked_keys_merge', 'mem_commonKeys_iff', 'mergedRDesc_total',
    'fpVectorLen_triangular', 'scatterVec_length', 'inplace_frame',
    'toDf_rows', 'concat_aligns',
    # round 3: rdm descriptors row by row (closes the partial), measures, index forms, descriptor rules, leaves
    'reachable_rdesc', 'reachable_rdesc_shape', 'row_keys_init', 'row_keys_kept', 'append_drops_exactly',
    'row_keys_full_noappend', 'reachable_rdesc_noappend', 'cexStore_wf', 'reachable_rdesc_full_false',
    'meas_parallel_frame', 'meas_passed_on', 'meas_append_equal', 'meas_concat_equal',
    'meas_fromPartials_last', 'meas_permute', 'meas_no_invention', 'reachable_meas_uniform',
    'resolveIdx_lt', 'getitem_resolved', 'resolveIdx_neg', 'resolveIdx_mask', 'resolveIdx_slice_all',
    'append_desc_rules', 'concat_desc_rules', 'odesc_kept_or_demoted', 'fromPartials_desc_rules',
    'b2vLen_triangular', 'pairSelected_and', 'triuOffset_strict', 'selCmp_eq',
    # round 6: dictionaries are finite maps (append does not see the insertion order), tied by the leaf appendByName
    'appendByName_spec', 'appendGet_by_name', 'append_rdesc_coded', 'appendDesc_lookup', 'keys_set',
    'append_desc_order_free', 'append_obj_order_free',
)]
RULE = ('one PRNG; a case is 1-3 initial RDMs objects (1-4 RDMs x 1-6 conditions, unique integer '
        'tags as values, some NaN; rdm/pattern descriptors str/int, list/array, with duplicate '
        'values and labels that are substrings of each other) and a sequence of operations whose '
        'arguments are drawn admissible from a plain-Python simulation of the session (plus a few '
        'documented rejections); round 3: dissimilarity_measure per object (equal / different / None), '
        'float-valued descriptors, `rdms[...]` with int / negative / list / tuple / ndarray / range / slice / '
        'boolean-mask indices, tuple values, sort_by with two keys, concat of a list / tuple / generator, '
        'append that drops keys followed by a merge; `resolveIdx` against numpy on random (thorough: all '
        'small) index specs; the whole store is compared after every step; round 6: the rdm / pattern / object '
        'descriptor dictionaries of the initial objects carry the same names in explicitly permuted insertion '
        'orders, with an explicit `index` first / in the middle / last / absent, and a sample of the sessions is '
        're-run in sub-processes under several PYTHONHASHSEED values (identical canonical results demanded).  distinct = '
        'distinct (initial shapes, operation-name sequence, argument digest); non-trivial = at '
        'least one operation changed or created an object')
OPS = ['getitem', 'iter', 'len', 'reversed', 'subset', 'subsample', 'subset_pattern', 'subsample_pattern', 'reorder',
       'sort_alpha', 'sort_list', 'sort_multi', 'append', 'concat', 'copy', 'dict', 'from_partials', 'permute',
       'inverse_permute', 'matrices', 'vectors', 'to_df']
BRANCHES = ['op:' + o for o in OPS] + [
    'rejected', 'nan_values', 'dup_labels', 'list_desc', 'array_desc', 'substring_labels',
    'concat:realign', 'subsample_pattern:copies', 'from_partials:padded', 'by_none', 'scalar_value',
    'n_cond_1', 'leaf:nfrom', 'merge:heterogeneous_keys',
    'value:zero', 'value:tie', 'value:negative', 'value:inf', 'value:fraction',
    'input:fortran', 'input:strided', 'input:float32', 'input:int',
    'readout:derived', 'to_df:derived', 'dict:derived', 'matrices:derived', 'vectors:derived',
    'to_df:after_subset_pattern', 'to_df:after_reorder', 'readout:after_subsample_pattern',
    'concat:explicit_target', 'concat:explicit_target_realign', 'permute:random', 'sort:unknown_method',
    'dict:h5like', 'init:1d', 'init:3d', 'init:scalar_desc', 'init:no_pdesc', 'init:rejected_ndim',
    'init:rejected_desc_len',
    # round 3
    'getitem:neg_int', 'getitem:neg_in_list', 'getitem:tuple', 'getitem:ndarray', 'getitem:range',
    'getitem:slice', 'getitem:slice_neg_step', 'getitem:mask_list', 'getitem:mask_array', 'getitem:np_int',
    'desc:float', 'desc:float_selected', 'value:tuple', 'concat:generator', 'concat:tuple', 'concat:seq_realign',
    'meas:set', 'meas:none', 'meas:mixed_rejected', 'meas:permuted', 'meas:from_partials_mixed',
    'append:drops_key', 'append_then_merge', 'merge:none_fill', 'leaf:resolve_idx',
    'to_df:float_desc', 'to_df:none_desc',
    # round 6: same names, different insertion order of the descriptor dictionaries; hash-seed independence
    'dict-order:permuted-append', 'dict-order:permuted-concat', 'dict-order:index-explicit',
    'dict-order:append-after-merge', 'dict-order:pdesc-permuted', 'dict-order:odesc-permuted',
    'dict-order:permuted-from_partials', 'hashseed:subprocess']
ASSUMPTIONS = [
    'values are small integers, exactly representable in float64 and Rat',
    'admissible arguments: selection values of the descriptor\'s own kind; reorder/permute orders are '
    'permutations; concat/from_partials arguments hold compatible label sets; empty selections are '
    'rejections (size recovery needs n >= 1)',
    'float descriptor values are half-integers 0.5 … 9.5 (the model sees 2x: order and equality are kept)',
    'model parameters probed from the tree: cm (concat re-aligns in place), pk (permute_rdms passes '
    'dissimilarity_measure on); from_partials over different measures takes the last one (as coded)']
TRUSTED_EXTRA = ['numpy fancy indexing, scipy.spatial.distance.squareform, pandas.DataFrame construction '
                 '(exercised by the correspondence, not modelled separately)']

READ_ONLY = ('iter', 'matrices', 'vectors', 'to_df', 'len', 'reversed')
IN_PLACE = ('reorder', 'sort_alpha', 'sort_list', 'sort_multi', 'append', 'sort_unknown')
FKEYS = ('fnum', 'fsess')      # float-valued descriptors (half-integers 0.5 … 9.5; the model sees 2x)

# ------------------------------------------------------------------ real code


def _rsa():
    from rsatoolbox.rdm import rdms as R
    from rsatoolbox.rdm import combine as C
    from rsatoolbox.util import rdm_utils as U
    return R, C, U


def _lbl(x):
    if x is None:
        return None
    if isinstance(x, (str, np.str_)):
        return str(x)
    if isinstance(x, (bool, np.bool_)):
        return int(x)
    if isinstance(x, (int, np.integer)):
        return int(x)
    if isinstance(x, (float, np.floating)):
        return None if x != x else (int(x) if float(x).is_integer() else repr(float(x)))
    if isinstance(x, (np.ndarray, list, tuple)):
        return [_lbl(y) for y in list(x)]
    return repr(x)


def _val(x):
    x = float(x)
    if x != x:
        return None
    if x in (float('inf'), float('-inf')):
        return 'inf' if x > 0 else '-inf'
    return int(x) if x.is_integer() else x


def _num(v):
    """case encoding of a dissimilarity -> float (None = NaN, 'inf' / '-inf')"""
    if v is None:
        return np.nan
    if isinstance(v, str):
        return float(v)
    return float(v)


def obj_vals(o):
    """the real dissimilarities of an initial object: `vals` if given (zeros, ties, negative
    values, inf …), else the provenance tags themselves"""
    return o['vals'] if 'vals' in o else o['vecs']


def tag_map(case):
    """provenance tag -> real value (the Lean model runs on the unique tags)"""
    m = {}
    for o in case['objs']:
        for trow, vrow in zip(o['vecs'], obj_vals(o)):
            for t, v in zip(trow, vrow):
                if t is not None:
                    m[t] = _val(_num(v))
    return m


def _col(v):
    try:
        return [_lbl(x) for x in list(v)]
    except TypeError:
        return ['<not a column>', _lbl(v)]


def dump_real(r):
    """canonical form of a real RDMs object (vector form, as stored)"""
    try:
        d = np.asarray(r.dissimilarities)
        vecs = [[_val(x) for x in row] for row in d] if d.ndim == 2 else ['<ndim %d>' % d.ndim]
        return {'n': int(r.n_cond), 'vecs': vecs, 'meas': _lbl(r.dissimilarity_measure),
                'odesc': sorted([[str(k), _lbl(v)] for k, v in r.descriptors.items()]),
                'rdesc': sorted([[str(k), _col(v)] for k, v in r.rdm_descriptors.items()]),
                'pdesc': [[str(k), _col(v)] for k, v in r.pattern_descriptors.items()]}
    except Exception as exc:  # noqa: BLE001
        return {'undumpable': type(exc).__name__}


def make_real(o):
    R, _, _ = _rsa()
    arr = set(o.get('arr', []))

    def col(k, v):
        return np.array(v) if k in arr else list(v)
    vals = obj_vals(o)
    vecs = np.array([[_num(x) for x in row] for row in vals], dtype=float).reshape(len(vals), -1)
    dtype, layout = o.get('dtype', 'float64'), o.get('layout', 'C')
    vecs = vecs.astype(dtype)
    if layout == 'F':
        vecs = np.asfortranarray(vecs)
    elif layout == 'strided':       # a non-contiguous view into a larger buffer
        big = np.zeros((vecs.shape[0] * 2, vecs.shape[1] * 2 + 1), dtype=vecs.dtype)
        big[::2, 1::2] = vecs
        vecs = big[::2, 1::2]
    form = o.get('form', '2d')
    if form == '1d':                      # a single RDM given as a 1-D vector
        vecs = vecs[0]
    elif form == '3d':                    # square matrices
        n = ref.n_from_len(vecs.shape[1])
        mats = np.zeros((vecs.shape[0], n, n), dtype=vecs.dtype)
        ix = np.triu_indices(n, 1)
        for q in range(vecs.shape[0]):
            mats[q][ix] = vecs[q]
            mats[q] = mats[q] + mats[q].T
        vecs = mats
    elif form == '4d':                    # not an RDM stack: the constructor must raise
        vecs = vecs.reshape(vecs.shape + (1, 1))

    def dcol(k, v, count):
        if o.get('scalar_desc') and count == 1:
            return v[0]                   # one value instead of a one-element column
        if k == o.get('bad_len'):
            return col(k, list(v) + [v[-1]])
        return col(k, v)
    nr, nc = len(vals), ref.n_from_len(len(vals[0]))
    pd = {k: dcol(k, v, nc) for k, v in o.get('pdesc', [])}
    return R.RDMs(vecs, dissimilarity_measure=o.get('meas'),
                  descriptors={k: (np.array(v) if isinstance(v, list) else v) for k, v in o.get('odesc', [])},
                  rdm_descriptors={k: dcol(k, v, nr) for k, v in o.get('rdesc', [])},
                  pattern_descriptors=(pd if (pd or not o.get('no_pdesc_arg')) else None))


def _value_arg(op):
    vals = op['vals']
    if op.get('scalar') and len(vals) == 1:
        return vals[0]
    if op.get('as_array'):
        return np.array(vals)
    if op.get('as_tuple'):
        return tuple(vals)
    return list(vals)


def py_index(idx):
    """the Python object handed to `rdms[...]` for an index spec"""
    kind, form = idx['kind'], idx.get('form')
    if kind == 'int':
        return np.int64(idx['i']) if form == 'np' else int(idx['i'])
    if kind == 'list':
        l = [int(x) for x in idx['l']]
        if form == 'tuple':
            return tuple(l)
        if form == 'ndarray':
            return np.array(l, dtype=int)
        if form == 'range':
            return range(l[0], l[-1] + 1)
        return l
    if kind == 'mask':
        return np.array(idx['l'], dtype=bool) if form == 'ndarray' else [bool(x) for x in idx['l']]
    return slice(idx.get('start'), idx.get('stop'), idx['step'])


def _by(op):
    return None if op.get('by_none') and op['by'] == 'index' else op['by']


def apply_real(store, op):
    """perform one operation on real objects; returns ('new', obj) | ('inplace', None) |
    ('out', value); raises what the library raises"""
    R, C, _ = _rsa()
    name = op['op']
    if name == 'concat':
        objs = [store[i] for i in op['srcs']]
        kw = {'target_pdesc': op['target']} if op.get('target') is not None else {}
        form = op.get('argform') or ('varargs' if op.get('varargs') else 'list')
        if form == 'varargs':
            return 'new', R.concat(*objs, **kw)
        arg = {'list': objs, 'tuple': tuple(objs), 'gen': (x for x in objs)}[form]
        return 'new', R.concat(arg, **kw)
    if name == 'from_partials':
        objs = [store[i] for i in op['srcs']]
        allp = op.get('all')
        return 'new', C.from_partials(objs, all_patterns=None if allp is None else list(allp),
                                      descriptor=op['desc'])
    r = store[op['src']]
    if name == 'getitem':
        if op.get('idx') is not None:
            return 'new', r[py_index(op['idx'])]
        sel = op['sel']
        return 'new', r[sel[0]] if op.get('int') and len(sel) == 1 else r[list(sel)]
    if name == 'sort_multi':
        r.sort_by(reindex=op['reindex'], **{by: ('alpha' if how == 'alpha' else list(how)) for by, how in op['keys']})
        return 'inplace', None
    if name == 'subset':
        return 'new', r.subset(_by(op), _value_arg(op))
    if name == 'subsample':
        return 'new', r.subsample(_by(op), _value_arg(op))
    if name == 'subset_pattern':
        return 'new', r.subset_pattern(_by(op), _value_arg(op))
    if name == 'subsample_pattern':
        return 'new', r.subsample_pattern(_by(op), _value_arg(op))
    if name == 'reorder':
        r.reorder(np.array(op['ord'], dtype=int) if op.get('as_array') else list(op['ord']))
        return 'inplace', None
    if name == 'sort_alpha':
        r.sort_by(reindex=op['reindex'], **{op['by']: 'alpha'})
        return 'inplace', None
    if name == 'sort_list':
        r.sort_by(reindex=op['reindex'], **{op['by']: list(op['vals'])})
        return 'inplace', None
    if name == 'append':
        r.append(store[op['other']])
        return 'inplace', None
    if name == 'copy':
        return 'new', r.copy()
    if name == 'dict':
        d = r.to_dict()
        if op.get('h5like'):
            # what the hdf5 reader hands to rdms_from_dict: list descriptors as {'0': v0, '1': v1, …}
            d = dict(d)
            for key in ('rdm_descriptors', 'pattern_descriptors'):
                d[key] = {k: ({str(i): x for i, x in enumerate(v)} if isinstance(v, list) else v)
                          for k, v in d[key].items()}
        return 'new', R.rdms_from_dict(d)
    if name == 'permute':
        if op.get('p_none'):
            # p=None: the library draws the permutation; the draw is injected
            orig = np.random.permutation
            np.random.permutation = lambda n: np.array(op['p'], dtype=int)
            try:
                return 'new', R.permute_rdms(r)
            finally:
                np.random.permutation = orig
        return 'new', R.permute_rdms(r, np.array(op['p'], dtype=int))
    if name == 'sort_unknown':
        r.sort_by(**{op['by']: op['method']})
        return 'inplace', None
    if name == 'len':
        return 'out', len(r)
    if name == 'reversed':
        return 'out', [dump_real(x) for x in reversed(r)]
    if name == 'inverse_permute':
        return 'new', R.inverse_permute_rdms(r)
    if name == 'iter':
        return 'out', [dump_real(x) for x in r]
    if name == 'matrices':
        m = r.get_matrices()
        return 'out', [[[_val(x) for x in row] for row in mat] for mat in m]
    if name == 'vectors':
        return 'out', [[_val(x) for x in row] for row in r.get_vectors()]
    if name == 'to_df':
        return 'out', df_rows(r.to_df(), r)
    raise ValueError(f'unknown op {name}')


def df_rows(df, r):
    """DataFrame -> [{v, rdm: sorted [[k, lbl]], c1: …, c2: …}] in row order"""
    rkeys = [('rdm_index' if k == 'index' else k, k) for k in r.rdm_descriptors]
    pkeys = [('pattern_index' if k == 'index' else k, k) for k in r.pattern_descriptors]
    rows = []
    for _, row in df.iterrows():
        rows.append({'v': _val(row['dissimilarity']),
                     'rdm': sorted([[k, _lbl(row[c])] for c, k in rkeys]),
                     'c1': sorted([[k, _lbl(row[c + '_1'])] for c, k in pkeys]),
                     'c2': sorted([[k, _lbl(row[c + '_2'])] for c, k in pkeys])})
    return rows


def _empty(x):
    try:
        return x.n_rdm == 0 or x.n_cond == 0 or np.asarray(x.dissimilarities).shape[0] == 0
    except Exception:  # noqa: BLE001
        return False


def real_step(store, op):
    """one step on the real store (list, modified in place); returns (exc_name|None, out)"""
    with warnings.catch_warnings(), contextlib.redirect_stdout(io.StringIO()):
        warnings.simplefilter('ignore')
        try:
            kind, val = apply_real(store, op)
        except Exception as exc:  # noqa: BLE001
            return type(exc).__name__, None
    if kind == 'new':
        if _empty(val):
            return 'EmptyResult', None
        store.append(val)
    return None, (val if kind == 'out' else None)


_CM = None


def concat_mutates():
    """does `concat` re-align a later argument in place on this tree? (model parameter `cm`)"""
    global _CM
    if _CM is None:
        R, _, _ = _rsa()
        try:
            a = R.RDMs(np.array([[1., 2., 3.]]), pattern_descriptors={'c': np.array(['x', 'y', 'z'])})
            b = R.RDMs(np.array([[4., 5., 6.]]), pattern_descriptors={'c': np.array(['y', 'x', 'z'])})
            with warnings.catch_warnings():
                warnings.simplefilter('ignore')
                R.concat(a, b)
            _CM = [str(x) for x in b.pattern_descriptors['c']] != ['y', 'x', 'z']
        except Exception:  # noqa: BLE001
            _CM = False
    return _CM


_PK = None


def permute_keeps():
    """does `permute_rdms` pass `dissimilarity_measure` on, on this tree? (model parameter `pk`)"""
    global _PK
    if _PK is None:
        R, _, _ = _rsa()
        try:
            a = R.RDMs(np.array([[1., 2., 3.]]), dissimilarity_measure='probe')
            with warnings.catch_warnings(), contextlib.redirect_stdout(io.StringIO()):
                warnings.simplefilter('ignore')
                b = R.permute_rdms(a, np.array([1, 0, 2]))
            _PK = b.dissimilarity_measure == 'probe'
        except Exception:  # noqa: BLE001
            _PK = False
        ref.PK = _PK
    return _PK


def _idx_impl(case):
    """what numpy selects for the index specs of `case['idxs']` (contract of `resolveIdx`)"""
    out = []
    for spec in case.get('idxs', []):
        try:
            # (a tuple is a multi-axis index for numpy; `rdms[(i, j)]` means the list [i, j])
            idx = dict(spec['idx'], form=None) if spec['idx'].get('form') in ('tuple', 'range') else spec['idx']
            out.append([int(x) for x in np.atleast_1d(np.arange(spec['n'])[py_index(idx)])])
        except Exception:  # noqa: BLE001
            out.append(None)
    return out


def _make_store(case):
    """the initial real objects, or the name of the exception the constructor raised"""
    try:
        with warnings.catch_warnings():
            warnings.simplefilter('ignore')
            return [make_real(o) for o in case['objs']], None
    except Exception as exc:  # noqa: BLE001
        return None, type(exc).__name__


def _leaf_impl(case):
    U = _rsa()[2]
    leaf = []
    for ln in case.get('lens', []):
        try:
            leaf.append([int(U._get_n_from_reduced_vectors(np.zeros((1, ln)))), int(U._get_n_from_length(ln))])
        except Exception as exc:  # noqa: BLE001
            leaf.append(type(exc).__name__)
    return leaf


def run_impl(case):
    if case.get('kind') == 'hashseeds':
        return _hash_batch(case, with_oracle=False)
    return _run_session(case)


def _run_session(case):
    store, exc0 = _make_store(case)
    if store is None:
        return {'init': f'constructor raised {exc0}', 'steps': [],
                'leaf': [] if any(o.get('form') == '4d' for o in case['objs']) else _leaf_impl(case),
                'idxs': [], 'cm': concat_mutates(), 'pk': permute_keeps()}
    steps = []
    for op in case['ops']:
        exc, out = real_step(store, op)
        if op['op'] in READ_ONLY:
            steps.append({'exc': exc is not None, 'out': out, 'exc_name': exc})
        else:
            steps.append({'exc': exc is not None, 'store': [dump_real(r) for r in store], 'exc_name': exc})
    return {'init': [dump_real(r) for r in _make_store(case)[0]], 'steps': steps, 'leaf': _leaf_impl(case),
            'idxs': _idx_impl(case), 'cm': concat_mutates(), 'pk': permute_keeps()}


# ------------------------------------------------------------------ round 6: hash-seed independence
#
# The library builds some dictionaries from *sets* of names (`_merged_rdm_descriptors`), so the
# insertion order of a merged object's descriptor dictionary depends on the process hash seed.  The
# property speaks about names, never about positions: the canonical result of a session must be the
# same under every PYTHONHASHSEED.  A batch case re-runs its member sessions in fresh sub-processes,
# one per hash seed (never fixing the seed of the checking process itself, which would hide
# order-dependent defects), and demands identical canonical results and a silent oracle under each.

HASHSEEDS_QUICK = (0, 1, 2)
HASHSEEDS_THOROUGH = (0, 1, 2, 3, 4, 5)
_HARNESS = os.path.dirname(os.path.dirname(os.path.abspath(__file__)))


def _canon(res):
    return json.dumps(res, sort_keys=True, default=str)


def _hash_main():
    """worker (sub-process): sessions on stdin -> canonical results (+ oracle verdicts) on stdout"""
    job = json.load(sys.stdin)
    out = []
    for c in job['cases']:
        rec = {'impl': _canon(_run_session(c))}
        if job.get('oracle'):
            try:
                rec['oracle'] = oracle(c)
            except Exception as exc:  # noqa: BLE001
                rec['oracle'] = {'what': f'oracle raised {type(exc).__name__}: {exc}'[:200], 'step': -1,
                                 'features': {'fail_op': 'hashseed', 'fail_kind': 'raised'}}
        out.append(rec)
    sys.stdout.write(json.dumps(out, default=str))


def _hash_workers(cases, seeds, with_oracle):
    repo_src = os.path.join(os.environ.get('RSA_REPO', '/repo'), 'src')
    code = ('import sys; sys.path[:0] = [%r, %r]; from engines import C10; C10._hash_main()' % (repo_src, _HARNESS))
    job = json.dumps({'cases': cases, 'oracle': bool(with_oracle)}, default=str).encode()
    procs = []
    for sd in seeds:
        env = dict(os.environ, PYTHONHASHSEED=str(sd), TQDM_DISABLE='1')
        procs.append(subprocess.Popen([sys.executable, '-c', code], stdin=subprocess.PIPE, stdout=subprocess.PIPE,
                                      stderr=subprocess.PIPE, env=env))
    for pr in procs:          # all workers run concurrently
        pr.stdin.write(job)
        pr.stdin.close()
    outs = {}
    for sd, pr in zip(seeds, procs):
        data = pr.stdout.read()
        err = pr.stderr.read()
        rc = pr.wait()
        if rc != 0:
            raise RuntimeError(f'hash-seed worker {sd} exited {rc}: {err.decode(errors="replace")[-400:]}')
        outs[sd] = json.loads(data.decode())
    return outs


def _hash_batch(case, with_oracle):
    """{'seeds', 'n', 'differ': [[k, seed_a, seed_b, text]], 'oracle': [[k, seed, verdict]]} for a batch case"""
    subs, seeds = case['cases'], list(case['seeds'])
    outs = _hash_workers(subs, seeds, with_oracle)
    own = [_canon(_run_session(c)) for c in subs]          # the checking process itself (its own, unfixed seed)
    differ, fails = [], []
    for k in range(len(subs)):
        runs = [('own', own[k])] + [(sd, outs[sd][k]['impl']) for sd in seeds]
        for sd, txt in runs[1:]:
            if txt != runs[0][1]:
                d = _diff(json.loads(runs[0][1]), json.loads(txt), 'result') or 'results differ'
                differ.append([k, runs[0][0], sd, d])
                break
        if with_oracle:
            for sd in seeds:
                if outs[sd][k].get('oracle'):
                    fails.append([k, sd, outs[sd][k]['oracle']])
                    break
    return {'seeds': seeds, 'n': len(subs), 'differ': differ, 'oracle': fails}


def _hash_oracle(case):
    res = _hash_batch(case, with_oracle=True)
    if res['oracle']:
        k, sd, o = res['oracle'][0]
        o = dict(o)
        o['detail'] = f"under PYTHONHASHSEED={sd}, session {k} of the batch: " + str(o.get('detail', ''))
        o['hashseed'], o['session'] = sd, k
        return o
    if res['differ']:
        k, a, b, d = res['differ'][0]
        return {'what': 'the result of a session depends on the process hash seed (PYTHONHASHSEED): set iteration '
                        'order inside the library decides which value a descriptor name gets',
                'detail': f'session {k} of the batch, hash seed {a} vs {b}: {d}', 'session': k, 'step': -1,
                'observed': d, 'expected': 'identical canonical results under every hash seed',
                'features': {'fail_op': 'hashseed', 'fail_kind': 'wrong_result', 'fail_exc': None,
                             'fail_role': 'result'}}
    return None


def hash_batch_case(cases, seeds):
    return {'kind': 'hashseeds', 'seeds': list(seeds), 'cases': cases, 'objs': [], 'ops': [], 'lens': []}

# ------------------------------------------------------------------ model side


MODEL_KEYS = ('op', 'src', 'sel', 'by', 'vals', 'ord', 'reindex', 'other', 'srcs', 'all', 'desc', 'p', 'target',
              'idx', 'keys')


def _enc(x):
    """values of a float descriptor (`FKEYS`) are sent to the model as 2x (order and equality kept)"""
    if isinstance(x, list):
        return [_enc(y) for y in x]
    if isinstance(x, (int, float)) and not isinstance(x, bool):
        return int(round(2 * x))
    return x


def _dec(x):
    if isinstance(x, list):
        return [_dec(y) for y in x]
    return x if x is None else _lbl(x / 2)


def _dec_cols(cols):
    return [[k, (_dec(v) if k in FKEYS else v)] for k, v in cols]


def _model_ops(case):
    """the operations as the driver sees them + for every case op the model step that answers it
    (`sort_by` with several keys is several in-place sorts, `index` reset by the last)"""
    ops, last = [], []
    for op in case['ops']:
        m = {k: v for k, v in op.items() if k in MODEL_KEYS}
        if op['op'] == 'sort_multi':
            for n_k, (by, how) in enumerate(op['keys']):
                fin = n_k == len(op['keys']) - 1
                sub = {'op': 'sort_alpha' if how == 'alpha' else 'sort_list', 'src': op['src'], 'by': by,
                       'reindex': bool(op['reindex'] and fin)}
                if how != 'alpha':
                    sub['vals'] = _enc(list(how)) if by in FKEYS else list(how)
                ops.append(sub)
            last.append(len(ops) - 1)
            continue
        fkey = m.get('by') if m.get('vals') is not None else m.get('desc')
        for key in ('vals', 'all'):
            if m.get(key) is not None and fkey in FKEYS:
                m[key] = _enc(list(m[key]))
        if 'idx' in m and m['idx'] is not None:
            m['idx'] = {k: v for k, v in m['idx'].items() if k != 'form'}
        ops.append(m)
        last.append(len(ops) - 1)
    return ops, last


def model_requests(case):
    if case.get('kind') == 'hashseeds':
        return []
    if any(o.get('form') == '4d' for o in case['objs']):
        return []          # not an RDM stack at all: nothing the model could be asked
    ops, _ = _model_ops(case)
    objs = []
    for o in case['objs']:
        m = {k: copy.deepcopy(o.get(k, [])) for k in ('vecs', 'odesc', 'rdesc', 'pdesc')}
        m['meas'] = o.get('meas')
        for key in ('rdesc', 'pdesc'):
            m[key] = [[k, (_enc(v) if k in FKEYS else v)] for k, v in m[key]]
        if o.get('form') == '3d':
            m['n3d'] = ref.n_from_len(len(o['vecs'][0]))
        if o.get('bad_len'):
            for key in ('rdesc', 'pdesc'):
                for kv in m[key]:
                    if kv[0] == o['bad_len']:
                        kv[1] = kv[1] + [kv[1][-1]]
        objs.append(m)
    reqs = [{'op': 'c10.session', 'objs': objs, 'ops': ops, 'cm': concat_mutates(), 'pk': permute_keeps()}]
    reqs += [{'op': 'c10.nfrom', 'len': ln} for ln in case.get('lens', [])]
    reqs += [{'op': 'c10.resolve', 'n': sp['n'], 'idx': {k: v for k, v in sp['idx'].items() if k != 'form'}}
             for sp in case.get('idxs', [])]
    return reqs


def _norm_obj(o):
    if o is None:
        return None
    return {'n': o['n'], 'vecs': o['vecs'], 'meas': o.get('meas'), 'odesc': sorted(o['odesc']),
            'rdesc': sorted(_dec_cols(o['rdesc'])), 'pdesc': _dec_cols(o['pdesc'])}


def _sorted_rows(rows):
    return [{'v': r['v'], 'rdm': sorted(_dec_cols(r['rdm'])), 'c1': sorted(_dec_cols(r['c1'])),
             'c2': sorted(_dec_cols(r['c2']))} for r in rows]


def _untag(x, tm):
    """replace provenance tags by the real values in a model dump (0 = the diagonal stays 0)"""
    if isinstance(x, list):
        return [_untag(y, tm) for y in x]
    if x is None or x == 0:
        return x
    return tm.get(x, x)


def _untag_obj(o, tm, meas=None):
    if o is None:
        return None
    return dict(o, vecs=_untag(o['vecs'], tm), meas=meas)


def model_result(case, answers):
    if case.get('kind') == 'hashseeds':
        return {'differ': [], 'oracle': []}
    if not answers:
        return {'init': 'constructor rejects', 'steps': [], 'leaf': [], 'idxs': []}
    a = answers[0]
    n_len = len(case.get('lens', []))
    leaf, idxs = answers[1:1 + n_len], answers[1 + n_len:]
    if isinstance(a, dict) and 'model_error' in a:
        if 'rejected by the constructor' in str(a['model_error']):
            return {'init': 'constructor rejects', 'steps': [], 'leaf': leaf, 'idxs': idxs}
        return a
    tm = tag_map(case)
    _, last = _model_ops(case)
    meas0 = [o.get('meas') for o in case['objs']]
    # the measure of an object that a read-out refers to: the latest list seen so far
    steps, cur_meas = [], meas0
    msteps = a['steps']
    first = 0
    for op, k in zip(case['ops'], last):
        group = msteps[first:k + 1]
        first = k + 1
        st = group[-1]
        exc = any(g['exc'] for g in group)
        if 'meas' in st:
            cur_meas = st['meas']
        if op['op'] in READ_ONLY:
            out = st.get('out')
            if out is not None:
                src_meas = cur_meas[op['src']] if op['src'] < len(cur_meas) else None
                if op['op'] in ('iter', 'reversed'):
                    out = [_norm_obj(_untag_obj(x, tm, src_meas)) for x in out]
                elif op['op'] in ('matrices', 'vectors'):
                    out = _untag(out, tm)
                elif op['op'] == 'to_df':
                    out = _sorted_rows([dict(r, v=_untag(r['v'], tm)) for r in out])
            steps.append({'exc': exc, 'out': out})
        else:
            store = [_norm_obj(_untag_obj(x, tm, mm)) for x, mm in zip(st['store'], st['meas'])]
            steps.append({'exc': exc, 'store': store})
    init = [_norm_obj(_untag_obj(x, tm, mm)) for x, mm in zip(a['init'], meas0)]
    return {'init': init, 'steps': steps, 'leaf': leaf, 'idxs': idxs}


def _diff(a, b, path=''):
    if type(a) is not type(b) and not (isinstance(a, (int, float)) and isinstance(b, (int, float))):
        return f'{path}: {a!r} != {b!r}'[:300]
    if isinstance(a, dict):
        if sorted(a) != sorted(b):
            return f'{path}: keys {sorted(a)} != {sorted(b)}'
        for k in sorted(a):
            d = _diff(a[k], b[k], f'{path}.{k}')
            if d:
                return d
        return None
    if isinstance(a, list):
        if len(a) != len(b):
            return f'{path}: length {len(a)} != {len(b)} ({a!r} vs {b!r})'[:300]
        for k, (x, y) in enumerate(zip(a, b)):
            d = _diff(x, y, f'{path}[{k}]')
            if d:
                return d
        return None
    return None if a == b else f'{path}: {a!r} != {b!r}'[:300]


def compare(case, impl, model):
    if case.get('kind') == 'hashseeds':
        if impl['differ']:
            k, a, b, d = impl['differ'][0]
            return f'hash seeds {a} vs {b}: session {k} of the batch gives different canonical results: {d}'[:400]
        return None
    if 'model_error' in model:
        return f'model error {model}'
    if isinstance(impl['init'], str) or isinstance(model['init'], str):
        if isinstance(impl['init'], str) and isinstance(model['init'], str):
            return None
        return f"initial objects: impl {impl['init'] if isinstance(impl['init'], str) else 'accepted'}, " \
               f"model {model['init'] if isinstance(model['init'], str) else 'accepts'}"
    d = _diff(impl['init'], model['init'], 'init')
    if d:
        return 'impl vs model ' + d
    for k, (op, si, sm) in enumerate(zip(case['ops'], impl['steps'], model['steps'])):
        tag = f'step {k} {op["op"]}'
        if si['exc'] != sm['exc']:
            return (f'{tag}: impl {"raised " + str(si["exc_name"]) if si["exc"] else "succeeded"}, '
                    f'model {"rejects" if sm["exc"] else "succeeds"}')
        key = 'out' if op['op'] in READ_ONLY else 'store'
        d = _diff(si.get(key), sm.get(key), key)
        if d:
            return f'{tag}: impl vs model {d}'
    if impl['leaf'] != model['leaf']:
        return f'leaf nFromReduced/nFromLength: impl {impl["leaf"]} model {model["leaf"]}'
    if impl.get('idxs', []) != model.get('idxs', []):
        bad = [(sp, x, y) for sp, x, y in zip(case.get('idxs', []), impl['idxs'], model['idxs']) if x != y]
        return f'index forms: numpy vs resolveIdx {bad[:2]}'
    return None

# ------------------------------------------------------------------ oracle (the property itself)


def to_ref(r):
    """real object -> reference object, reading the *square* form; also checks that vector and
    square form agree and that the stored size is the one recovered from the vector length.
    returns (obj, problem|None)"""
    U = _rsa()[2]
    d = np.asarray(r.dissimilarities)
    n = int(r.n_cond)
    if d.ndim != 2:
        return None, f'dissimilarities have {d.ndim} dimensions'
    if d.shape[1] != n * (n - 1) // 2:
        return None, f'n_cond = {n} but vectors have length {d.shape[1]}'
    if int(U._get_n_from_reduced_vectors(d)) != n:
        return None, f'size recovered from vector length {d.shape[1]} is ' \
                     f'{int(U._get_n_from_reduced_vectors(d))}, not {n}'
    m = r.get_matrices()
    mats = [[[_val(x) for x in row] for row in mat] for mat in m]
    for q, mat in enumerate(mats):
        k = 0
        for a in range(n):
            if mat[a][a] != 0:
                return None, f'diagonal of RDM {q} is {mat[a][a]}'
            for b in range(a + 1, n):
                v = _val(d[q, k])
                if mat[a][b] != v or mat[b][a] != v:
                    return None, f'RDM {q}: vector entry {k} = {v} but matrix[{a}][{b}] = {mat[a][b]}, ' \
                                 f'[{b}][{a}] = {mat[b][a]}'
                k += 1
    for nm, dd, ln in (('rdm', r.rdm_descriptors, d.shape[0]), ('pattern', r.pattern_descriptors, n)):
        for k, v in dd.items():
            try:
                if len(v) != ln:
                    return None, f'{nm} descriptor {k} has {len(v)} values for {ln} rows'
            except TypeError:
                return None, f'{nm} descriptor {k} is not a column: {v!r}'
    o = {'n': n, 'mats': mats, 'meas': _lbl(r.dissimilarity_measure),
         'odesc': {str(k): _lbl(v) for k, v in r.descriptors.items()},
         'rdesc': {str(k): _col(v) for k, v in r.rdm_descriptors.items()},
         'pdesc': [[str(k), _col(v)] for k, v in r.pattern_descriptors.items()]}
    return o, None


def ref_eq(a, b):
    """None if two reference objects are equal (pattern-descriptor key order ignored)"""
    if a['n'] != b['n']:
        return f'n_cond {a["n"]} != {b["n"]}'
    if len(a['mats']) != len(b['mats']):
        return f'n_rdm {len(a["mats"])} != {len(b["mats"])}'
    for q, (x, y) in enumerate(zip(a['mats'], b['mats'])):
        for i in range(a['n']):
            for j in range(a['n']):
                if x[i][j] != y[i][j]:
                    return f'RDM {q} entry ({i},{j}): {x[i][j]} != {y[i][j]}'
    if a.get('meas') != b.get('meas'):
        return f'dissimilarity_measure {a.get("meas")!r} != {b.get("meas")!r}'
    if a['odesc'] != b['odesc']:
        return f'descriptors {a["odesc"]} != {b["odesc"]}'
    if a['rdesc'] != b['rdesc']:
        return f'rdm_descriptors {a["rdesc"]} != {b["rdesc"]}'
    pa, pb = dict(map(tuple, map(lambda kv: (kv[0], tuple(map(repr, kv[1]))), a['pdesc']))), \
        dict(map(tuple, map(lambda kv: (kv[0], tuple(map(repr, kv[1]))), b['pdesc'])))
    if pa != pb:
        return f'pattern_descriptors {a["pdesc"]} != {b["pdesc"]}'
    return None


def _ref_ops(op):
    """the operation as the reference semantics reads it (labels in canonical form: a float
    descriptor value 1.5 is the label '1.5' on both sides)"""
    m = {k: v for k, v in op.items() if k in MODEL_KEYS}
    for key in ('vals', 'all'):
        if m.get(key) is not None:
            m[key] = [_lbl(x) for x in m[key]]
    if m.get('keys') is not None:
        m['keys'] = [[by, (how if how == 'alpha' else [_lbl(x) for x in how])] for by, how in m['keys']]
    return m


WHAT = {'frame': 'changed an object it was not called on',
        'raised': 'admissible call raised',
        'wrong_result': 'result differs: an entry must be NaN exactly for two copies of one condition or an absent '
                        'pair and equal the source value (0.0 included) otherwise; descriptors and the requested '
                        'selection must be kept',
        'inconsistent': 'left an object whose vector form, square form, n_cond and descriptor lengths disagree'}


def _role(op, i, n_before):
    """which object of the store is affected, relative to the operation"""
    if op['op'] in IN_PLACE and i == op.get('src'):
        return 'receiver'
    if i >= n_before:
        return 'result'
    return 'other'


def _fail(case, k, detail, observed, expected, kind, exc=None, role=None):
    op = case['ops'][k]
    return {'what': f"{op['op']}: {WHAT[kind]}" + (f' ({exc})' if exc and kind == 'raised' else ''),
            'detail': detail, 'step': k, 'op': _ref_ops(op), 'observed': observed, 'expected': expected,
            'features': {'fail_op': op['op'], 'fail_kind': kind, 'fail_exc': exc, 'fail_role': role,
                         'fail_idx': (op.get('idx') or {}).get('kind')}}


def oracle(case):
    if case.get('kind') == 'hashseeds':
        return _hash_oracle(case)
    U = _rsa()[2]
    permute_keeps()            # sets ref.PK
    for ln in case.get('lens', []):
        # "the number of conditions is recovered from the vector length for every size"
        m = 1
        while m * (m - 1) // 2 < ln:
            m += 1
        if m * (m - 1) // 2 == ln:
            got = int(U._get_n_from_reduced_vectors(np.zeros((1, ln))))
            if got != m:
                return {'what': 'size recovery: wrong number of conditions from the vector length',
                        'detail': f'length {ln}', 'observed': got, 'expected': m, 'step': -1,
                        'features': {'fail_op': 'leaf', 'fail_kind': 'wrong_result', 'fail_exc': None,
                                     'fail_role': 'leaf'}}
    store, exc0 = _make_store(case)
    if any(o.get('form') == '4d' or o.get('bad_len') for o in case['objs']):
        if store is None:
            return None
        return {'what': 'constructor accepted a malformed stack / descriptor of the wrong length', 'detail': '',
                'step': -1, 'features': {'fail_op': 'init', 'fail_kind': 'wrong_result', 'fail_exc': None,
                                         'fail_role': 'init'}}
    if store is None:
        return {'what': 'constructor raised on a well-formed initial object', 'detail': exc0, 'step': -1,
                'features': {'fail_op': 'init', 'fail_kind': 'raised', 'fail_exc': exc0, 'fail_role': 'init'}}
    for i, (r, spec) in enumerate(zip(store, case['objs'])):
        # the constructor must store exactly what it was given (whatever the array form)
        o, prob = to_ref(r)
        if not prob:
            want = ref.new_obj([[_val(_num(x)) for x in row] for row in obj_vals(spec)],
                               spec.get('odesc', []), _lbl_cols(spec.get('rdesc', [])),
                               _lbl_cols(spec.get('pdesc', [])), spec.get('meas'))
            d = ref_eq(o, want)
            if d:
                return {'what': 'constructor: the object differs from the input it was built from',
                        'detail': f'object {i} ({spec.get("form", "2d")} input, {spec.get("dtype", "float64")}, '
                                  f'{spec.get("layout", "C")}): {d}', 'step': -1,
                        'features': {'fail_op': 'init', 'fail_kind': 'wrong_result', 'fail_exc': None,
                                     'fail_role': 'init'}}
    for i, r in enumerate(store):
        o, prob = to_ref(r)
        if prob:
            return {'what': 'initial object inconsistent', 'detail': f'object {i}: {prob}', 'step': -1,
                    'features': {'fail_op': 'init', 'fail_kind': 'inconsistent', 'fail_exc': None,
                                 'fail_role': 'init'}}
    for k, op in enumerate(case['ops']):
        pre = [to_ref(r)[0] for r in store]
        name = op['op']
        admissible, want, maybe = True, None, set()
        if name not in READ_ONLY:
            try:
                want, maybe = ref.apply(pre, _ref_ops(op))
            except ref.Inadmissible:
                admissible = False
        exc, out = real_step(store, op)
        if not admissible and not exc:
            return None     # outside the admissible space and accepted: nothing is claimed further
        post = []
        for i, r in enumerate(store):
            o, prob = to_ref(r)
            if prob:
                return _fail(case, k, f'after {name}: object {i} is inconsistent: {prob}', prob,
                             'vector form, square form, n_cond and descriptor lengths agree', 'inconsistent',
                             exc, _role(op, i, len(pre)))
            post.append(o)
        if name in READ_ONLY:
            # read-only: nothing may change, and the output must describe the object
            for i, (a, b) in enumerate(zip(pre, post)):
                d = ref_eq(a, b)
                if d:
                    return _fail(case, k, f'{name} changed object {i}: {d}', d, 'unchanged', 'frame',
                                 None, 'other')
            if not 0 <= op['src'] < len(pre):
                continue
            if exc:
                return _fail(case, k, f'{name} raised {exc}', exc, 'a result', 'raised', exc)
            o = pre[op['src']]
            d = check_output(name, o, out)
            if d:
                return _fail(case, k, f'{name}: {d}', d, 'export describes the object', 'wrong_result')
            continue
        if not admissible:
            for i, (a, b) in enumerate(zip(pre, post)):
                d = ref_eq(a, b)
                if d:
                    return _fail(case, k, f'rejected {name} changed object {i}: {d}', d,
                                 'unchanged', 'frame', exc, _role(op, i, len(pre)))
            continue
        if exc:
            return _fail(case, k, f'admissible {name} raised {exc}', exc,
                         'the requested object', 'raised', exc)
        if len(post) != len(want):
            return _fail(case, k, f'{name}: store has {len(post)} objects, expected {len(want)}',
                         len(post), len(want), 'wrong_result')
        for i, (a, b) in enumerate(zip(post, want)):
            d = ref_eq(a, b)
            if d and name == 'concat' and i in maybe:
                # a later argument of concat may be re-aligned (same labelled content, other order)
                t = ref.concat_target(pre[op['srcs'][0]])
                order = ref.align_order(pre[i], t, ref.pget(pre[op['srcs'][0]], t))
                d = ref_eq(a, ref.take_conds(pre[i], order))
            if d:
                target = len(want) - 1 if name not in IN_PLACE else op['src']
                if i == target:
                    return _fail(case, k, f'{name}: result differs from the source values/descriptors: {d}',
                                 d, 'see reference', 'wrong_result', None, _role(op, i, len(pre)))
                return _fail(case, k, f'{name} changed object {i}, which it was not called on: {d}',
                             d, 'unchanged', 'frame', None, 'other')
    return None


def check_output(name, o, out):
    n, nr = o['n'], len(o['mats'])
    if name == 'len':
        return None if out == nr else f'len() = {out} for {nr} RDMs'
    if name in ('iter', 'reversed'):
        if len(out) != nr:
            return f'{len(out)} items for {nr} RDMs'
        for q0, item in enumerate(out):
            q = q0 if name == 'iter' else nr - 1 - q0
            want = ref.take_rows(o, [q])
            got_vec = item['vecs'][0]
            k = 0
            for a in range(n):
                for b in range(a + 1, n):
                    if got_vec[k] != want['mats'][0][a][b]:
                        return f'item {q} pair ({a},{b}) = {got_vec[k]}, source has {want["mats"][0][a][b]}'
                    k += 1
            if dict(map(lambda kv: (kv[0], kv[1]), item['rdesc'])) != want['rdesc']:
                return f'item {q} rdm descriptors {item["rdesc"]} != {want["rdesc"]}'
            if [[k_, v] for k_, v in item['pdesc']] != want['pdesc']:
                return f'item {q} pattern descriptors differ'
        return None
    if name == 'matrices':
        return None if out == o['mats'] else 'get_matrices() differs from the object'
    if name == 'vectors':
        want = [[m[a][b] for a in range(n) for b in range(a + 1, n)] for m in o['mats']]
        return None if out == want else 'get_vectors() differs from the upper triangles'
    if name == 'to_df':
        k = 0
        for q in range(nr):
            for a in range(n):
                for b in range(a + 1, n):
                    if k >= len(out):
                        return f'{len(out)} rows, expected {nr * n * (n - 1) // 2}'
                    row = out[k]
                    want = {'v': o['mats'][q][a][b],
                            'rdm': sorted([[kk, v[q]] for kk, v in o['rdesc'].items()]),
                            'c1': sorted([[kk, v[a]] for kk, v in o['pdesc']]),
                            'c2': sorted([[kk, v[b]] for kk, v in o['pdesc']])}
                    if row != want:
                        return f'row {k}: {row} != {want}'
                    k += 1
        if k != len(out):
            return f'{len(out)} rows, expected {k}'
        return None
    return None

# ------------------------------------------------------------------ generator


POOL = ['a', 'b', 'ab', 'c1', 'c10', 'c2', 'd', 'e']
SUBJ = ['s1', 's2', 's10', 's3']
FVALS = [k + 0.5 for k in range(10)]         # float descriptor values (string order = numeric order)
MEASURES = ['euclidean', 'euclidean', 'euclidean', 'corr', None]


def _rdesc_value(rng, key):
    if key == 'subj':
        return rng.choice(SUBJ)
    if key == 'fsess':
        return rng.choice(FVALS[:3])
    return rng.randint(1, 3)


def _unlbl(by, vals):
    """labels of the simulated store back to the values handed to the library (float descriptors)"""
    if by not in FKEYS:
        return vals
    return [(float(x) if isinstance(x, str) and x != 'zz' else (99 if x == 'zz' else x)) for x in vals]


def gen_index(rng, nr):
    """an argument of `rdms[...]` over nr RDMs (mostly admissible)"""
    u = rng.random()
    if u < 0.35:
        i = rng.randrange(nr)
        if rng.random() < 0.4:
            i -= nr
        return {'kind': 'int', 'i': i, 'form': 'np' if rng.random() < 0.2 else None}
    if u < 0.7:
        l = [rng.randrange(nr) - (nr if rng.random() < 0.3 else 0) for _ in range(rng.randint(1, 3))]
        form = rng.choice([None, None, 'tuple', 'ndarray'])
        if rng.random() < 0.2:
            a = rng.randrange(nr)
            l, form = list(range(a, rng.randint(a, nr - 1) + 1)), 'range'
        return {'kind': 'list', 'l': l, 'form': form}
    if u < 0.85:
        def bound():
            return None if rng.random() < 0.35 else rng.randint(-nr - 1, nr + 1)
        return {'kind': 'slice', 'start': bound(), 'stop': bound(), 'step': rng.choice([1, 1, 1, 2, -1, -1, -2, 3])}
    l = [rng.random() < 0.6 for _ in range(nr)]
    if not any(l):
        l[rng.randrange(nr)] = True
    return {'kind': 'mask', 'l': l, 'form': 'ndarray' if rng.random() < 0.4 else None}


def gen_idx_specs(rng, k):
    out = []
    for _ in range(k):
        n = rng.randint(0, 5)
        idx = gen_index(rng, max(n, 1))
        if idx['kind'] == 'mask' and rng.random() < 0.8:
            idx['l'] = idx['l'][:n] + [False] * (n - len(idx['l']))
        if idx['kind'] in ('int', 'list') and rng.random() < 0.2:
            idx = {'kind': 'int', 'i': rng.randint(-n - 2, n + 1), 'form': None}
        if idx.get('form') == 'range':
            idx['form'] = None
        out.append({'n': n, 'idx': idx})
    return out


class _Tags:
    def __init__(self):
        self.k = 0

    def next(self):
        self.k += 1
        return self.k


def gen_obj(rng, tags, n=None, nr=None, conds=None):
    n = n if n is not None else rng.choice([1, 2, 3, 3, 4, 4, 5, 6])
    nr = nr if nr is not None else rng.randint(1, 4)
    ln = n * (n - 1) // 2
    dtype = rng.choices(['float64', 'float32', 'int64'], weights=[0.6, 0.2, 0.2])[0]
    layout = rng.choices(['C', 'F', 'strided'], weights=[0.5, 0.3, 0.2])[0]
    p_nan = 0.0 if dtype == 'int64' else 0.08
    vecs = [[(None if rng.random() < p_nan else tags.next()) for _ in range(ln)] for _ in range(nr)]
    # real values: the tag itself, or an exact zero, a repeated value, a negative value, a
    # half-integer, an infinity (provenance stays readable through the tag of the position)
    vals, seen = [], []
    for row in vecs:
        vrow = []
        for t in row:
            u = rng.random()
            if t is None:
                v = None
            elif u < 0.12:
                v = 0
            elif u < 0.22 and seen:
                v = rng.choice(seen)
            elif u < 0.30:
                v = -t
            elif u < 0.34 and dtype != 'int64':
                v = rng.choice(['inf', '-inf'])
            elif u < 0.38 and dtype != 'int64':
                v = t + 0.5
            else:
                v = t
            if v is not None and not isinstance(v, str):
                seen.append(v)
            vrow.append(v)
        vals.append(vrow)
    conds_given = conds is not None
    if conds is None:
        conds = rng.sample(POOL, n)
        if n >= 2 and rng.random() < 0.2:
            conds[rng.randrange(n)] = conds[rng.randrange(n)]      # duplicate label
    pdesc = [['conds', list(conds)]]
    if rng.random() < 0.7:
        pdesc.append(['cat', [rng.randint(0, 2) for _ in range(n)]])
    if rng.random() < 0.3:
        pdesc.insert(0, ['grp', [rng.choice(['g1', 'g2']) for _ in range(n)]])
    if rng.random() < 0.3:
        pdesc.append(['num', rng.sample(range(10, 30), n)])
    if rng.random() < 0.3:
        # a float-valued pattern descriptor (half-integers; 25 % with a repeated value)
        fl = rng.sample(FVALS, n)
        if n >= 2 and rng.random() < 0.25:
            fl[rng.randrange(n)] = fl[rng.randrange(n)]
        pdesc.insert(rng.randrange(len(pdesc) + 1), ['fnum', fl])
    rdesc = [['subj', [rng.choice(SUBJ) for _ in range(nr)]]]
    if rng.random() < 0.6:
        rdesc.append(['sess', [rng.randint(1, 3) for _ in range(nr)]])
    if rng.random() < 0.3:
        rdesc.append(['fsess', [rng.choice(FVALS[:3]) for _ in range(nr)]])
    odesc = []
    if rng.random() < 0.7:
        odesc.append(['task', rng.choice(['t1', 't2'])])
    if rng.random() < 0.4:
        odesc.append(['run', rng.randint(1, 2)])
    arr = [k for k, _ in pdesc + rdesc if rng.random() < 0.5]
    o = {'vecs': vecs, 'vals': vals, 'dtype': dtype, 'layout': layout,
         'odesc': odesc, 'rdesc': rdesc, 'pdesc': pdesc, 'arr': arr,
         'meas': rng.choice(MEASURES)}
    # how the constructor is called: 1-D vector, square matrices, scalar descriptors, no pattern descriptors
    if nr == 1 and rng.random() < 0.3:
        o['form'] = '1d'
    elif rng.random() < 0.15:
        o['form'] = '3d'
    if (nr == 1 or n == 1) and rng.random() < 0.4:
        o['scalar_desc'] = True
    if conds_given is False and rng.random() < 0.08:
        o['pdesc'] = []
        o['no_pdesc_arg'] = True
        o['arr'] = [k for k in arr if k in ('subj', 'sess')]
    dict_order(rng, o)
    if rng.random() < 0.4:
        o['arr'] = o['arr'] + ['index']
    return o


def _explicit_index(rng, cols, count, p_explicit, canonical=0.7):
    """round 6: an explicit `index` entry first / in the middle / last, or none (the constructor then adds it
    last); mostly the values the constructor would give, sometimes other integers"""
    cols = [kv for kv in cols if kv[0] != 'index']
    if rng.random() >= p_explicit:
        return cols
    vals = list(range(count))
    if rng.random() >= canonical:
        vals = rng.choice([list(reversed(vals)), [v + 5 for v in vals], [rng.randint(0, 2) for _ in vals]])
    pos = rng.choice(['first', 'mid', 'last'])
    at = {'first': 0, 'mid': len(cols) // 2 if len(cols) > 1 else 0, 'last': len(cols)}[pos]
    return cols[:at] + [['index', vals]] + cols[at:]


def dict_order(rng, o, p_shuffle=0.6):
    """round 6: the same names in another insertion order of the rdm / pattern / object descriptor
    dictionaries (dictionaries are finite maps: nothing may depend on it, except the documented default
    alignment target of `concat` = the first pattern descriptor without repeats)"""
    nr, n = len(o['vecs']), ref.n_from_len(len(o['vecs'][0]))
    if rng.random() < p_shuffle:
        rng.shuffle(o['rdesc'])
    o['rdesc'] = _explicit_index(rng, o['rdesc'], nr, 0.3)
    if o['pdesc']:
        if rng.random() < p_shuffle / 2:
            rng.shuffle(o['pdesc'])
        o['pdesc'] = _explicit_index(rng, o['pdesc'], n, 0.15, canonical=0.85)
    if rng.random() < p_shuffle:
        rng.shuffle(o['odesc'])
    return o


def _lbl_cols(cols):
    return [[k, [_lbl(x) for x in v]] for k, v in cols]


def _ref_of(o):
    return ref.new_obj(o['vecs'], o['odesc'], _lbl_cols(o['rdesc']), _lbl_cols(o['pdesc']), o.get('meas'))


def _pick_vals(rng, col, allow_absent=True):
    present = ref.uniq(col)
    k = rng.randint(1, max(1, min(3, len(present))))
    vals = rng.sample(present, k)
    if rng.random() < 0.25:
        vals.append(rng.choice(vals))                # repeated request
    if allow_absent and rng.random() < 0.15:
        vals.append('zz' if isinstance(col[0], str) else 99)
    rng.shuffle(vals)
    return vals


def gen_op(rng, sim, weights):
    """draw one operation with arguments admissible for the simulated store `sim`"""
    name = rng.choices(OPS, weights=[weights.get(o, 1.0) for o in OPS])[0]
    i = rng.randrange(len(sim))
    o = sim[i]
    nr, n = len(o['mats']), o['n']
    pkeys = [k for k, _ in o['pdesc']]
    rkeys = list(o['rdesc'])
    if name == 'getitem':
        if rng.random() < 0.25:
            return {'op': name, 'src': i, 'sel': [rng.randrange(nr) for _ in range(rng.randint(1, 3))]}
        return {'op': name, 'src': i, 'idx': gen_index(rng, nr)}
    if name == 'dict':
        return {'op': name, 'src': i, 'h5like': rng.random() < 0.4}
    if name in READ_ONLY or name == 'copy':
        return {'op': name, 'src': i}
    if name in ('subset', 'subsample'):
        by = rng.choice(rkeys)
        vals = _unlbl(by, _pick_vals(rng, o['rdesc'][by]))
        return {'op': name, 'src': i, 'by': by, 'vals': vals, 'scalar': rng.random() < 0.4,
                'by_none': rng.random() < 0.7, 'as_array': rng.random() < 0.15, 'as_tuple': rng.random() < 0.12}
    if name in ('subset_pattern', 'subsample_pattern'):
        by = rng.choice(pkeys)
        vals = _unlbl(by, _pick_vals(rng, ref.pget(o, by)))
        return {'op': name, 'src': i, 'by': by, 'vals': vals, 'scalar': rng.random() < 0.4,
                'by_none': rng.random() < 0.7, 'as_array': rng.random() < 0.15, 'as_tuple': rng.random() < 0.12}
    if name == 'reorder':
        p = list(range(n))
        rng.shuffle(p)
        return {'op': name, 'src': i, 'ord': p, 'as_array': rng.random() < 0.5}
    if name == 'sort_alpha':
        return {'op': name, 'src': i, 'by': rng.choice(pkeys), 'reindex': rng.random() < 0.6}
    if name == 'sort_list':
        by = rng.choice(pkeys)
        m = ref.uniq(ref.pget(o, by))
        rng.shuffle(m)
        if rng.random() < 0.1:
            m = m[:-1] if len(m) > 1 else m + ['zz' if isinstance(m[0], str) else 99]
        return {'op': name, 'src': i, 'by': by, 'vals': _unlbl(by, m), 'reindex': rng.random() < 0.6}
    if name == 'sort_multi':
        ks = rng.sample(pkeys, 2) if len(pkeys) >= 2 else None
        if ks is None:
            return None
        keys = []
        for by in ks:
            if rng.random() < 0.6:
                keys.append([by, 'alpha'])
            else:
                m = ref.uniq(ref.pget(o, by))
                rng.shuffle(m)
                keys.append([by, _unlbl(by, m)])
        return {'op': name, 'src': i, 'keys': keys, 'reindex': rng.random() < 0.6}
    if name == 'append':
        cands = [j for j, r in enumerate(sim) if r['n'] == n and all(k in r['rdesc'] for k in o['rdesc'])
                 and r.get('meas') == o.get('meas')]
        more = [j for j in cands if any(k not in o['rdesc'] for k in sim[j]['rdesc'])]
        if more and rng.random() < 0.7:
            cands = more        # the argument has rdm descriptors the receiver lacks: they are dropped
        j = rng.choice(cands) if cands and rng.random() < 0.93 else rng.randrange(len(sim))
        return {'op': name, 'src': i, 'other': j}
    if name == 'concat':
        target = None
        if rng.random() < 0.35:
            target = rng.choice(pkeys)          # explicit target_pdesc (may be 'index', may have repeats)
        t = target if target is not None else ref.concat_target(o)
        cands, moved = [], []
        for j, r in enumerate(sim):
            if r['n'] != n:
                continue
            if r.get('meas') != o.get('meas') and rng.random() < 0.97:
                continue
            if (set(r['rdesc']) != set(o['rdesc']) or set(r['odesc']) != set(o['odesc'])) \
                    and rng.random() < 0.6:
                continue
            if t is not None:
                try:
                    if ref.align_order(r, t, ref.pget(o, t)) is not None:
                        moved.append(j)
                except ref.Inadmissible:
                    continue
            cands.append(j)
        k = rng.choice([0, 1, 1, 2])
        srcs = [i] + [rng.choice(moved if moved and rng.random() < 0.6 else cands)
                      for _ in range(k)] if cands else [i]
        op = {'op': name, 'srcs': srcs, 'argform': rng.choice(['varargs', 'varargs', 'list', 'list', 'tuple', 'gen'])}
        if target is not None:
            op['target'] = target
        return op
    if name == 'from_partials':
        ds = [k for k, v in o['pdesc'] if not ref.has_dup(v) and k != 'index']
        if not ds:
            return None
        d = rng.choice(ds)
        cands = []
        for j, r in enumerate(sim):
            try:
                l = ref.pget(r, d)
            except ref.Inadmissible:
                continue
            if ref.has_dup(l):
                continue
            if r.get('meas') != o.get('meas') and rng.random() < 0.85:
                continue
            if (set(r['rdesc']) != set(o['rdesc']) or set(r['odesc']) != set(o['odesc'])) \
                    and rng.random() < 0.6:
                continue
            if any(isinstance(v, list) for v in r['odesc'].values()) and r['n'] != n:
                continue
            if type(l[0]) is not type(ref.pget(o, d)[0]):
                continue
            cands.append(j)
        srcs = [i] + [rng.choice(cands) for _ in range(rng.choice([0, 1, 1, 2]))]
        allp = None
        if rng.random() < 0.3:
            allp = ref.uniq([x for j in srcs for x in ref.pget(sim[j], d)])
            pool = [_lbl(x) for x in FVALS] if d in FKEYS else (POOL if isinstance(allp[0], str) else [77, 78, 79])
            extra = [x for x in pool if x not in allp]
            if extra and rng.random() < 0.7:
                allp.append(extra[0])
            rng.shuffle(allp)
            allp = _unlbl(d, allp)
        return {'op': name, 'srcs': srcs, 'all': allp, 'desc': d}
    if name == 'permute':
        p = list(range(n))
        rng.shuffle(p)
        return {'op': name, 'src': i, 'p': p, 'p_none': rng.random() < 0.3}
    if name == 'inverse_permute':
        cands = [j for j, r in enumerate(sim) if isinstance(r['odesc'].get('p_inv'), list)]
        if not cands:
            return None
        return {'op': name, 'src': rng.choice(cands)}
    return None


# operations whose inadmissible arguments the generator may still draw: the library raises
RAISES_WHEN_INADMISSIBLE = ('subset', 'subsample', 'subset_pattern', 'subsample_pattern', 'sort_list',
                            'append', 'getitem', 'sort_unknown')
REJECTIONS = ('getitem_oob', 'missing_key', 'append_shape', 'sort_list_missing', 'sort_unknown',
              'concat_bad_target', 'meas_mismatch', 'meas_mismatch', 'getitem_bad_idx')


def gen_rejection(rng, sim):
    kind = rng.choice(REJECTIONS)
    i = rng.randrange(len(sim))
    o = sim[i]
    if kind == 'getitem_oob':
        return {'op': 'getitem', 'src': i, 'sel': [len(o['mats']) + rng.randint(0, 2)], 'int': True}
    if kind == 'getitem_bad_idx':
        nr = len(o['mats'])
        return {'op': 'getitem', 'src': i, 'idx': rng.choice([
            {'kind': 'int', 'i': -nr - 1}, {'kind': 'list', 'l': [0, nr]},
            {'kind': 'list', 'l': [-nr - 1], 'form': 'ndarray'}])}
    if kind == 'meas_mismatch':
        cands = [j for j, r in enumerate(sim) if r['n'] == o['n'] and r.get('meas') != o.get('meas')
                 and all(k in r['rdesc'] for k in o['rdesc'])]
        if cands:
            j = rng.choice(cands)
            return rng.choice([{'op': 'append', 'src': i, 'other': j},
                               {'op': 'concat', 'srcs': [i, j], 'argform': 'list', 'target': 'index'}])
    if kind == 'missing_key':
        return {'op': rng.choice(['subset', 'subset_pattern', 'subsample', 'subsample_pattern']),
                'src': i, 'by': 'nokey', 'vals': ['a']}
    if kind == 'sort_unknown':
        return {'op': 'sort_unknown', 'src': i, 'by': o['pdesc'][0][0], 'method': rng.choice(['beta', 3])}
    if kind == 'concat_bad_target':
        return {'op': 'concat', 'srcs': [i, i], 'target': 'nokey'}
    if kind == 'append_shape':
        cands = [j for j, r in enumerate(sim) if r['n'] != o['n']]
        if cands:
            return {'op': 'append', 'src': i, 'other': rng.choice(cands)}
    return {'op': 'sort_list', 'src': i, 'by': 'conds' if any(k == 'conds' for k, _ in o['pdesc']) else 'index',
            'vals': ['zz'], 'reindex': True}


def gen_case(rng, max_ops, weights=None, n_objs=None):
    tags = _Tags()
    weights = weights or {}
    k = n_objs or rng.choice([1, 2, 2, 3])
    objs = [gen_obj(rng, tags)]
    for _ in range(k - 1):
        # siblings share the label universe of the first object so that concat / from_partials apply
        base = objs[0]
        conds0 = dict(map(tuple, base['pdesc'])).get('conds')
        mode = rng.random()
        if mode < 0.6 and conds0 is not None and not ref.has_dup(conds0):
            conds = list(conds0)
            rng.shuffle(conds)
            o = gen_obj(rng, tags, n=len(conds), conds=conds)
            o['pdesc'] = [['conds', conds]] + [kv for kv in o['pdesc'] if kv[0] not in ('conds', 'grp', 'index')]
            o['rdesc'] = [[kk, [_rdesc_value(rng, kk) for _ in o['vecs']]] for kk, _ in base['rdesc'] if kk != 'index']
            o['odesc'] = [[kk, (rng.choice(['t1', 't2']) if kk == 'task' else rng.randint(1, 2))]
                          for kk, _ in base['odesc']]
            if rng.random() < 0.45:     # heterogeneous descriptor keys
                if rng.random() < 0.5:
                    o['rdesc'] = o['rdesc'] + [['extra', [rng.randint(1, 9) for _ in o['vecs']]]]
                else:
                    o['odesc'] = o['odesc'][1:] + [['note', rng.choice(['x', 'y'])]]
            # round 6: the sibling lists the same names in its own insertion order (built by other code)
            dict_order(rng, o, p_shuffle=0.7)
            o['arr'] = [kk for kk, _ in o['pdesc'] + o['rdesc'] if rng.random() < 0.5]
        elif mode < 0.8:
            o = gen_obj(rng, tags)
            o['rdesc'] = [[kk, [_rdesc_value(rng, kk) for _ in o['vecs']]] for kk, _ in base['rdesc'] if kk != 'index']
            o['odesc'] = [[kk, (rng.choice(['t1', 't2']) if kk == 'task' else rng.randint(1, 2))]
                          for kk, _ in base['odesc']]
            dict_order(rng, o, p_shuffle=0.7)
            o['arr'] = [kk for kk, _ in o['pdesc'] + o['rdesc'] if rng.random() < 0.5]
        else:
            o = gen_obj(rng, tags)
        if rng.random() < 0.85:
            o['meas'] = base.get('meas')
        objs.append(o)
    if rng.random() < 0.015:
        bad = rng.choice(objs)
        if rng.random() < 0.5:
            bad['form'] = '4d'
        else:
            bad['bad_len'] = rng.choice([kv[0] for kv in bad['rdesc'] + bad['pdesc']] or ['subj'])
            bad.pop('scalar_desc', None)
        return {'objs': objs, 'ops': [], 'lens': []}
    permute_keeps()            # sets ref.PK
    sim = [_ref_of(o) for o in objs]
    ops = []
    n_ops = rng.randint(1, max_ops)
    tries = 0
    while len(ops) < n_ops and tries < 10 * n_ops:
        tries += 1
        rejection = rng.random() < 0.04
        op = gen_rejection(rng, sim) if rejection else gen_op(rng, sim, weights)
        if op is None:
            continue
        target = None
        if op['op'] not in READ_ONLY:
            before = len(sim)
            try:
                sim, _ = ref.apply(sim, _ref_ops(op))
                target = op['src'] if op['op'] in IN_PLACE else (len(sim) - 1 if len(sim) > before else None)
            except ref.Inadmissible:
                # only the documented rejections (which the library raises on) are kept
                if not (rejection or op['op'] in RAISES_WHEN_INADMISSIBLE):
                    continue
        ops.append(op)
        if target is not None and rng.random() < 0.6:
            # read the changed / new object out right away: long-form export, square and
            # vector form, dictionary round trip, iteration
            kind = rng.choices(['to_df', 'matrices', 'vectors', 'dict', 'iter', 'reversed', 'len'],
                               weights=[0.38, 0.14, 0.14, 0.14, 0.1, 0.06, 0.04])[0]
            ops.append({'op': kind, 'src': target, 'h5like': rng.random() < 0.4} if kind == 'dict'
                       else {'op': kind, 'src': target})
            if kind == 'dict':
                sim, _ = ref.apply(sim, {'op': 'dict', 'src': target})
        if op['op'] == 'append' and target is not None and rng.random() < 0.5:
            # follow an append by a merge with the appended object: the only kind of history in which a
            # retained RDM can show another value for a descriptor key it once had (`reachable_rdesc_full_false`)
            follow = rng.choice([
                {'op': 'concat', 'srcs': [op['src'], op['other']], 'argform': 'list', 'target': 'index'},
                {'op': 'concat', 'srcs': [op['other'], op['src']], 'argform': 'varargs'}])
            try:
                sim, _ = ref.apply(sim, _ref_ops(follow))
                ops.append(follow)
                if rng.random() < 0.5:
                    ops.append({'op': 'to_df', 'src': len(sim) - 1})
            except ref.Inadmissible:
                pass
        if len(sim) > 14:
            break
    lens = [rng.randint(0, 60)] + [m * (m - 1) // 2 for m in (rng.randint(1, 200),)]
    return {'objs': objs, 'ops': ops, 'lens': lens, 'idxs': gen_idx_specs(rng, 3)}


def fixed_cases():
    """a few hand-written sessions that reach the rarer paths on every run"""
    a = {'vecs': [[1, 2, 3, 4, 5, 6], [7, 8, None, 10, 11, 12]], 'odesc': [['task', 't1'], ['run', 1]],
         'rdesc': [['subj', ['s1', 's2']]],
         'pdesc': [['conds', ['b', 'a', 'ab', 'c10']], ['cat', [1, 0, 1, 2]]], 'arr': ['conds'],
         'vals': [[0, 2, 2, -4, 0.5, 'inf'], [7, 0, None, 0, 7, -1]], 'layout': 'F'}
    b = {'vecs': [[21, 22, 23, 24, 25, 26]], 'odesc': [['task', 't1'], ['run', 2]],
         'rdesc': [['subj', ['s3']]],
         'pdesc': [['conds', ['a', 'ab', 'c10', 'b']], ['cat', [0, 1, 2, 1]]], 'arr': [],
         'vals': [[0, 22, 0, 24, 22, 26]], 'dtype': 'int64', 'layout': 'strided'}
    c = {'vecs': [[31, 32, 33]], 'odesc': [['task', 't1'], ['run', 2]], 'rdesc': [['subj', ['s4']]],
         'pdesc': [['conds', ['c10', 'e', 'a']]], 'arr': ['subj']}
    yield {'objs': [a, b], 'lens': [0, 1, 3, 6, 10], 'ops': [
        {'op': 'concat', 'srcs': [0, 1], 'varargs': True}, {'op': 'to_df', 'src': 2},
        {'op': 'concat', 'srcs': [1, 0, 1]}, {'op': 'matrices', 'src': 3},
        {'op': 'subset', 'src': 3, 'by': 'run', 'vals': [2], 'scalar': True}]}
    yield {'objs': [a, c], 'lens': [15, 21], 'ops': [
        {'op': 'from_partials', 'srcs': [0, 1], 'all': None, 'desc': 'conds'}, {'op': 'matrices', 'src': 2},
        {'op': 'from_partials', 'srcs': [1, 0], 'all': ['e', 'd', 'c10', 'a', 'ab', 'b'], 'desc': 'conds'},
        {'op': 'to_df', 'src': 3}, {'op': 'subset_pattern', 'src': 3, 'by': 'conds', 'vals': ['a', 'e', 'c10']}]}
    yield {'objs': [a], 'lens': [28], 'ops': [
        {'op': 'permute', 'src': 0, 'p': [1, 2, 3, 0]}, {'op': 'inverse_permute', 'src': 1},
        {'op': 'subsample_pattern', 'src': 0, 'by': 'cat', 'vals': [1, 1, 0]}, {'op': 'vectors', 'src': 3},
        {'op': 'matrices', 'src': 3}, {'op': 'to_df', 'src': 3},
        {'op': 'subset_pattern', 'src': 0, 'by': 'conds', 'vals': ['a', 'ab', 'c10']}, {'op': 'to_df', 'src': 4},
        {'op': 'dict', 'src': 4}, {'op': 'to_df', 'src': 5},
        {'op': 'reorder', 'src': 3, 'ord': [4, 0, 3, 1, 2], 'as_array': True}, {'op': 'to_df', 'src': 3},
        {'op': 'sort_alpha', 'src': 3, 'by': 'conds', 'reindex': False}, {'op': 'iter', 'src': 3}]}
    yield {'objs': [dict(a, form='4d')], 'ops': [], 'lens': []}
    yield {'objs': [dict(b, bad_len='conds')], 'ops': [], 'lens': []}
    single = {'vecs': [[51, 52, 53]], 'vals': [[0, 52, 0]], 'odesc': [], 'rdesc': [['subj', ['s9']]],
              'pdesc': [], 'no_pdesc_arg': True, 'form': '1d', 'scalar_desc': True, 'arr': []}
    yield {'objs': [a, b, single, dict(b, form='3d', layout='C')], 'lens': [55], 'ops': [
        {'op': 'concat', 'srcs': [0, 1], 'target': 'conds'}, {'op': 'to_df', 'src': 4},
        {'op': 'reorder', 'src': 1, 'ord': [2, 0, 3, 1]},
        {'op': 'concat', 'srcs': [0, 1], 'target': 'index', 'varargs': True}, {'op': 'matrices', 'src': 5},
        {'op': 'concat', 'srcs': [0, 1], 'target': 'nokey'},
        {'op': 'permute', 'src': 2, 'p': [2, 0, 1], 'p_none': True}, {'op': 'to_df', 'src': 6},
        {'op': 'sort_unknown', 'src': 0, 'by': 'conds', 'method': 'beta'},
        {'op': 'dict', 'src': 6, 'h5like': True}, {'op': 'reversed', 'src': 5}, {'op': 'len', 'src': 5},
        {'op': 'append', 'src': 3, 'other': 1}, {'op': 'vectors', 'src': 3}]}
    d = {'vecs': [[41, 42, 43, 44, 45, 46]], 'odesc': [['task', 't2'], ['note', 'x']],
         'rdesc': [['subj', ['s5']], ['extra', [7]]],
         'pdesc': [['conds', ['c10', 'b', 'ab', 'a']]], 'arr': ['extra']}
    yield {'objs': [a, d], 'lens': [45], 'ops': [
        {'op': 'concat', 'srcs': [0, 1]}, {'op': 'to_df', 'src': 2},
        {'op': 'concat', 'srcs': [1, 0], 'varargs': True}, {'op': 'subset', 'src': 3, 'by': 'extra', 'vals': [7]},
        {'op': 'from_partials', 'srcs': [1, 0], 'all': None, 'desc': 'conds'},
        {'op': 'subsample', 'src': 5, 'by': 'note', 'vals': ['x', 'x']}]}
    yield {'objs': [a, b], 'lens': [36], 'ops': [
        {'op': 'getitem', 'src': 0, 'sel': [1], 'int': True}, {'op': 'append', 'src': 2, 'other': 1},
        {'op': 'subsample', 'src': 2, 'by': 'index', 'vals': [1, 0, 1], 'by_none': True},
        {'op': 'sort_list', 'src': 3, 'by': 'cat', 'vals': [2, 1, 0], 'reindex': True},
        {'op': 'dict', 'src': 3}, {'op': 'copy', 'src': 4}, {'op': 'sort_alpha', 'src': 5, 'by': 'cat', 'reindex': True},
        {'op': 'matrices', 'src': 4}]}


def fixed_cases_r3():
    """round 3: the rarer paths of the index forms, measures, float descriptors, key-dropping append"""
    # the Lean witness `cexStore` / `cexOps` on real objects: append drops `extra`, concat refills it with None
    A = {'vecs': [[1]], 'odesc': [], 'rdesc': [['subj', ['s1']]], 'pdesc': [], 'arr': [], 'meas': 'euclidean'}
    B = {'vecs': [[2]], 'odesc': [], 'rdesc': [['subj', ['s2']], ['extra', [7]]], 'pdesc': [], 'arr': [],
         'meas': 'euclidean'}
    yield {'objs': [A, B], 'lens': [], 'idxs': [], 'ops': [
        {'op': 'append', 'src': 0, 'other': 1}, {'op': 'concat', 'srcs': [0, 1], 'argform': 'gen'},
        {'op': 'to_df', 'src': 2}, {'op': 'getitem', 'src': 2, 'idx': {'kind': 'int', 'i': -1}},
        {'op': 'subset', 'src': 2, 'by': 'extra', 'vals': [7], 'scalar': True}]}
    f = {'vecs': [[1, 2, 3, 4, 5, 6], [7, 8, 9, 10, 11, 12], [13, 14, None, 16, 17, 18]],
         'vals': [[0, 2, 3, 4, 5, 6], [7, 0, 9, 10, 7, 12], [13, 14, None, 0, 17, -18]],
         'odesc': [['task', 't1']], 'rdesc': [['subj', ['s1', 's2', 's1']], ['fsess', [0.5, 1.5, 0.5]]],
         'pdesc': [['fnum', [2.5, 0.5, 1.5, 0.5]], ['conds', ['b', 'a', 'ab', 'c10']]], 'arr': ['fnum'],
         'meas': 'corr'}
    g = dict(f, vecs=[[21, 22, 23, 24, 25, 26]], vals=[[21, 0, 23, 24, 25, 26]], rdesc=[['subj', ['s3']], ['fsess', [2.5]]],
             pdesc=[['fnum', [0.5, 1.5, 2.5, 3.5]], ['conds', ['a', 'ab', 'b', 'c10']]], arr=['fsess'], meas=None)
    yield {'objs': [f, g], 'lens': [], 'idxs': [], 'ops': [
        {'op': 'getitem', 'src': 0, 'idx': {'kind': 'list', 'l': [-1, 0], 'form': 'tuple'}}, {'op': 'to_df', 'src': 2},
        {'op': 'getitem', 'src': 0, 'idx': {'kind': 'list', 'l': [2, -3], 'form': 'ndarray'}},
        {'op': 'getitem', 'src': 0, 'idx': {'kind': 'list', 'l': [1, 2], 'form': 'range'}},
        {'op': 'getitem', 'src': 0, 'idx': {'kind': 'int', 'i': 1, 'form': 'np'}},
        {'op': 'subset', 'src': 0, 'by': 'fsess', 'vals': [0.5], 'scalar': True}, {'op': 'to_df', 'src': 6},
        {'op': 'subsample', 'src': 0, 'by': 'fsess', 'vals': [1.5, 0.5, 1.5], 'as_tuple': True},
        {'op': 'subset_pattern', 'src': 0, 'by': 'fnum', 'vals': [0.5, 2.5], 'as_tuple': True},
        {'op': 'subsample_pattern', 'src': 0, 'by': 'fnum', 'vals': [0.5, 0.5]}, {'op': 'matrices', 'src': 9},
        {'op': 'sort_alpha', 'src': 0, 'by': 'fnum', 'reindex': True}, {'op': 'to_df', 'src': 0},
        {'op': 'sort_multi', 'src': 0, 'keys': [['conds', 'alpha'], ['fnum', [0.5, 2.5, 1.5]]], 'reindex': False},
        {'op': 'append', 'src': 0, 'other': 1},                         # corr vs None: rejected
        {'op': 'concat', 'srcs': [0, 1], 'argform': 'tuple'},           # rejected too
        {'op': 'permute', 'src': 0, 'p': [3, 1, 0, 2]},                 # measure dropped (pk = false)
        {'op': 'concat', 'srcs': [10, 1], 'argform': 'gen', 'target': 'conds'},
        {'op': 'from_partials', 'srcs': [0, 1], 'all': None, 'desc': 'conds'},   # mixed measures: the last one wins
        {'op': 'from_partials', 'srcs': [1], 'all': [3.5, 0.5, 2.5, 1.5, 4.5], 'desc': 'fnum'},
        {'op': 'to_df', 'src': 13}]}
    h = dict(g, meas='corr', vecs=[[31, 32, 33, 34, 35, 36]], vals=[[31, 32, 0, 34, 35, 36]])
    yield {'objs': [f, h], 'lens': [], 'idxs': [], 'ops': [
        # a tuple / a generator of objects whose later member must be re-aligned (conds in another order)
        {'op': 'concat', 'srcs': [0, 1], 'argform': 'tuple', 'target': 'conds'}, {'op': 'to_df', 'src': 2},
        {'op': 'concat', 'srcs': [1, 0, 1], 'argform': 'gen', 'target': 'conds'}, {'op': 'matrices', 'src': 3},
        {'op': 'getitem', 'src': 3, 'idx': {'kind': 'list', 'l': [3, -4, 1], 'form': 'ndarray'}}]}
    yield {'objs': [f], 'lens': [], 'idxs': [], 'ops': [
        {'op': 'getitem', 'src': 0, 'idx': {'kind': 'int', 'i': -4}},          # out of range: rejected
        {'op': 'getitem', 'src': 0, 'idx': {'kind': 'list', 'l': [0, 3]}},     # rejected
        {'op': 'getitem', 'src': 0, 'idx': {'kind': 'slice', 'start': 3, 'stop': None, 'step': 1}}]}   # empty
    yield {'objs': [f], 'lens': [], 'idxs': [], 'ops': [
        {'op': 'getitem', 'src': 0, 'idx': {'kind': 'slice', 'start': None, 'stop': None, 'step': -1}},
        {'op': 'to_df', 'src': 1}]}
    yield {'objs': [f], 'lens': [], 'idxs': [], 'ops': [
        {'op': 'getitem', 'src': 0, 'idx': {'kind': 'slice', 'start': 1, 'stop': None, 'step': 1}}]}
    yield {'objs': [f], 'lens': [], 'idxs': [], 'ops': [
        {'op': 'getitem', 'src': 0, 'idx': {'kind': 'mask', 'l': [True, False, True]}}, {'op': 'iter', 'src': 1}]}
    yield {'objs': [f], 'lens': [], 'idxs': [], 'ops': [
        {'op': 'getitem', 'src': 0, 'idx': {'kind': 'mask', 'l': [True, True, True], 'form': 'ndarray'}}]}


def fixed_cases_r6():
    """round 6: the same descriptor names in different insertion orders; an explicit `index` first / in the
    middle; append / concat / from_partials across such objects, and append of / to a merged object"""
    pd_a = [['conds', ['b', 'a', 'ab', 'c10']], ['cat', [1, 0, 1, 2]]]
    pd_b = [['cat', [0, 1, 2, 1]], ['conds', ['a', 'ab', 'c10', 'b']]]
    A = {'vecs': [[1, 2, 3, 4, 5, 6], [7, 8, 9, 10, 11, 12]], 'odesc': [['task', 't1'], ['run', 1]],
         'rdesc': [['sess', [1, 2]], ['subj', ['s7', 's7']], ['roi', ['V1', 'IT']]], 'pdesc': pd_a, 'arr': ['subj']}
    B = {'vecs': [[21, 22, 23, 24, 25, 26], [27, 28, 29, 30, 31, 32], [33, 34, 35, 36, 37, 38]],
         'odesc': [['run', 1], ['task', 't1']],
         'rdesc': [['roi', ['V4', 'V1', 'IT']], ['subj', ['s12', 's12', 's31']], ['sess', [3, 4, 5]]],
         'pdesc': pd_b, 'arr': ['roi', 'conds']}
    Ci = dict(A, vecs=[[41, 42, 43, 44, 45, 46]],
              rdesc=[['index', [0]], ['sess', [6]], ['subj', ['s40']], ['roi', ['V2']]], arr=['index'])
    Di = dict(B, vecs=[[51, 52, 53, 54, 55, 56], [57, 58, 59, 60, 61, 62]],
              rdesc=[['subj', ['s50', 's51']], ['index', [1, 0]], ['roi', ['V3', 'V3']], ['extra', [8, 9]],
                     ['sess', [7, 8]]], arr=[])
    # every rotation / transposition of the argument's order against the receiver's
    for order in (['sess', 'roi', 'subj'], ['subj', 'sess', 'roi'], ['subj', 'roi', 'sess'], ['roi', 'sess', 'subj']):
        cols = dict(map(tuple, B['rdesc']))
        Bp = dict(B, rdesc=[[k, cols[k]] for k in order])
        yield {'objs': [A, Bp], 'lens': [], 'idxs': [], 'ops': [
            {'op': 'append', 'src': 0, 'other': 1}, {'op': 'to_df', 'src': 0},
            {'op': 'getitem', 'src': 0, 'idx': {'kind': 'int', 'i': 3}}]}
    yield {'objs': [A, B], 'lens': [], 'idxs': [], 'ops': [
        {'op': 'append', 'src': 0, 'other': 1}, {'op': 'to_df', 'src': 0},
        {'op': 'subset', 'src': 0, 'by': 'roi', 'vals': ['V4', 'IT']},
        {'op': 'append', 'src': 1, 'other': 0}, {'op': 'iter', 'src': 1}]}
    yield {'objs': [Ci, B, Di], 'lens': [], 'idxs': [], 'ops': [
        {'op': 'append', 'src': 0, 'other': 1}, {'op': 'to_df', 'src': 0},      # receiver: explicit index first
        {'op': 'append', 'src': 1, 'other': 2}, {'op': 'to_df', 'src': 1},      # argument: index in the middle, extra key
        {'op': 'append', 'src': 0, 'other': 2}, {'op': 'dict', 'src': 0},
        {'op': 'concat', 'srcs': [0, 2], 'argform': 'list'}, {'op': 'to_df', 'src': 4}]}
    yield {'objs': [A, B, Ci], 'lens': [], 'idxs': [], 'ops': [
        {'op': 'concat', 'srcs': [0, 1], 'argform': 'varargs'}, {'op': 'to_df', 'src': 3},     # permuted-concat
        {'op': 'append', 'src': 3, 'other': 2}, {'op': 'to_df', 'src': 3},                     # merged.append(c)
        {'op': 'append', 'src': 2, 'other': 3}, {'op': 'iter', 'src': 2},                      # c.append(merged)
        {'op': 'concat', 'srcs': [1, 0], 'argform': 'tuple'},
        {'op': 'append', 'src': 0, 'other': 4}, {'op': 'to_df', 'src': 0},
        {'op': 'getitem', 'src': 0, 'idx': {'kind': 'list', 'l': [4, 0, 1]}},
        {'op': 'concat', 'srcs': [5, 1], 'argform': 'gen'}, {'op': 'to_df', 'src': 6}]}
    yield {'objs': [A, B, Ci], 'lens': [], 'idxs': [], 'ops': [
        {'op': 'from_partials', 'srcs': [0, 1], 'all': None, 'desc': 'conds'}, {'op': 'to_df', 'src': 3},
        {'op': 'append', 'src': 3, 'other': 3},
        {'op': 'subset_pattern', 'src': 1, 'by': 'conds', 'vals': ['a', 'b', 'ab']},
        {'op': 'from_partials', 'srcs': [4, 2, 0], 'all': ['c10', 'b', 'ab', 'a'], 'desc': 'conds'},
        {'op': 'to_df', 'src': 5},
        {'op': 'from_partials', 'srcs': [2], 'all': None, 'desc': 'conds'},
        {'op': 'append', 'src': 6, 'other': 5}, {'op': 'iter', 'src': 6}]}


def exhaustive_index_specs():
    """every slice with bounds in -n-2 … n+2 / None and step ±1, ±2, ±3, every int, every mask, for n ≤ 4:
    `resolveIdx` against numpy"""
    specs = []
    for n in range(0, 5):
        bounds = [None] + list(range(-n - 2, n + 3))
        for a in bounds:
            for z in bounds:
                for st in (1, 2, 3, -1, -2, -3):
                    specs.append({'n': n, 'idx': {'kind': 'slice', 'start': a, 'stop': z, 'step': st}})
        for i in range(-n - 2, n + 2):
            specs.append({'n': n, 'idx': {'kind': 'int', 'i': i}})
            specs.append({'n': n, 'idx': {'kind': 'list', 'l': [i, 0] if n else [i]}})
        for bits in range(1 << n):
            specs.append({'n': n, 'idx': {'kind': 'mask', 'l': [bool(bits >> k & 1) for k in range(n)]}})
        specs.append({'n': n, 'idx': {'kind': 'mask', 'l': [True] * (n + 1)}})
    return specs


def generate(rng, tier):
    yield from fixed_cases()
    yield from fixed_cases_r3()
    if tier != 'quick':
        a = next(fixed_cases())['objs'][0]
        yield {'objs': [a], 'ops': [], 'lens': [], 'idxs': exhaustive_index_specs()}
    r6 = list(fixed_cases_r6())
    yield from r6
    if tier == 'quick':
        sessions = [gen_case(rng, 10) for _ in range(1000)]
        yield hash_batch_case(r6 + _hash_sample(rng, sessions, 50), HASHSEEDS_QUICK)
        yield from sessions
    else:
        yield from exhaustive_short(rng)
        sessions = [gen_case(rng, 30) for _ in range(5000)]
        yield hash_batch_case(r6 + _hash_sample(rng, sessions, 600), HASHSEEDS_THOROUGH)
        yield from sessions


def _hash_sample(rng, sessions, k):
    """sessions re-run under several hash seeds: those in which a merged object (whose dictionaries the
    library builds from sets) is used again, then appends, then anything"""
    def score(c):
        names = [op['op'] for op in c['ops']]
        merges = [q for q, nm in enumerate(names) if nm in ('concat', 'from_partials')]
        if merges and 'append' in names[merges[0]:]:
            return 0
        if merges:
            return 1
        return 2 if 'append' in names else 3
    pool = [c for c in sessions if c['ops']]
    rng_order = list(range(len(pool)))
    rng.shuffle(rng_order)
    rng_order.sort(key=lambda q: score(pool[q]))
    return [pool[q] for q in rng_order[:k]]


def exhaustive_short(rng):
    """all sequences of length <= 2 (and a sample of length 3) over an instantiated operation
    alphabet on two small objects"""
    tags = _Tags()
    a = {'vecs': [[tags.next() for _ in range(3)] for _ in range(2)], 'odesc': [['task', 't1']],
         'rdesc': [['subj', ['s1', 's2']]], 'pdesc': [['conds', ['b', 'a', 'ab']], ['cat', [1, 0, 1]]],
         'arr': ['conds'], 'layout': 'F'}
    a['vals'] = [[0, 2, 2], [-4, 5, 0]]              # exact zeros, a tie, a negative value
    b = {'vecs': [[tags.next(), None, tags.next()]], 'odesc': [['task', 't2']],
         'rdesc': [['subj', ['s1']]], 'pdesc': [['conds', ['a', 'ab', 'b']], ['cat', [0, 1, 1]]],
         'arr': ['subj'], 'dtype': 'float32', 'layout': 'strided'}
    b['vals'] = [[0, None, 'inf']]
    alphabet = []
    for s in (0, 1, 2):
        alphabet += [
            {'op': 'getitem', 'src': s, 'sel': [0], 'int': True},
            {'op': 'subset', 'src': s, 'by': 'subj', 'vals': ['s1'], 'scalar': True},
            {'op': 'subsample', 'src': s, 'by': 'subj', 'vals': ['s1', 's1']},
            {'op': 'subset_pattern', 'src': s, 'by': 'conds', 'vals': ['a', 'b']},
            {'op': 'subset_pattern', 'src': s, 'by': 'conds', 'vals': ['ab'], 'scalar': True},
            {'op': 'subsample_pattern', 'src': s, 'by': 'cat', 'vals': [1, 1]},
            {'op': 'reorder', 'src': s, 'ord': [2, 0, 1]},
            {'op': 'sort_alpha', 'src': s, 'by': 'conds', 'reindex': True},
            {'op': 'sort_list', 'src': s, 'by': 'cat', 'vals': [1, 0], 'reindex': False},
            {'op': 'append', 'src': s, 'other': (s + 1) % 2},
            {'op': 'concat', 'srcs': [s, (s + 1) % 2]},
            {'op': 'concat', 'srcs': [s]},
            {'op': 'copy', 'src': s},
            {'op': 'dict', 'src': s},
            {'op': 'from_partials', 'srcs': [s, (s + 1) % 2], 'all': None, 'desc': 'conds'},
            {'op': 'permute', 'src': s, 'p': [1, 2, 0]},
            {'op': 'inverse_permute', 'src': s},
            {'op': 'to_df', 'src': s},
            {'op': 'matrices', 'src': s},
        ]
    base = {'objs': [a, b], 'lens': [3, 7]}
    first = [op for op in alphabet if all(x < 2 for x in ([op.get('src', 0), op.get('other', 0)]
                                                          + op.get('srcs', [])))]
    sim0 = [_ref_of(a), _ref_of(b)]

    def admissible(ops):
        sim = sim0
        for op in ops:
            if op['op'] in READ_ONLY:
                if op['src'] >= len(sim):
                    return False
                continue
            try:
                sim, _ = ref.apply(sim, _ref_ops(op))
            except ref.Inadmissible:
                if op['op'] not in RAISES_WHEN_INADMISSIBLE + ('inverse_permute',) \
                        or any(x >= len(sim) for x in [op.get('src', 0), op.get('other', 0)]):
                    return False
        return True
    for o1 in first:
        if admissible([o1]):
            yield dict(base, ops=[o1])
        for o2 in alphabet:
            if admissible([o1, o2]):
                yield dict(base, ops=[o1, o2])
    triples = [(o1, o2, o3) for o1 in first for o2 in alphabet for o3 in alphabet]
    for o1, o2, o3 in rng.sample(triples, 9000):
        if admissible([o1, o2, o3]):
            yield dict(base, ops=[o1, o2, o3])


def search(rng, tier):
    for _ in range(4000 if tier == 'quick' else 40000):
        yield gen_case(rng, 6)

# ------------------------------------------------------------------ features, shrinking


def features(case, impl):
    if case.get('kind') == 'hashseeds':
        ran = isinstance(impl, dict) and impl.get('n', 0) >= 1 and len(impl.get('seeds', [])) >= 2
        return {'n_objs': 0, 'n_ops': 0, 'first_op': 'hashseeds',
                'branches': ['hashseed:subprocess'] if ran else []}
    br = set()
    names = [op['op'] for op in case['ops']]
    for op in case['ops']:
        br.add('op:' + ('sort_list' if op['op'] == 'sort_unknown' else op['op']))
        if op['op'] == 'sort_unknown':
            br.add('sort:unknown_method')
        if op['op'] == 'concat' and op.get('target') is not None:
            br.add('concat:explicit_target')
        if op['op'] == 'permute' and op.get('p_none'):
            br.add('permute:random')
        if op['op'] == 'dict' and op.get('h5like'):
            br.add('dict:h5like')
        if op.get('by_none') and op.get('by') == 'index':
            br.add('by_none')
        if op.get('scalar') and len(op.get('vals', [])) == 1:
            br.add('scalar_value')
        if op.get('as_tuple') and not (op.get('scalar') and len(op.get('vals', [])) == 1) \
                and not op.get('as_array') and op['op'] in ('subset', 'subsample', 'subset_pattern',
                                                            'subsample_pattern'):
            br.add('value:tuple')
        if op['op'] == 'concat' and op.get('argform') in ('gen', 'tuple'):
            br.add('concat:generator' if op['argform'] == 'gen' else 'concat:tuple')
        if op.get('by') in FKEYS and op['op'] in ('subset', 'subsample', 'subset_pattern', 'subsample_pattern',
                                                  'sort_alpha', 'sort_list'):
            br.add('desc:float_selected')
        idx = op.get('idx') if op['op'] == 'getitem' else None
        if idx:
            kind, form = idx['kind'], idx.get('form')
            if kind == 'int':
                br.add('getitem:neg_int' if idx['i'] < 0 else 'getitem:int')
                if form == 'np':
                    br.add('getitem:np_int')
            elif kind == 'list':
                if any(x < 0 for x in idx['l']):
                    br.add('getitem:neg_in_list')
                br.add('getitem:' + (form or 'list'))
            elif kind == 'slice':
                br.add('getitem:slice')
                if idx['step'] < 0:
                    br.add('getitem:slice_neg_step')
            elif kind == 'mask':
                br.add('getitem:mask_array' if form == 'ndarray' else 'getitem:mask_list')
    if case.get('idxs'):
        br.add('leaf:resolve_idx')
    n_init = len(case['objs'])
    derived, made_by = set(), {}
    n_store = n_init
    for op in case['ops']:
        if op['op'] in IN_PLACE:
            derived.add(op.get('src'))
            made_by[op.get('src')] = op['op']
        elif op['op'] in READ_ONLY:
            if op['src'] in derived or op['src'] >= n_init:
                br.add('readout:derived')
                br.add(op['op'] + ':derived')
                how = made_by.get(op['src'])
                if op['op'] == 'to_df' and how == 'subset_pattern':
                    br.add('to_df:after_subset_pattern')
                if op['op'] == 'to_df' and how in ('reorder', 'sort_alpha', 'sort_list'):
                    br.add('to_df:after_reorder')
                if how == 'subsample_pattern':
                    br.add('readout:after_subsample_pattern')
        else:
            # a value-returning operation (its slot is approximate when an earlier one was rejected;
            # the tag is only used for coverage accounting)
            if op['op'] == 'dict' and (op['src'] in derived or op['src'] >= n_init):
                br.add('dict:derived')
                br.add('readout:derived')
            made_by[n_store] = op['op']
            n_store += 1
    for o in case['objs']:
        if o.get('form') in ('1d', '3d'):
            br.add('init:' + o['form'])
        if o.get('form') == '4d':
            br.add('init:rejected_ndim')
        if o.get('bad_len'):
            br.add('init:rejected_desc_len')
        if o.get('scalar_desc'):
            br.add('init:scalar_desc')
        if o.get('no_pdesc_arg'):
            br.add('init:no_pdesc')
        flat = [x for v in obj_vals(o) for x in v if x is not None]
        nums = [x for x in flat if not isinstance(x, str)]
        if any(x == 0 for x in nums):
            br.add('value:zero')
        if len(set(map(repr, flat))) < len(flat):
            br.add('value:tie')
        if any(x < 0 for x in nums):
            br.add('value:negative')
        if any(isinstance(x, str) for x in flat):
            br.add('value:inf')
        if any(isinstance(x, float) and not float(x).is_integer() for x in nums):
            br.add('value:fraction')
        br.add({'F': 'input:fortran', 'strided': 'input:strided'}.get(o.get('layout', 'C'), 'input:c_order'))
        br.add({'float32': 'input:float32', 'int64': 'input:int'}.get(o.get('dtype', 'float64'), 'input:float64'))
        if any(x is None for v in o['vecs'] for x in v):
            br.add('nan_values')
        for k, v in o['pdesc'] + o['rdesc']:
            if ref.has_dup(v):
                br.add('dup_labels')
            br.add('array_desc' if k in o.get('arr', []) else 'list_desc')
            if any(isinstance(x, str) and isinstance(y, str) and x != y and x in y for x in v for y in v):
                br.add('substring_labels')
        if len(o['vecs'][0]) == 0:
            br.add('n_cond_1')
        if any(k in FKEYS for k, _ in o['pdesc'] + o['rdesc']):
            br.add('desc:float')
        br.add('meas:none' if o.get('meas') is None else 'meas:set')
    if case.get('lens'):
        br.add('leaf:nfrom')
    if impl is not None and isinstance(impl, dict) and 'steps' in impl:
        if any(s['exc'] for s in impl['steps']):
            br.add('rejected')
        # semantic branches from a simulation of the session
        try:
            permute_keeps()
            sim = [_ref_of(o) for o in case['objs']]
            dropped = {}            # store position -> rdm-descriptor keys an append dropped there
            # round 6: insertion order of the dictionaries.  `det[i]`: the order of object i's rdm-descriptor
            # dictionary is the one written in the case (initial objects and what single-source operations
            # make of them); a merged object's order comes from a set inside the library.  `xi[i]`: object i
            # descends from an object created with an explicit `index` that is not the last key.
            det = [True] * len(sim)
            xi = [any(k == 'index' for k, _ in o['rdesc'][:-1]) for o in case['objs']]
            okeys = [[k for k, _ in o.get('odesc', [])] for o in case['objs']]

            def _common_order(i, j, get):
                a, b = get(i), get(j)
                return [k for k in a if k in b], [k for k in b if k in a]
            for op in case['ops']:
                if op['op'] in READ_ONLY:
                    if op['op'] == 'to_df' and 0 <= op['src'] < len(sim):
                        so = sim[op['src']]
                        if any(k in FKEYS for k in list(so['rdesc']) + [kk for kk, _ in so['pdesc']]):
                            br.add('to_df:float_desc')
                        if any(x is None for v in so['rdesc'].values() for x in v):
                            br.add('to_df:none_desc')
                    continue
                try:
                    new, maybe = ref.apply(sim, _ref_ops(op))
                except ref.Inadmissible as exc:
                    if 'different dissimilarity measures' in str(exc):
                        br.add('meas:mixed_rejected')
                    continue
                # -- round 6 bookkeeping (before `sim` moves on)
                if op['op'] == 'append':
                    i, j = op['src'], op['other']
                    a, b = _common_order(i, j, lambda q: list(sim[q]['rdesc']))
                    if det[i] and det[j] and a != b:
                        br.add('dict-order:permuted-append')
                    if not (det[i] and det[j]):
                        br.add('dict-order:append-after-merge')
                    if xi[i] or xi[j]:
                        br.add('dict-order:index-explicit')
                elif op['op'] in ('concat', 'from_partials'):
                    srcs = op['srcs']
                    for i in srcs:
                        for j in srcs:
                            if i < j and det[i] and det[j]:
                                a, b = _common_order(i, j, lambda q: list(sim[q]['rdesc']))
                                if a != b and len(a) >= 2:
                                    br.add('dict-order:permuted-' + op['op'])
                                a, b = _common_order(i, j, lambda q: [k for k, _ in sim[q]['pdesc']])
                                if a != b and op['op'] == 'concat':
                                    br.add('dict-order:pdesc-permuted')
                                a, b = _common_order(i, j, lambda q: list(sim[q]['odesc']))
                                if a != b:
                                    br.add('dict-order:odesc-permuted')
                    if any(xi[i] for i in srcs):
                        br.add('dict-order:index-explicit')
                    det.append(False)
                    xi.append(False)
                elif op['op'] not in IN_PLACE and len(new) > len(sim):
                    det.append(det[op['src']])
                    xi.append(xi[op['src']])
                if op['op'] == 'append':
                    lost = [k for k in sim[op['other']]['rdesc'] if k not in sim[op['src']]['rdesc']]
                    if lost:
                        br.add('append:drops_key')
                        dropped.setdefault(op['src'], set()).update(lost)
                if op['op'] in ('concat', 'from_partials'):
                    for j in op['srcs']:
                        if any(k in sim[j2]['rdesc'] or k in sim[j2]['odesc']
                               for k in dropped.get(j, ()) for j2 in op['srcs']):
                            br.add('append_then_merge')
                    if any(x is None for v in new[-1]['rdesc'].values() for x in v):
                        br.add('merge:none_fill')
                    if op['op'] == 'from_partials' and len({sim[j].get('meas') for j in op['srcs']}) > 1:
                        br.add('meas:from_partials_mixed')
                if op['op'] in ('permute', 'inverse_permute') and sim[op['src']].get('meas') is not None:
                    br.add('meas:permuted')
                if op['op'] == 'concat' and maybe:
                    br.add('concat:realign')
                    if op.get('argform') in ('tuple', 'gen'):
                        br.add('concat:seq_realign')
                    if op.get('target') is not None:
                        br.add('concat:explicit_target_realign')
                if op['op'] in ('concat', 'from_partials') and len(
                        {(tuple(sorted(sim[j]['rdesc'])), tuple(sorted(sim[j]['odesc']))) for j in op['srcs']}) > 1:
                    br.add('merge:heterogeneous_keys')
                if op['op'] == 'subsample_pattern' and new[-1]['n'] > len(
                        {repr([kv[1][i] for kv in new[-1]['pdesc']]) for i in range(new[-1]['n'])}):
                    br.add('subsample_pattern:copies')
                if op['op'] == 'from_partials' and any(
                        new[-1]['mats'][q][a][b] is None and a != b
                        for q in range(len(new[-1]['mats'])) for a in range(new[-1]['n'])
                        for b in range(new[-1]['n'])):
                    br.add('from_partials:padded')
                sim = new
        except Exception:  # noqa: BLE001
            pass
    return {'n_objs': len(case['objs']), 'n_ops': len(case['ops']),
            'first_op': names[0] if names else None, 'branches': sorted(br)}


def nontrivial_key(case, impl):
    if case.get('kind') == 'hashseeds':
        return None
    if not any(op['op'] not in READ_ONLY for op in case['ops']):
        return None
    shapes = [(len(o['vecs']), len(o['vecs'][0])) for o in case['objs']]
    return [shapes, [op['op'] for op in case['ops']],
            hash(json.dumps(case['ops'], sort_keys=True, default=str)) % (1 << 32)]


def shrink(case, still_fails):
    """keep the prefix up to the failing step, then drop operations that are not needed"""
    if case.get('kind') == 'hashseeds':
        # the one offending session: as an ordinary case if it fails in this process too, else a batch of one
        o = oracle(case)
        if not o or 'session' not in o:
            return case
        sub = case['cases'][o['session']]
        if still_fails(sub):
            return shrink(sub, still_fails)
        one = hash_batch_case([sub], case['seeds'])
        return one if still_fails(one) else case
    original = copy.deepcopy(case)
    small = _shrink_session(case, still_fails)
    # a replay must stand on its own: a failure that needed state left in the library by earlier sessions of
    # this process (a module-level cache ...) may vanish from the shrunk case.  Confirm it in fresh processes;
    # otherwise fall back to the unshrunk session if that one fails on its own.
    global _FRESH_BUDGET
    if _FRESH_BUDGET <= 0:          # run_check shrinks every failing session but writes at most a few replays
        return small
    _FRESH_BUDGET -= 1
    try:
        if _fresh_fails(small):
            return small
        if _fresh_fails(original):
            return original
    except Exception:  # noqa: BLE001
        pass
    return small


_FRESH_BUDGET = 4


def _fresh_fails(case):
    outs = _hash_workers([case], HASHSEEDS_QUICK, True)
    return any(outs[sd][0].get('oracle') for sd in outs)


def _shrink_session(case, still_fails):
    case = copy.deepcopy(case)
    o = oracle(case)
    if o and isinstance(o.get('step'), int) and o['step'] >= 0:
        cand = dict(case, ops=case['ops'][:o['step'] + 1], lens=[])
        if still_fails(cand):
            case = cand
    n0 = len(case['objs'])
    changed = True
    while changed:
        changed = False
        for k in range(len(case['ops']) - 2, -1, -1):
            op = case['ops'][k]
            rest = case['ops'][:k] + copy.deepcopy(case['ops'][k + 1:])
            if op['op'] not in READ_ONLY and op['op'] not in IN_PLACE:
                # a value-returning step: later references to younger objects shift down
                slot = n0 + sum(1 for q in case['ops'][:k]
                                if q['op'] not in READ_ONLY and q['op'] not in IN_PLACE)
                bad = False
                for q in rest[k:]:
                    for f in ('src', 'other'):
                        if f in q:
                            if q[f] == slot:
                                bad = True
                            elif q[f] > slot:
                                q[f] -= 1
                    if 'srcs' in q:
                        if slot in q['srcs']:
                            bad = True
                        q['srcs'] = [x - 1 if x > slot else x for x in q['srcs']]
                if bad:
                    continue
            cand = dict(case, ops=rest)
            if still_fails(cand):
                case = cand
                changed = True
                break
    # fewer RDMs / simpler descriptors in the initial objects
    for i, ob in enumerate(case['objs']):
        for key, simple in (('arr', []), ('layout', 'C'), ('dtype', 'float64')):
            if ob.get(key) not in (None, simple):
                cand = copy.deepcopy(case)
                cand['objs'][i][key] = simple
                if still_fails(cand):
                    case = cand
        if 'vals' in ob:
            cand = copy.deepcopy(case)
            del cand['objs'][i]['vals']
            if still_fails(cand):
                case = cand
    return case
