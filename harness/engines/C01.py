"""C01 — RDM estimators equal their formula on condition means, correctly labelled.

Engine interface (see harness/run_check.py):
  THEOREMS, LEVEL, RULE, BRANCHES, generate, run_impl, model_requests, model_result,
  compare, oracle, features, nontrivial_key, shrink

A *case* describes one call of `calc_rdm` / `calc_rdm_movie` (or of the helper
`get_unique_inverse`) in exact numbers (ints or "p/q" strings):

  kind     'unique' | 'single' | 'list' | 'movie'
  method, noise (None | matrix | list of matrices), pl, pw, remove_mean, P
  datasets [ {X: rows, labels: [..]|None, descs: {name: [..]}, ddesc: {name: val}} ]
           (movie: X[obs][channel][time], plus times, tname, bins)
  variant  how the *same* mathematical input is handed to the library:
           perm (observation order), desc_type list/array, dtype int/float,
           wrap single | list1 ([ds])
The model always sees the un-permuted base input; the theorems show the variants cannot
matter, so every variant is compared with the same model output.

Canonical result (both sides):
  {'conds': [label keys] (sorted), 'rdms': [{'values': {pair: number|None}, 'rdesc': {..}}],
   'pdesc': {name: {label key: value} | None} }     or {'exc': <enum>}
Order of conditions is *not* compared (the property leaves it free); values are keyed by
the labels the library itself returned.
"""
import json
import math
import warnings
from fractions import Fraction as F

import numpy as np

from lean import rat, unrat, fbits, unfbits, close

PROPERTY = 'C01'
LEVEL = 'proof'
P_ = 'Rsa.Props.C01.'
THEOREMS = [P_ + n for n in (
    'uniqueFirst_spec', 'condMeans_eq_meanOf', 'meanOf_perm',
    'euclid_algo_eq_spec', 'mahal_algo_eq_spec', 'poisson_algo_eq_spec', 'corr_algo_eq_spec',
    'poissonPrior_eq_rateSpec', 'distVec_eq_spec', 'distSpec_symm',
    'calcRdmNoDesc_correct', 'calcRdm_correct', 'calcRdm_obs_perm', 'calcRdm_remove_mean',
    'propagate_spec', 'calcRdm_descs', 'calcRdmList_entry', 'movie_eq_stack', 'binTime_spec', 'lbl_order_ok',
    'calcRdmList_singleton', 'fromPartials_length', 'movie_frames_general', 'mergeRdmDescs_spec',
    # round 3: call layer (dispatch / forwarding leaves, descriptors, input forms)
    'calcRdm_dispatch', 'opts_spec_meaning', 'calcRdm_call', 'list_options_forwarded',
    'rdmEntries_spec', 'single_rdesc_attached', 'calcTop_one', 'calcTop_many',
    'calcTop_singleton', 'list_rdesc_attached', 'mergeStacks_spec', 'movie_frame_options',
    'topMovie_spec', 'movie_list_options', 'movieTop_forms', 'parse_int_eq_float',
    'parse_container', 'condMeansInt_eq',
    # round 4: reuse sessions (memory model: which array a call writes to)
    'parseInput_keeps_dataset', 'call_keeps_dataset', 'session_calls_independent',
    'session_call_value',
    # round 5: scale laws of the formulas and of the coded estimators
    'centre_scale', 'distSpec_scale', 'distVec_scale')]
RULE = ('one PRNG drives everything. A case is one calc_rdm / calc_rdm_movie call: dataset(s) of '
        '2-14 observations x 1-6 channels with values that are small integers or eighths, int or '
        'str labels (balanced or not, shuffled), extra obs descriptors (constant / varying within '
        'condition), dataset descriptors, method in {euclidean, correlation, mahalanobis, poisson} '
        'with SPD precision A^T A + I, priors, remove_mean; single dataset, [ds], several datasets '
        'with differing label sets (with / without condition descriptor), movies with / without '
        'bins (time values may repeat, bins may have equal means, time descriptor / bins as lists or '
        'arrays, default or second time descriptor, per-dataset noise), vector-valued dataset '
        'descriptors, noise lists with None entries; bins as arrays / lists / tuples / one 2-D array, '
        'overlapping bins, bin values that are no time point, values listed twice; per-dataset noise as '
        'list / tuple / 3-D array; priors given or left to the defaults. Each case carries a variant '
        '(observation permutation, list/array descriptors, int/float dtype, C / Fortran / strided memory '
        'layout, ds vs [ds]); the model\'s call layer is executed on the variant form and on the base form '
        'and both answers must agree. Reuse sessions (11 %): one or two Dataset / TemporalDataset objects '
        '(float64 / int64 / float32; C / Fortran / strided) are built once and analysed by 2-4 successive '
        'calc_rdm / calc_rdm_movie calls with different methods and options (correlation or '
        'remove_mean=True first in 3 of 4), with and without the condition descriptor, bare, as [ds] and as '
        'a list of both; every call is judged against the model / the formula on the case\'s original exact '
        'numbers and the objects must be bit-identical (measurements and all descriptors) after every '
        'call. Value scales (24 % of all calls, sessions included): the same call in another unit - '
        'every channel multiplied by an exact power of two 2^e, e in -60..+40: tiny (one e in -60..-20, '
        'e.g. MEG in tesla), huge (one e in +20..+40; integer data stay integer as int64 / int32 / int16 '
        'where they fit, also e in 6..14 for narrow integers), mixed (per-channel exponents: independent, '
        'jittered gains around a tiny unit, or two sensor types orders of magnitude apart); precision '
        'matrices rescaled by 2^k (k = 0, the whitening exponent, or random in -40..40), the Poisson prior '
        'rate by the unit of a channel; the case holds the scaled numbers as exact rationals and all '
        'tolerances are relative to the natural magnitude U of the result. Non-trivial = at least 2 conditions and not all '
        'dissimilarities equal (relative to U); distinct = distinct (kind, method, options, data, variant).')
BRANCHES = ['desc:none', 'desc:given', 'avg:yes', 'avg:no', 'noise:none', 'noise:matrix',
            'noise:list', 'list:labelled', 'list:unlabelled', 'list:single', 'list:missing', 'list:aligned',
            'movie:nobins', 'movie:bins', 'movie:singleton_bin', 'movie:list', 'movie:nodesc',
            'rm:true', 'dtype:int', 'dtype:float', 'descs:list', 'descs:array', 'labels:int',
            'labels:str', 'pdesc:kept', 'pdesc:dropped', 'perm', 'unique',
            'movie:repeated_time', 'movie:merged_bins', 'movie:default_time', 'movie:time_list',
            'movie:bins_list', 'movie:noise_list', 'movie:other_time_descriptor',
            'noise:list_none', 'ddesc:vector', 'ddesc:names_differ',
            'method:euclidean', 'method:correlation', 'method:mahalanobis', 'method:poisson',
            # round 3
            'movie:nodesc_repeated', 'movie:bins_tuple', 'movie:bins_array2d',
            'movie:bins_overlap', 'movie:bins_foreign', 'movie:bins_dupval', 'movie:dtype_int',
            'noise:array3d', 'noise:tuple', 'layout:F', 'layout:strided', 'form:base_checked',
            'means:int', 'priors:default', 'priors:given',
            # round 4: reuse sessions
            'session:plain', 'session:temporal', 'session:dtype_float', 'session:dtype_int',
            'session:dtype_float32', 'session:layout_F', 'session:layout_strided',
            'session:writer_first_nodesc_float64', 'session:correlation_first',
            'session:remove_mean_first', 'session:nodesc_then_desc', 'session:desc_then_nodesc',
            'session:nodesc_then_nodesc', 'session:desc_then_desc', 'session:single_then_list',
            'session:list_then_single', 'session:list_step', 'session:two_datasets',
            'session:method_changes', 'session:remove_mean_changes', 'session:bins_change',
            'session:later_euclidean', 'session:later_correlation', 'session:later_mahalanobis',
            'session:later_poisson', 'session:steps_2', 'session:steps_4',
            # round 5: value scales (data in another unit: exact powers of two per channel)
            'scale:tiny', 'scale:huge', 'scale:mixed', 'scale:euclidean', 'scale:correlation',
            'scale:mahalanobis', 'scale:poisson', 'scale:precision', 'scale:int', 'scale:int_narrow',
            'scale:remove_mean', 'scale:nodesc', 'scale:kind_single', 'scale:kind_list',
            'scale:kind_movie', 'scale:session', 'session:scale_tiny', 'session:scale_huge',
            'session:scale_mixed']
ASSUMPTIONS = [
    'float32 measurements (reuse sessions only) are computed with in single precision by the library: '
    'tolerance 1e-4 relative / 2e-5 absolute there',
    'float64 evaluation of either side is within 1e-9 relative / 1e-12 * U absolute of the exact value '
    '(inputs are small integers / eighths times exact powers of two, well-conditioned by construction; '
    'U = natural magnitude of the result: 1 for ordinary data and for correlation, max_c 4^e_c for squared '
    'distances (times 2^k for a rescaled precision), about 2^e_max (1 + 0.7 max|e|) for poisson); the '
    'oracle uses 1e-8 / 1e-11 * U for the formula and 1e-11 / 1e-13 * U for the scale laws (scaling by a '
    'power of two commutes with + - * / sqrt in binary floating point, so both sides round identically)',
    'correlation is only asked for condition means that are not constant across channels; poisson '
    'only for positive regularised rates (the formulas are undefined otherwise)',
    'every bin selects at least one time point; without a condition descriptor repeated time '
    'values / equal-mean bins are generated only when every frame merges equally many slices '
    '(frames with different numbers of positional conditions are refused by concat); with a '
    'descriptor arbitrary repeats and equal-mean bins are generated (they share one frame)',
]
TRUSTED_EXTRA = [
    'scipy.spatial.distance.squareform: vector <-> symmetric hollow matrix in triu order '
    '(modelled by its contract `sqLookup`)',
    'np.unique(return_index, return_inverse) inside get_unique_inverse (modelled by its result '
    '`uniqueFirst`/`inverse`; compared directly by the `unique` cases)',
    'np.argsort(kind="stable") on a homogeneous label array orders ints numerically, strings by '
    'code point',
]

RTOL, ATOL = 1e-9, 1e-12
FLOAT_METHODS = ('correlation', 'poisson')

# ------------------------------------------------------------------ small helpers


def lkey(v):
    """canonical key of a label / descriptor value"""
    if isinstance(v, (bytes, np.bytes_)):
        v = v.decode()
    if isinstance(v, (str, np.str_)):
        return 's:' + str(v)
    if isinstance(v, (bool, np.bool_)):
        return 'i:' + str(int(v))
    if isinstance(v, (int, np.integer)):
        return 'i:' + str(int(v))
    if isinstance(v, (float, np.floating)):
        if math.isnan(v):
            return 'nan'
        if float(v).is_integer():
            return 'i:' + str(int(v))
        return 'f:' + repr(float(v))
    if isinstance(v, F):
        return lkey(float(v)) if v.denominator != 1 else 'i:' + str(v.numerator)
    if isinstance(v, np.ndarray) and v.ndim == 0:
        return lkey(v.item())
    if isinstance(v, (list, tuple, np.ndarray)) and len(v) == 1:
        return lkey(v[0])       # a one-element list *is* the per-RDM entry list of one RDM
    if isinstance(v, (list, tuple, np.ndarray)):
        return 'v:[' + ','.join(lkey(x) for x in v) + ']'
    if v is None:
        return 'none'
    return 'o:' + repr(v)


def pkey(a, b):
    return json.dumps(sorted([a, b]))


def fr(x):
    return unrat(x)


def exc_name(exc):
    for t in (ValueError, TypeError, AssertionError, IndexError, KeyError, AttributeError,
              NotImplementedError):
        if isinstance(exc, t):
            return t.__name__
    return 'other'


# ------------------------------------------------------------------ generator

STR_POOL = ['a', 'b', 'c', 'B', 'ab', 'a1', 'Z', '10', '9', 'cond_2', 'cond_10', 'x', 'é', 'aa', 'A']
INT_POOL = [-3, -1, 0, 1, 2, 3, 5, 9, 10, 11, 21, 100]


def _val(rng, method, eighths):
    if method == 'poisson':
        return F(rng.randint(0, 48), 8) if eighths else F(rng.randint(0, 6))
    return F(rng.randint(-24, 40), 8) if eighths else F(rng.randint(-3, 6))


def _labels(rng, n_cond, ltype=None):
    ltype = ltype or rng.choice(['int', 'str'])
    pool = INT_POOL if ltype == 'int' else STR_POOL
    return rng.sample(pool, n_cond)


def _noise(rng, P):
    A = [[rng.randint(-2, 2) for _ in range(P)] for _ in range(P)]
    N = [[sum(A[k][i] * A[k][j] for k in range(P)) + (1 if i == j else 0) for j in range(P)]
         for i in range(P)]
    sc = rng.choice([1, 1, F(1, 2), F(1, 4)])
    return [[rat(F(x) * sc) for x in row] for row in N]


def _const_rows(rows):
    return any(len(set(r)) <= 1 for r in rows)


def _cond_means(X, labels):
    out = {}
    for lab in dict.fromkeys(labels):
        sel = [X[k] for k in range(len(X)) if labels[k] == lab]
        out[lab] = [sum(col) / len(sel) for col in zip(*sel)]
    return out


def _gen_dataset(rng, P, method, labelled, conds=None, eighths=None, n_obs=None):
    eighths = rng.random() < 0.5 if eighths is None else eighths
    for _ in range(50):
        if labelled:
            if conds is None:
                n_cond = rng.choice([1, 2, 2, 3, 3, 3, 4, 4, 5])
                conds = _labels(rng, n_cond)
            if rng.random() < 0.4:
                reps = [rng.choice([1, 2, 3])] * len(conds)
            else:
                reps = [rng.randint(1, 3) for _ in conds]
            labels = [c for c, r in zip(conds, reps) for _ in range(r)]
            if rng.random() < 0.7:
                rng.shuffle(labels)
        else:
            labels = None
        n = len(labels) if labelled else (n_obs or rng.randint(2, 6))
        X = [[_val(rng, method, eighths) for _ in range(P)] for _ in range(n)]
        if method == 'correlation':
            rows = list(_cond_means(X, labels).values()) if labelled else X
            if P < 2 or _const_rows(rows):
                continue
        break
    else:
        raise RuntimeError('could not generate a dataset')
    descs = {}
    if labelled:
        descs['cond'] = list(labels)
        uniq = list(dict.fromkeys(labels))
        if rng.random() < 0.6:      # constant within condition
            vals = [rng.choice(['u', 'v', 'w']) for _ in uniq] if rng.random() < 0.5 \
                else [rng.randint(0, 3) for _ in uniq]
            descs['grp'] = [vals[uniq.index(l)] for l in labels]
        if rng.random() < 0.6:      # unique per observation (varies inside repeated conditions)
            descs['run'] = rng.sample(range(50), n)
        if rng.random() < 0.3:
            descs['half'] = [rng.choice(['o', 'e']) for _ in range(n)]
    else:
        k = rng.random()
        if k < 0.5:
            descs['stim'] = rng.sample(STR_POOL, n) if rng.random() < 0.5 else rng.sample(range(30), n)
        if rng.random() < 0.5:
            descs['grp'] = [rng.randint(0, 1) for _ in range(n)]
    ddesc = {}
    if rng.random() < 0.8:
        ddesc['subj'] = rng.randint(1, 9)
    if rng.random() < 0.5:
        ddesc['sess'] = rng.choice(['pre', 'post'])
    if rng.random() < 0.15:       # vector-valued descriptor (e.g. simulation parameters)
        ddesc['params'] = [rng.randint(0, 5) for _ in range(rng.choice([1, 2, 3]))]
    return {'X': [[rat(v) for v in row] for row in X], 'labels': labels, 'descs': descs,
            'ddesc': ddesc}


def _all_int(datasets):
    def flat(x):
        for y in x:
            if isinstance(y, list):
                yield from flat(y)
            else:
                yield y
    return all(isinstance(v, int) for ds in datasets for v in flat(ds['X']))


def _variant(rng, case):
    v = {'desc_type': rng.choice(['list', 'array']),
         'dtype': 'int' if _all_int(case['datasets']) and rng.random() < 0.6 else 'float',
         'wrap': 'single', 'perm': None, 'layout': rng.choice(['C', 'C', 'F', 'strided'])}
    if case['kind'] == 'single' and rng.random() < 0.3:
        v['wrap'] = 'list1'
    if case['kind'] in ('single', 'list') and case['datasets'][0]['labels'] is not None \
            and rng.random() < 0.5:
        v['perm'] = [rng.sample(range(len(ds['X'])), len(ds['X'])) for ds in case['datasets']]
    return v


def _method_opts(rng, method, P, n_ds=1, allow_rm=True):
    opts = {'method': method, 'noise': None, 'pl': 1, 'pw': rat(F(1, 10)), 'remove_mean': False,
            'opts_given': False}
    if method == 'mahalanobis':
        r = rng.random()
        if r < 0.15:
            opts['noise'] = None
        elif n_ds > 1 and r < 0.6:
            opts['noise'] = {'per': [_noise(rng, P) for _ in range(n_ds)]}
            if rng.random() < 0.6:      # None = identity default for that dataset
                opts['noise']['per'][rng.randrange(n_ds)] = None
            else:                       # all entries given: list, tuple or one 3-D array
                opts['noise']['container'] = rng.choice(['list', 'tuple', 'array3d'])
        else:
            opts['noise'] = {'one': _noise(rng, P)}
    if method == 'poisson' and rng.random() < 0.6:
        opts['pl'] = rat(F(rng.randint(1, 24), 8))
        opts['pw'] = rat(F(rng.randint(1, 16), 8))
        opts['opts_given'] = True
    if allow_rm and method in ('euclidean', 'mahalanobis') and P >= 2 and rng.random() < 0.4:
        opts['remove_mean'] = True
    elif allow_rm and rng.random() < 0.15:
        opts['remove_mean'] = True       # documented as having no effect on correlation / poisson
    return opts


def gen_single(rng):
    method = rng.choice(['euclidean', 'correlation', 'mahalanobis', 'poisson'])
    P = rng.randint(2 if method == 'correlation' else 1, 6)
    labelled = rng.random() < 0.8
    case = {'kind': 'single', 'P': P, **_method_opts(rng, method, P)}
    case['datasets'] = [_gen_dataset(rng, P, method, labelled)]
    case['variant'] = _variant(rng, case)
    return case


def gen_list(rng):
    method = rng.choice(['euclidean', 'correlation', 'mahalanobis', 'poisson'])
    P = rng.randint(2 if method == 'correlation' else 1, 5)
    n_ds = rng.choice([1, 2, 2, 3])
    labelled = rng.random() < 0.7
    case = {'kind': 'list', 'P': P, **_method_opts(rng, method, P, n_ds)}
    dss = []
    if labelled:
        ltype = rng.choice(['int', 'str'])
        pool = _labels(rng, rng.randint(2, 5), ltype)
        same = rng.random() < 0.4
        for _ in range(n_ds):
            conds = list(pool) if same else rng.sample(pool, rng.randint(1, len(pool)))
            rng.shuffle(conds)
            dss.append(_gen_dataset(rng, P, method, True, conds=conds))
    else:
        n_obs = rng.randint(2, 5)
        first = _gen_dataset(rng, P, method, False, n_obs=n_obs)
        dss.append(first)
        align = n_ds > 1 and rng.random() < 0.4
        if align:       # a unique descriptor, in a different order in every dataset: concat aligns on it
            first['descs'] = {'stim': rng.sample(STR_POOL, n_obs) if rng.random() < 0.5
                              else rng.sample(range(30), n_obs)}
            case['align'] = 'stim'
        for _ in range(n_ds - 1):
            d = _gen_dataset(rng, P, method, False, n_obs=n_obs)
            d['descs'] = {k: list(v) for k, v in first['descs'].items()}
            if align:
                p = rng.sample(range(n_obs), n_obs)
                d['descs'] = {'stim': [first['descs']['stim'][i] for i in p]}
            dss.append(d)
    keys = sorted({k for d in dss for k in d['ddesc']})
    if rng.random() < 0.85:       # usually the datasets share their descriptor names
        for d in dss:
            for k in keys:
                d['ddesc'].setdefault(k, [1, 2] if k == 'params' else rng.randint(1, 9) if k == 'subj'
                                      else rng.choice(['pre', 'post']))
    if not labelled and isinstance(case['noise'], dict) and 'per' in case['noise']:
        # without a condition descriptor the stack is built by concat, which refuses to mix the
        # 'squared euclidean' RDM of a None entry with 'squared mahalanobis' ones
        case['noise']['per'] = [m or _noise(rng, P) for m in case['noise']['per']]
    case['datasets'] = dss
    case['variant'] = _variant(rng, case)
    return case


def _frame_groups(times, bins):
    """frames of a movie as lists of slices; a slice is the list of time indices it averages
    (library semantics: bin -> mean; equal (binned) time values share one frame)"""
    T = len(times)
    if bins is None:
        slices = [([t], times[t]) for t in range(T)]
    else:
        slices = []
        for b in bins:
            sel = [t for t in range(T) if times[t] in b]
            slices.append((sel, sum(times[t] for t in sel) / len(sel)))
    frames = {}
    for sel, tv in slices:
        frames.setdefault(tv, []).append(sel)
    return list(frames.items())


def gen_movie(rng):
    method = rng.choice(['euclidean', 'euclidean', 'correlation', 'mahalanobis', 'poisson'])
    P = rng.randint(2 if method == 'correlation' else 1, 4)
    T = rng.randint(1 if rng.random() < 0.1 else 2, 5)
    labelled = rng.random() < 0.8
    n_ds = 2 if rng.random() < 0.25 else 1
    case = {'kind': 'movie', 'P': P, **_method_opts(rng, method, P, n_ds, allow_rm=False)}
    if isinstance(case['noise'], dict) and 'per' in case['noise']:
        if n_ds == 1:
            case['noise'] = {'one': case['noise']['per'][0] or _noise(rng, P)}
        else:
            case['noise']['per'] = [m or _noise(rng, P) for m in case['noise']['per']]
    # time values: quarters, not necessarily increasing; with a condition descriptor they may
    # repeat (equal values share one frame)
    times = rng.sample([F(k, 4) for k in range(-4, 24)], T)
    repeated = labelled and T >= 2 and rng.random() < 0.2
    if repeated:
        times[rng.randrange(1, T)] = times[0]
    uniform_rep = (not labelled) and T >= 2 and rng.random() < 0.25
    if uniform_rep:
        # without a descriptor repeated time values are only accepted when every value repeats
        # equally often (all frames then have the same number of positional conditions)
        k = rng.choice([2, 2, 3])
        base = rng.sample([F(q, 4) for q in range(-4, 24)], rng.randint(1, 2))
        times = [v for v in base for _ in range(k)]
        rng.shuffle(times)
        T = len(times)
    if rng.random() < 0.6:
        times.sort()
    default_time = (not repeated) and (not uniform_rep) and rng.random() < 0.1
    if default_time:
        times = [F(t) for t in range(T)]
    bins = None
    if rng.random() < 0.55:
        vals = list(dict.fromkeys(times))
        rng.shuffle(vals)
        nb = rng.randint(1, len(vals))
        cuts = sorted(rng.sample(range(1, len(vals)), nb - 1)) if nb > 1 else []
        groups = [vals[a:b] for a, b in zip([0] + cuts, cuts + [len(vals)])]
        if rng.random() < 0.3 and len(groups) > 1:
            groups = groups[:-1]        # some time points in no bin
        bins = groups
        extra = rng.random()
        if extra < 0.15 and len(groups) > 1:      # overlapping bins: a time value in two bins
            bins = [list(b) for b in groups]
            bins[1] = bins[1] + [bins[0][0]]
        elif extra < 0.30:                         # values that are no time point of the dataset
            bins = [list(b) for b in groups]
            bins[rng.randrange(len(bins))].append(F(99, 4))
        elif extra < 0.40:                         # a value listed twice inside one bin
            bins = [list(b) for b in groups]
            j = rng.randrange(len(bins))
            bins[j] = bins[j] + [bins[j][0]]
        if not labelled and len({len(sels) for _tv, sels in _frame_groups(times, bins)}) > 1:
            # frames with different numbers of (positional) conditions: concat refuses them
            bins = None
    conds = _labels(rng, rng.choice([2, 3, 3, 4])) if labelled else None
    int_vals = rng.random() < 0.35
    dss = []
    for _ in range(n_ds):
        for _try in range(50):
            base = _gen_dataset(rng, P, method, labelled, conds=conds,
                                n_obs=None if labelled else 3)
            n = len(base['X'])
            X3 = [[[_val(rng, method, not int_vals) for _ in range(T)] for _ in range(P)]
                  for _ in range(n)]
            if method == 'correlation' and not _movie_ok(X3, base['labels'], times, bins):
                continue
            break
        else:
            raise RuntimeError('movie generation failed')
        base['X'] = [[[rat(v) for v in ch] for ch in ob] for ob in X3]
        base['descs'] = {k: v for k, v in base['descs'].items() if k in ('cond', 'grp', 'stim')}
        dss.append(base)
        conds = list(dict.fromkeys(base['labels'])) if labelled else None
    if n_ds > 1:
        keys = sorted({k for d in dss for k in d['ddesc']})
        for d in dss:
            for k in keys:
                d['ddesc'].setdefault(k, [1] if k == 'params' else rng.randint(1, 9) if k == 'subj'
                                      else rng.choice(['pre', 'post']))
        if not labelled:
            for d in dss[1:]:
                d['descs'] = {k: list(v) for k, v in dss[0]['descs'].items()}
                if len(d['X']) != len(dss[0]['X']):
                    d['X'] = d['X'][:len(dss[0]['X'])]
    case['datasets'] = dss
    case['times'] = [rat(t) for t in times]
    case['bins'] = None if bins is None else [[rat(t) for t in b] for b in bins]
    case['tname'] = 'time' if default_time else rng.choice(['time', 'time', 'onset'])
    case['as_list'] = n_ds > 1 or rng.random() < 0.15
    case['tform'] = {'default_time': default_time,
                     'tdesc_type': rng.choice(['array', 'array', 'list']),
                     'bins_type': rng.choice(['array', 'array', 'list', 'tuple', 'array2d'])}
    if case['tform']['bins_type'] == 'array2d' and (
            bins is None or len({len(b) for b in bins}) != 1):
        case['tform']['bins_type'] = 'array'
    if isinstance(case['noise'], dict) and 'per' in case['noise']:
        case['noise']['container'] = rng.choice(['list', 'tuple', 'array3d'])
    case['variant'] = {'desc_type': rng.choice(['array', 'list']),
                       'dtype': 'int' if _all_int(dss) and rng.random() < 0.7 else 'float',
                       'wrap': 'single', 'perm': None,
                       'layout': rng.choice(['C', 'C', 'F'])}
    return case


def _movie_ok(X3, labels, times, bins):
    """every frame has non-constant condition means (needed for correlation)"""
    for _tv, sels in _frame_groups(times, bins):
        Xs, labs = [], []
        for g in sels:
            Xs += [[sum(ob[c][t] for t in g) / len(g) for c in range(len(ob))] for ob in X3]
            labs += list(labels) if labels else []
        rows = list(_cond_means(Xs, labs).values()) if labels else Xs
        if _const_rows(rows):
            return False
    return True


def gen_unique(rng):
    n = rng.randint(1, 10)
    pool = _labels(rng, rng.randint(1, 5))
    return {'kind': 'unique', 'labels': [rng.choice(pool) for _ in range(n)],
            'as_array': rng.random() < 0.5}


# ------------------------------------------------------------------ reuse sessions (round 4)
# One Dataset / TemporalDataset object (or two) is built ONCE and then analysed by 2-4 successive
# calc_rdm / calc_rdm_movie calls with different methods and options, with and without the condition
# descriptor, bare and as a list.  Every call is judged against the formula on the ORIGINAL numbers
# of the case (the exact rationals below, which the library never sees), and the objects'
# measurements and descriptors must be bit-identical after every call.

SESSION_DTYPES = ['float', 'float', 'float', 'int', 'int', 'float32']


def _writer_prone(st):
    """a call whose estimator centres / normalises its working copy of the patterns"""
    return st['method'] == 'correlation' or bool(st['remove_mean'])


def _session_steps(rng, P, n_ds, temporal):
    n_steps = rng.choice([2, 3, 3, 4])
    steps = []
    for i in range(n_steps):
        if i == 0 and rng.random() < 0.75:
            # correlation / remove_mean=True first: these are the calls that centre and normalise
            method = rng.choice(['correlation', 'correlation', 'euclidean', 'mahalanobis'])
        else:
            method = rng.choice(['euclidean', 'correlation', 'mahalanobis', 'poisson'])
        if temporal:
            which = list(range(n_ds)) if n_ds > 1 and rng.random() < 0.6 else [rng.randrange(n_ds)]
            st = {'kind': 'movie', 'which': which,
                  'as_list': len(which) > 1 or rng.random() < 0.25}
        elif n_ds > 1 and rng.random() < 0.5:
            st = {'kind': 'list', 'which': list(range(n_ds)), 'wrap': 'single'}
        else:
            st = {'kind': 'single', 'which': [rng.randrange(n_ds)],
                  'wrap': 'list1' if rng.random() < 0.3 else 'single'}
        st.update(_method_opts(rng, method, P, len(st['which']), allow_rm=not temporal))
        if i == 0 and not temporal and method in ('euclidean', 'mahalanobis'):
            st['remove_mean'] = True
        st['use_desc'] = rng.random() < (0.3 if i == 0 else 0.5)
        nz = st['noise']
        if isinstance(nz, dict) and 'per' in nz:
            if len(st['which']) == 1:
                st['noise'] = {'one': nz['per'][0] or _noise(rng, P)}
            elif temporal or not st['use_desc']:
                # concat refuses to mix 'squared euclidean' (None entry) with 'squared mahalanobis'
                nz['per'] = [m or _noise(rng, P) for m in nz['per']]
                nz.setdefault('container', rng.choice(['list', 'tuple', 'array3d']))
        steps.append(st)
    return steps


def gen_session(rng):
    temporal = rng.random() < 0.3
    n_ds = 2 if rng.random() < 0.35 else 1
    for _outer in range(200):
        P = rng.randint(2, 4 if temporal else 5)
        steps = _session_steps(rng, P, n_ds, temporal)
        methods = {st['method'] for st in steps}
        dom = 'poisson' if 'poisson' in methods else rng.choice(['euclidean', 'poisson'])
        eighths = rng.random() < 0.5
        conds = _labels(rng, rng.choice([2, 3, 3, 4]))
        case = {'kind': 'session', 'temporal': temporal, 'P': P, 'steps': steps}
        first = _gen_dataset(rng, P, dom, True, conds=conds, eighths=eighths)
        dss = [first]
        for _ in range(n_ds - 1):       # same observations / descriptors, other measurements
            d = json.loads(json.dumps(first))
            d['ddesc'] = dict(first['ddesc'])
            if 'subj' in d['ddesc']:
                d['ddesc']['subj'] = d['ddesc']['subj'] % 9 + 1
            dss.append(d)
        n = len(first['X'])
        if temporal:
            T = rng.randint(2, 4)
            times = rng.sample([F(k, 4) for k in range(-4, 24)], T)
            if rng.random() < 0.6:
                times.sort()
            case['times'] = [rat(t) for t in times]
            case['tname'] = rng.choice(['time', 'time', 'onset'])
            case['tdesc_type'] = rng.choice(['array', 'array', 'list'])
            for st in steps:
                bins = None
                if rng.random() < 0.55:
                    vals = list(times)
                    rng.shuffle(vals)
                    nb = rng.randint(1, len(vals))
                    cuts = sorted(rng.sample(range(1, len(vals)), nb - 1)) if nb > 1 else []
                    bins = [vals[a:b] for a, b in zip([0] + cuts, cuts + [len(vals)])]
                    if rng.random() < 0.3 and len(bins) > 1:
                        bins = bins[:-1]
                    if not st['use_desc'] and \
                            len({len(s) for _tv, s in _frame_groups(times, bins)}) > 1:
                        bins = None
                st['bins'] = None if bins is None else [[rat(t) for t in b] for b in bins]
                st['tform'] = {'default_time': False, 'tdesc_type': case['tdesc_type'],
                               'bins_type': rng.choice(['array', 'list', 'tuple'])}
            for d in dss:
                d['descs'] = {k: v for k, v in d['descs'].items() if k in ('cond', 'grp')}
        ok = True
        for d in dss:
            for _try in range(50):
                if temporal:
                    X3 = [[[_val(rng, dom, eighths) for _ in range(len(case['times']))]
                           for _ in range(P)] for _ in range(n)]
                    good = all(_movie_ok(X3, d['labels'] if st['use_desc'] else None,
                                         [fr(t) for t in case['times']],
                                         None if st['bins'] is None else
                                         [[fr(x) for x in b] for b in st['bins']])
                               for st in steps if st['method'] == 'correlation')
                    if good:
                        d['X'] = [[[rat(v) for v in ch] for ch in ob] for ob in X3]
                        break
                else:
                    X = [[_val(rng, dom, eighths) for _ in range(P)] for _ in range(n)]
                    good = 'correlation' not in methods or not (
                        _const_rows(X) or _const_rows(list(_cond_means(X, d['labels']).values())))
                    if good:
                        d['X'] = [[rat(v) for v in row] for row in X]
                        break
            else:
                ok = False
        if not ok:
            continue
        case['datasets'] = dss
        dt = rng.choice(SESSION_DTYPES)
        if dt == 'int' and not _all_int(dss):
            dt = 'float'
        case['variant'] = {'desc_type': rng.choice(['list', 'array']), 'dtype': dt,
                           'wrap': 'single', 'perm': None,
                           'layout': rng.choice(['C', 'C', 'F']) if temporal
                           else rng.choice(['C', 'C', 'F', 'strided'])}
        return case
    raise RuntimeError('could not generate a session')


def _subcase(case, i):
    """step `i` of a session as a stand-alone case of kind single / list / movie (same numbers)"""
    st = case['steps'][i]
    var = dict(case['variant'])
    if var['dtype'] == 'float32':
        var['dtype'], var['np_dtype'] = 'float', 'float32'
    var['wrap'] = st.get('wrap', 'single')
    sub = {'kind': st['kind'], 'P': case['P'], 'variant': var, 'in_session': True}
    if case.get('scale'):
        sub['scale'] = case['scale']
    for k in ('method', 'noise', 'pl', 'pw', 'remove_mean', 'opts_given'):
        sub[k] = st[k]
    sub['datasets'] = [{'X': case['datasets'][k]['X'],
                        'labels': case['datasets'][k]['labels'] if st['use_desc'] else None,
                        'descs': case['datasets'][k]['descs'],
                        'ddesc': case['datasets'][k]['ddesc']} for k in st['which']]
    if st['kind'] == 'movie':
        sub.update(times=case['times'], tname=case['tname'], bins=st['bins'],
                   as_list=st['as_list'], tform=st['tform'])
    return sub


# ------------------------------------------------------------------ value scales (round 5)
# Every generated call can be re-expressed in another unit: each channel multiplied by an exact
# power of two 2^e_c, e_c in -60 .. +40 (MEG in tesla is ~1e-13 .. 1e-15; raw counts are ~1e9).
#   tiny   all channels the same e in -60 .. -20
#   huge   all channels the same e in +20 .. +40 (integer data stay integer: int64 / int32)
#   mixed  per-channel exponents (independent, or jittered gains around a tiny unit, or two sensor
#          types many orders of magnitude apart)
# The case carries the scaled numbers as exact rationals, so model (exact / Float on the same
# doubles), library and oracle all work on the same input; powers of two make the scaled doubles
# exact.  A precision matrix is rescaled by 2^k (k = 0, the whitening exponent -2e, or random), the
# Poisson prior rate by the unit of one channel (priors are then passed explicitly).  `scale`
# records the exponents; it is used for the natural magnitude U of the result (tolerances are
# RELATIVE: atol = 1e-12 * U), for the coverage tags and by the oracle's scale-law check.

SCALE_SHARE = 0.24


def _draw_exps(rng, P, cls):
    if cls == 'tiny':
        return [rng.choice([-60, -50, -43, -33, -20, rng.randint(-60, -20)])] * P
    if cls == 'huge':
        return [rng.choice([40, 32, 31, 20, rng.randint(20, 40)])] * P
    r = rng.random()
    if r < 0.4:
        ex = [rng.randint(-60, 40) for _ in range(P)]
    elif r < 0.7:                       # one tiny unit, per-channel gains
        base = rng.randint(-60, -30)
        ex = [base + rng.randint(0, 8) for _ in range(P)]
    else:                               # two sensor types
        lo, hi = rng.randint(-60, -20), rng.randint(-10, 40)
        ex = [rng.choice([lo, hi]) for _ in range(P)]
        ex[0], ex[-1] = lo, hi
    if len(set(ex)) == 1:
        ex[0] -= 7
    return ex


def _mul_x(x, e):
    return rat(fr(x) * F(2) ** e)


def _scale_noise(nz, k):
    if nz is None or k == 0:
        return nz
    out = dict(nz)
    if 'one' in nz:
        out['one'] = [[_mul_x(v, k) for v in row] for row in nz['one']]
    else:
        out['per'] = [None if m is None else [[_mul_x(v, k) for v in row] for row in m]
                      for m in nz['per']]
    return out


def _opt_holders(case):
    """the dicts that carry method / noise / pl of a case (the case itself, or a session's steps)"""
    return case['steps'] if case['kind'] == 'session' else [case]


def _rescaled(case, exps, k, g, cls):
    """the same call with channel c multiplied by 2^exps[c], precisions by 2^k, Poisson prior
    rates by 2^g"""
    c = json.loads(json.dumps(case))
    temporal = case['kind'] == 'movie' or case.get('temporal')
    for ds in c['datasets']:
        if temporal:
            ds['X'] = [[[_mul_x(v, exps[ch]) for v in row] for ch, row in enumerate(ob)]
                       for ob in ds['X']]
        else:
            ds['X'] = [[_mul_x(v, exps[ch]) for ch, v in enumerate(row)] for row in ds['X']]
    for h in _opt_holders(c):
        h['noise'] = _scale_noise(h['noise'], k)
        if h['method'] == 'poisson' and g != 0:
            h['pl'] = _mul_x(h['pl'], g)
            h['opts_given'] = True
    var = c['variant']
    if var['dtype'] == 'int' and not _all_int(c['datasets']):
        var['dtype'] = 'float'
    if var['dtype'] == 'float32':
        var['dtype'] = 'float'       # 2^-60 squared leaves the single-precision range
    c['scale'] = {'class': cls, 'exps': list(exps), 'noise_exp': k, 'pl_exp': g}
    return c


def _corr_valid(case):
    """correlation is defined for every pattern the call will see (no constant row / condition mean)"""
    if case['kind'] == 'session':
        return all(_corr_valid(_subcase(case, i)) for i in range(len(case['steps'])))
    if case['method'] != 'correlation':
        return True
    if case['P'] < 2:
        return False
    for ds in case['datasets']:
        if case['kind'] == 'movie':
            X3 = [[[fr(v) for v in ch] for ch in ob] for ob in ds['X']]
            bins = None if case['bins'] is None else [[fr(x) for x in b] for b in case['bins']]
            if not _movie_ok(X3, ds['labels'], [fr(t) for t in case['times']], bins):
                return False
        else:
            X = [[fr(v) for v in row] for row in ds['X']]
            rows = list(_cond_means(X, ds['labels']).values()) if ds['labels'] is not None else X
            if _const_rows(rows):
                return False
    return True


def _scale_case(rng, case, cls=None):
    """re-express a generated case in another unit (see the section comment)"""
    P = case['P']
    cls = cls or rng.choice(['tiny', 'huge', 'mixed'])
    if P == 1 and cls == 'mixed':
        cls = rng.choice(['tiny', 'huge'])
    holders = _opt_holders(case)
    has_none = any(isinstance(h['noise'], dict) and 'per' in h['noise']
                   and any(m is None for m in h['noise']['per']) for h in holders)
    for attempt in range(12):
        exps = _draw_exps(rng, P, cls)
        if cls == 'huge' and _all_int(case['datasets']) and rng.random() < 0.3:
            exps = [rng.randint(6, 14)] * P      # large for int16 / int32 measurements
        mid = sorted(exps)[len(exps) // 2]
        k = 0 if has_none else rng.choice([0, -2 * mid, -2 * mid, rng.randint(-40, 40)])
        g = exps[0] if cls != 'mixed' else rng.choice(exps)
        c = _rescaled(case, exps, k, g, cls)
        if _corr_valid(c):
            break
    else:
        exps = [-43] * P
        c = _rescaled(case, exps, 0, -43, 'tiny')
    var = c['variant']
    if var['dtype'] == 'int':
        top = max(abs(int(fr(v))) for ds in c['datasets'] for v in _flat(ds['X']))
        fits = [w for w in (64, 32, 16) if top < 2 ** (w - 1)]
        var['int_width'] = rng.choice(fits)
    return c


def _flat(x):
    for y in x:
        if isinstance(y, list):
            yield from _flat(y)
        else:
            yield y


def _unit(case):
    """natural magnitude U of the values of a (sub-)case: tolerances are relative to it"""
    sc = case.get('scale')
    if not sc:
        return 1.0
    m, emax = case['method'], max(sc['exps'])
    if m == 'correlation':
        return 1.0
    if m == 'euclidean' or (m == 'mahalanobis' and case['noise'] is None):
        return 4.0 ** emax
    if m == 'mahalanobis':
        return 4.0 ** emax * 2.0 ** sc['noise_exp']
    top = max(emax, sc['pl_exp'])
    return 2.0 ** top * (1 + 0.7 * max([abs(e) for e in sc['exps']] + [abs(sc['pl_exp'])]))


def _descaled(case):
    """(base case, factor per method) of a scaled case: the common factor 2^g (g = largest channel
    exponent) removed from the data, 2^k from the precisions, 2^g from the Poisson prior rate;
    the laws say result(case) = factor * result(base)"""
    sc = case['scale']
    g, k = max(sc['exps']), sc['noise_exp']
    base = _rescaled(case, [-g] * case['P'], -k, -g, sc['class'])
    base['scale'] = {'class': sc['class'], 'exps': [e - g for e in sc['exps']], 'noise_exp': 0,
                     'pl_exp': sc['pl_exp'] - g}
    base['variant'].pop('int_width', None)
    return base, {'euclidean': 4.0 ** g, 'correlation': 1.0, 'poisson': 2.0 ** g,
                  'mahalanobis': 4.0 ** g * 2.0 ** k, 'mahalanobis_none': 4.0 ** g}


def generate(rng, tier):
    n = 1500 if tier == 'quick' else 90000
    for i in range(n):
        r = rng.random()
        if r < 0.04:
            yield gen_unique(rng)
            continue
        elif r < 0.48:
            case = gen_single(rng)
        elif r < 0.71:
            case = gen_list(rng)
        elif r < 0.89:
            case = gen_movie(rng)
        else:
            case = gen_session(rng)
        if rng.random() < SCALE_SHARE:
            case = _scale_case(rng, case)
        yield case


def search(rng, tier):
    """failing-input search: the ordinary stream with every third case a reuse session and every
    third case in another unit (tiny / huge / mixed value scales)"""
    gen = generate(rng, 'thorough')
    k = 0
    while True:
        k += 1
        if k % 3 == 0:
            yield gen_session(rng)
        elif k % 3 == 1:
            c = next(gen)
            yield c if c['kind'] == 'unique' or c.get('scale') else _scale_case(rng, c)
        else:
            yield next(gen)


# ------------------------------------------------------------------ real code adaptor

def _np_desc(vals, desc_type):
    return list(vals) if desc_type == 'list' else np.array(vals)


def _build(case, ds, k, temporal=False):
    from rsatoolbox.data import Dataset, TemporalDataset
    var = case['variant']
    X = np.array([[[float(fr(v)) for v in ch] for ch in ob] for ob in ds['X']]) if temporal else \
        np.array([[float(fr(v)) for v in row] for row in ds['X']])
    if not temporal:
        X = X.reshape(len(ds['X']), case['P'])
    if var['dtype'] == 'int':
        X = X.astype({16: np.int16, 32: np.int32}.get(var.get('int_width'), np.int64))
    elif var.get('np_dtype') == 'float32':
        X = X.astype(np.float32)     # small integers / eighths are exact in float32
    descs = {name: list(v) for name, v in ds['descs'].items()}
    if var.get('perm'):
        p = var['perm'][k]
        X = X[p]
        descs = {name: [v[i] for i in p] for name, v in descs.items()}
    if var.get('layout') == 'F':
        X = np.asfortranarray(X)
    elif var.get('layout') == 'strided' and not temporal:
        big = np.zeros((X.shape[0], 2 * X.shape[1]), dtype=X.dtype)
        big[:, ::2] = X
        X = big[:, ::2]         # a non-contiguous view with the same values
    obs = {name: _np_desc(v, var['desc_type']) for name, v in descs.items()}
    if temporal:
        tform = case.get('tform', {})
        times = [float(fr(t)) for t in case['times']]
        if all(t.is_integer() for t in times) and tform.get('default_time'):
            times = [int(t) for t in times]
        tv = list(times) if tform.get('tdesc_type') == 'list' else np.array(times)
        tds = {'time': np.arange(len(times)) if case['tname'] != 'time' else tv}
        if case['tname'] != 'time':
            tds[case['tname']] = tv
        if tform.get('default_time'):
            tds = None          # the constructor supplies time = 0 .. n_time-1
        return TemporalDataset(X, descriptors=dict(ds['ddesc']), obs_descriptors=obs,
                               time_descriptors=tds)
    return Dataset(X, descriptors=dict(ds['ddesc']), obs_descriptors=obs)


def _noise_arg(case):
    nz = case['noise']
    if nz is None:
        return None
    if 'one' in nz:
        return np.array([[float(fr(v)) for v in row] for row in nz['one']])
    per = [None if m is None else np.array([[float(fr(v)) for v in row] for row in m])
           for m in nz['per']]
    if all(m is not None for m in per):
        if nz.get('container') == 'tuple':
            return tuple(per)
        if nz.get('container') == 'array3d':
            return np.array(per)
    return per


def _call_kwargs(case):
    kw = {'method': case['method']}
    if case['datasets'][0]['labels'] is not None:
        kw['descriptor'] = 'cond'
    nz = _noise_arg(case)
    if nz is not None:
        kw['noise'] = nz
    if case['opts_given']:
        kw['prior_lambda'] = float(fr(case['pl']))
        kw['prior_weight'] = float(fr(case['pw']))
    return kw


def call_library(case, objs=None):
    """run the real rsatoolbox; returns the RDMs object (exceptions propagate).
    `objs`: already constructed Dataset objects to (re)use instead of building fresh ones"""
    from rsatoolbox.rdm import calc_rdm, calc_rdm_movie
    kw = _call_kwargs(case)
    with warnings.catch_warnings():
        warnings.simplefilter('ignore')
        if case['kind'] == 'movie':
            dss = objs if objs is not None else \
                [_build(case, ds, k, temporal=True) for k, ds in enumerate(case['datasets'])]
            arg = dss if case['as_list'] else dss[0]
            if case['bins'] is not None:
                bt = case.get('tform', {}).get('bins_type')
                fb = [[float(fr(t)) for t in b] for b in case['bins']]
                if bt == 'list':
                    kw['bins'] = fb
                elif bt == 'tuple':
                    kw['bins'] = tuple(tuple(b) for b in fb)
                elif bt == 'array2d':
                    kw['bins'] = np.array(fb)
                else:
                    kw['bins'] = [np.array(b) for b in fb]
            if case['tname'] != 'time':
                kw['time_descriptor'] = case['tname']
            return calc_rdm_movie(arg, **kw)
        dss = objs if objs is not None else \
            [_build(case, ds, k) for k, ds in enumerate(case['datasets'])]
        if case['remove_mean']:
            kw['remove_mean'] = True
        if case['kind'] == 'list' or case['variant']['wrap'] == 'list1':
            return calc_rdm(dss, **kw)
        return calc_rdm(dss[0], **kw)


def _rdesc_of(rdms, k):
    out = {}
    for name, v in rdms.descriptors.items():
        if name not in ('noise',):
            out[name] = lkey(v)
    for name, v in rdms.rdm_descriptors.items():
        if name in ('index', 'noise'):
            continue
        try:
            out[name] = lkey(v[k])
        except Exception:  # noqa: BLE001
            out[name] = 'o:unreadable'
    return out


def canon_impl(case, rdms):
    labelled = case['datasets'][0]['labels'] is not None
    n = rdms.n_cond
    if labelled:
        if 'cond' not in rdms.pattern_descriptors:
            return {'exc': 'no-label-descriptor'}
        conds = [lkey(v) for v in rdms.pattern_descriptors['cond']]
    elif case.get('align'):
        if case['align'] not in rdms.pattern_descriptors:
            return {'exc': 'no-label-descriptor'}
        conds = [lkey(v) for v in rdms.pattern_descriptors[case['align']]]
    else:
        conds = ['#%d' % i for i in range(n)]
    if len(conds) != n:
        return {'exc': 'label-count'}
    mats = rdms.get_matrices()
    out = []
    for k in range(rdms.n_rdm):
        vals = {}
        for i in range(n):
            for j in range(i + 1, n):
                v = float(mats[k, i, j])
                vals[pkey(conds[i], conds[j])] = None if math.isnan(v) else v
        out.append({'values': vals, 'rdesc': _rdesc_of(rdms, k)})
    pdesc = {}
    single = case['kind'] == 'single' and case['variant']['wrap'] == 'single'
    if single:
        for name in case['datasets'][0]['descs']:
            if name in rdms.pattern_descriptors:
                vs = rdms.pattern_descriptors[name]
                pdesc[name] = {conds[i]: lkey(vs[i]) for i in range(n)} if len(vs) == n else 'badlen'
            else:
                pdesc[name] = None
    return {'conds': sorted(conds), 'rdms': out, 'pdesc': pdesc}


def _snap_val(v):
    """bit-exact, type-exact picture of a value held by a dataset"""
    if isinstance(v, np.ndarray):
        body = repr(v.tolist()) if v.dtype == object else v.tobytes().hex()
        return ['ndarray', v.dtype.str, list(v.shape), body]
    if isinstance(v, dict):
        return ['dict', [[repr(k), _snap_val(x)] for k, x in v.items()]]
    if isinstance(v, (list, tuple)):
        return [type(v).__name__, [_snap_val(x) for x in v]]
    return [type(v).__name__, repr(v)]


SNAP_FIELDS = ('measurements', 'descriptors', 'obs_descriptors', 'channel_descriptors',
               'time_descriptors')


def _snapshot(obj):
    return {f: _snap_val(getattr(obj, f)) for f in SNAP_FIELDS if hasattr(obj, f)}


def _snap_diff(before, after):
    """None, or which field of which dataset is no longer bit-identical"""
    for k, (b, a) in enumerate(zip(before, after)):
        for f in SNAP_FIELDS:
            if b.get(f) != a.get(f):
                if f == 'measurements' and b[f][1:3] == a[f][1:3]:
                    return f'dataset {k}: measurements changed (same dtype / shape, other values)'
                return f'dataset {k}: {f} changed'
    return None


def _session_objects(case):
    proto = {'variant': _subcase(case, 0)['variant'], 'P': case['P']}
    if case['temporal']:
        proto.update(times=case['times'], tname=case['tname'],
                     tform={'default_time': False, 'tdesc_type': case.get('tdesc_type', 'array')})
    return [_build(proto, ds, k, temporal=case['temporal'])
            for k, ds in enumerate(case['datasets'])]


def run_session(case):
    """[(sub-case, RDMs | exception, intact: None | text)] of the successive calls on ONE set of
    dataset objects"""
    objs = _session_objects(case)
    before = [_snapshot(o) for o in objs]
    out = []
    for i, st in enumerate(case['steps']):
        sub = _subcase(case, i)
        try:
            res = call_library(sub, [objs[k] for k in st['which']])
        except Exception as exc:  # noqa: BLE001
            res = exc
        out.append((sub, res, _snap_diff(before, [_snapshot(o) for o in objs])))
    return out, objs


def run_impl(case):
    if case['kind'] == 'session':
        steps, intact = [], []
        calls, objs = run_session(case)
        for (sub, res, diff), st in zip(calls, case['steps']):
            if isinstance(res, Exception):
                steps.append({'exc': exc_name(res)})
            else:
                o = canon_impl(sub, res)
                if sub['kind'] == 'single' and sub['variant']['dtype'] == 'int' \
                        and sub['datasets'][0]['labels'] is not None and 'exc' not in o:
                    from rsatoolbox.data import average_dataset_by
                    avg, uniq, _ = average_dataset_by(objs[st['which'][0]], 'cond')
                    o['means'] = {lkey(u): [float(x) for x in row] for u, row in zip(uniq, avg)}
                steps.append(o)
            intact.append(diff)
        return {'steps': steps, 'intact': intact}
    if case['kind'] == 'unique':
        from rsatoolbox.util.data_utils import get_unique_inverse
        arr = np.array(case['labels']) if case['as_array'] else list(case['labels'])
        u, inv = get_unique_inverse(arr)
        return {'unique': [lkey(v) for v in u], 'inverse': [int(i) for i in inv]}
    try:
        rdms = call_library(case)
    except Exception as exc:  # noqa: BLE001
        return {'exc': exc_name(exc)}
    out = canon_impl(case, rdms)
    if case['kind'] == 'single' and case['variant']['dtype'] == 'int' \
            and case['datasets'][0]['labels'] is not None and 'exc' not in out:
        from rsatoolbox.data import average_dataset_by
        avg, uniq, _ = average_dataset_by(_build(case, case['datasets'][0], 0), 'cond')
        out['means'] = {lkey(u): [float(x) for x in row] for u, row in zip(uniq, avg)}
    return out


# ------------------------------------------------------------------ model side

def _mode(case):
    return 'float' if case['method'] in FLOAT_METHODS else 'rat'


def _enc(case, x):
    """number for the driver in the case's mode"""
    return fbits(float(fr(x))) if _mode(case) == 'float' else x


def _dec(case, j):
    if j is None:
        return None
    return unfbits(j) if _mode(case) == 'float' else float(unrat(j))


def _enc_mat(case, m):
    return [[_enc(case, v) for v in row] for row in m]


def _common(case):
    return {'mode': _mode(case), 'method': case['method'], 'P': case['P'],
            'pl': _enc(case, case['pl']), 'pw': _enc(case, case['pw']),
            'remove_mean': bool(case['remove_mean'])}


BASE_VARIANT = {'desc_type': 'array', 'dtype': 'float', 'wrap': 'single', 'perm': None,
                'layout': 'C'}


def _num_enc(case, x, as_int):
    if as_int:
        return int(fr(x))
    return _enc(case, x)


def _noise_json(case):
    nz = case['noise']
    if nz is None:
        return None
    if 'one' in nz:
        return {'one': _enc_mat(case, nz['one'])}
    return {'per': [None if m is None else _enc_mat(case, m) for m in nz['per']]}


def _top_request(case, var, dummy_labels=False):
    """the call in the input form `var` (what the library is handed), for the model's call layer"""
    dss = case['datasets']
    req = {'op': 'c01.top', 'mode': _mode(case), 'method': case['method'], 'P': case['P'],
           'pl': _enc(case, case['pl']) if case['opts_given'] else None,
           'pw': _enc(case, case['pw']) if case['opts_given'] else None,
           'remove_mean': bool(case['remove_mean']), 'noise': _noise_json(case),
           'wrap': 'many' if case['kind'] == 'list' or var['wrap'] == 'list1' else 'one',
           'datasets': []}
    as_int = var['dtype'] == 'int'
    for k, ds in enumerate(dss):
        n = len(ds['X'])
        perm = var['perm'][k] if var.get('perm') else list(range(n))
        labels = list(range(n)) if dummy_labels else ds['labels']
        d = {'dtype': 'int' if as_int else 'float',
             'X': [[_num_enc(case, v, as_int) for v in ds['X'][i]] for i in perm],
             'labels': [labels[i] for i in perm],
             'descs': [] if dummy_labels else
             [[name, var['desc_type'], [ds['descs'][name][i] for i in perm]]
              for name in sorted(ds['descs'])],
             'ddesc': [[kk, vv] for kk, vv in ds['ddesc'].items()]}
        req['datasets'].append(d)
    return req


def _movie_request(case, dummy_labels=False):
    dss = case['datasets']
    return {'op': 'c01.movietop', 'mode': _mode(case), 'method': case['method'], 'P': case['P'],
            'pl': _enc(case, case['pl']) if case['opts_given'] else None,
            'pw': _enc(case, case['pw']) if case['opts_given'] else None,
            'noise': _noise_json(case), 'tname': case['tname'], 'times': case['times'],
            'bins': case['bins'], 'wrap': 'many' if case['as_list'] else 'one',
            'datasets': [{'X': [[[_enc(case, v) for v in ch] for ch in ob] for ob in ds['X']],
                          'labels': list(range(len(ds['X']))) if dummy_labels else ds['labels'],
                          'ddesc': [[kk, vv] for kk, vv in ds['ddesc'].items()]} for ds in dss]}


def _is_base(var):
    return all(var.get(k, BASE_VARIANT[k]) == BASE_VARIANT[k] for k in BASE_VARIANT
               if k != 'layout')


def model_requests(case):
    if case['kind'] == 'session':
        # the model is a function of the call's input alone: every call of a session is asked as
        # the stand-alone call on the original numbers (Props `session_calls_independent`)
        return [r for i in range(len(case['steps'])) for r in model_requests(_subcase(case, i))]
    if case['kind'] == 'unique':
        return [{'op': 'c01.unique', 'labels': case['labels']}]
    req = _common(case)
    nz = case['noise']
    dss = case['datasets']
    labelled = dss[0]['labels'] is not None
    var = case['variant']
    if case['kind'] in ('single', 'list') and labelled:
        # the model's call layer gets the call in the library's input form; the same call in the
        # base form (no permutation, float data, array descriptors, bare dataset) is asked too
        # and must give the same answer (executed instance of the invariance theorems)
        reqs = [_top_request(case, var)]
        if not _is_base(var):
            reqs.append(_top_request(case, BASE_VARIANT))
        if case['kind'] == 'single' and var['dtype'] == 'int':
            ds = dss[0]
            perm = var['perm'][0] if var.get('perm') else list(range(len(ds['X'])))
            reqs.append({'op': 'c01.meansint', 'mode': _mode(case), 'P': case['P'],
                         'labels': [ds['labels'][i] for i in perm],
                         'X': [[int(fr(v)) for v in ds['X'][i]] for i in perm]})
        return reqs
    if case['kind'] == 'single':
        ds = dss[0]
        req.update(op='c01.calc', X=_enc_mat(case, ds['X']), labels=None,
                   noise=None if nz is None else _enc_mat(case, nz['one']), descs=[])
        return [req, _top_request(case, BASE_VARIANT, dummy_labels=True)]
    if case['kind'] == 'list':
        req.update(op='c01.list', labelled=False,
                   datasets=[{'X': _enc_mat(case, ds['X']), 'labels': None} for ds in dss])
        if nz is None:
            req['noises'] = None
        elif 'one' in nz:
            req['noises'] = [_enc_mat(case, nz['one'])] * len(dss)
        else:
            req['noises'] = [None if m is None else _enc_mat(case, m) for m in nz['per']]
        # second request: descriptors only (the labels are irrelevant for them)
        return [req, _top_request(case, BASE_VARIANT, dummy_labels=True)]
    if labelled:
        return [_movie_request(case)]
    reqs = []
    for k, ds in enumerate(dss):
        r = dict(req)
        r.update(op='c01.movie', X=[[[_enc(case, v) for v in ch] for ch in ob] for ob in ds['X']],
                 labels=None, times=case['times'], bins=case['bins'],
                 noise=None if nz is None else
                 _enc_mat(case, nz['one'] if 'one' in nz else nz['per'][k]))
        reqs.append(r)
    reqs.append(_movie_request(case, dummy_labels=True))      # descriptors only
    return reqs


def _vals_from_vec(case, conds, vec):
    vals, k = {}, 0
    for i in range(len(conds)):
        for j in range(i + 1, len(conds)):
            vals[pkey(conds[i], conds[j])] = _dec(case, vec[k])
            k += 1
    return vals


def _rval_key(e):
    if e is None:
        return lkey(None)
    if 's' in e:
        return lkey(e['s'])
    if 'v' in e:
        return lkey(list(e['v']))
    return lkey(unrat(e['t']))


def _rdesc_rows(stack, n_rdm):
    """per RDM: {name: key} from the model's column-wise rdm descriptors"""
    if not isinstance(stack, dict) or stack.get('none') or 'rdesc' not in stack:
        return None
    rows = [{} for _ in range(n_rdm)]
    for name, col in stack['rdesc']:
        if len(col) != n_rdm:
            return None
        for k, e in enumerate(col):
            rows[k][name] = _rval_key(e)
    return rows


def _n_from_len(m):
    n = 0
    while n * (n - 1) // 2 < m:
        n += 1
    return max(n, 1) if m else 1


def _same_stack(case, a, b):
    """two model answers agree (exactly in Rat mode, to rounding in Float mode)"""
    if a.get('labels') != b.get('labels') or len(a['vecs']) != len(b['vecs']):
        return False
    for va, vb in zip(a['vecs'], b['vecs']):
        if len(va) != len(vb):
            return False
        for x, y in zip(va, vb):
            if (x is None) != (y is None):
                return False
            if x is not None and x != y and not close(_dec(case, x), _dec(case, y), *_tol(case)):
                return False
    ra, rb = _rdesc_rows(a, len(a['vecs'])), _rdesc_rows(b, len(b['vecs']))
    return ra == rb


def model_result(case, answers):
    for a in answers:
        if isinstance(a, dict) and 'model_error' in a:
            return a
    if case['kind'] == 'unique':
        return {'unique': [lkey(v) for v in answers[0]['unique']], 'inverse': answers[0]['inverse']}
    if case['kind'] == 'session':
        steps, a0 = [], 0
        for i in range(len(case['steps'])):
            sub = _subcase(case, i)
            n = len(model_requests(sub))
            steps.append(model_result(sub, answers[a0:a0 + n]))
            a0 += n
        for m in steps:
            if isinstance(m, dict) and 'model_error' in m:
                return m
        return {'steps': steps, 'intact': [None] * len(steps)}
    dss = case['datasets']
    labelled = dss[0]['labels'] is not None
    var = case['variant']
    if case['kind'] in ('single', 'list') and labelled:
        a = answers[0]
        if a.get('none'):
            return {'model_error': 'the call layer of the model rejects the method'}
        rest = answers[1:]
        if not _is_base(var):
            if rest[0].get('none') or not _same_stack(case, a, rest[0]):
                return {'model_error': 'model: input-form variant and base form disagree',
                        'variant': a, 'base': rest[0]}
            rest = rest[1:]
        conds = [lkey(v) for v in a['labels']]
        rows = _rdesc_rows(a, len(a['vecs']))
        if rows is None:
            return {'model_error': 'model: rdm descriptor column of the wrong length'}
        out = {'conds': sorted(conds), 'pdesc': {},
               'rdms': [{'values': _vals_from_vec(case, conds, vec), 'rdesc': rows[k]}
                        for k, vec in enumerate(a['vecs'])]}
        if case['kind'] == 'single' and var['wrap'] == 'single':
            out['pdesc'] = {name: None if col is None else {c: lkey(v) for c, v in zip(conds, col)}
                            for name, col in a['pdesc']}
        if rest:
            m = rest[0]
            out['means'] = {lkey(u): [_dec(case, x) for x in row]
                            for u, row in zip(m['unique'], m['means'])}
        return out
    if case['kind'] == 'single':
        a, ds, st = answers[0], dss[0], answers[1]
        conds = ['#%d' % i for i in range(len(ds['X']))]
        pdesc = {name: {c: lkey(v) for c, v in zip(conds, col)} for name, col in ds['descs'].items()}
        if var['wrap'] != 'single':
            pdesc = {}
        rows = None if st.get('none') else _rdesc_rows(st, 1)
        if rows is None:
            return {'model_error': 'model: rdm descriptor column of the wrong length'}
        return {'conds': sorted(conds), 'pdesc': pdesc,
                'rdms': [{'values': _vals_from_vec(case, conds, a['vec']), 'rdesc': rows[0]}]}
    if case['kind'] == 'list':
        a, st = answers[0], answers[1]
        conds = ['#%d' % i for i in range(len(dss[0]['X']))]
        rows = _rdesc_rows(st, len(dss))
        if rows is None:
            return {'model_error': 'model: rdm descriptor column of the wrong length'}
        rdms = []
        for k, (ds, vec) in enumerate(zip(dss, a['vecs'])):
            if case.get('align'):       # every dataset's vector is in its own observation order
                conds = [lkey(v) for v in ds['descs'][case['align']]]
            rdms.append({'values': _vals_from_vec(case, conds, vec), 'rdesc': rows[k]})
        return {'conds': sorted(conds), 'pdesc': {}, 'rdms': rdms}
    # movies
    if labelled:
        a = answers[0]
        if a.get('none'):
            return {'model_error': 'the call layer of the model rejects the method'}
        conds = [lkey(v) for v in a['labels']]
        rows = _rdesc_rows(a, len(a['vecs']))
        if rows is None:
            return {'model_error': 'model: rdm descriptor column of the wrong length'}
        return {'conds': sorted(conds), 'pdesc': {},
                'rdms': [{'values': _vals_from_vec(case, conds, vec), 'rdesc': rows[k]}
                         for k, vec in enumerate(a['vecs'])]}
    st = answers[-1]
    frames = [f for a in answers[:-1] for f in a['frames']]
    rows = _rdesc_rows(st, len(frames))
    if rows is None:
        return {'model_error': 'model: rdm descriptor column of the wrong length'}
    rdms, conds = [], []
    for k, f in enumerate(frames):
        conds = ['#%d' % i for i in range(_n_from_len(len(f['vec'])))]
        rdms.append({'values': _vals_from_vec(case, conds, f['vec']), 'rdesc': rows[k]})
    return {'conds': sorted(conds), 'pdesc': {}, 'rdms': rdms}


def _tol(case, oracle_side=False):
    """float32 measurements are computed with in float32 by the library (descriptor=None) or
    averaged in float32 (np.mean of float32 rows): single precision tolerances there"""
    if case.get('variant', {}).get('np_dtype') == 'float32':
        return (1e-4, 2e-5)
    u = _unit(case)         # 1 unless the case is in another unit (round 5): atol is relative to U
    return (1e-8, 1e-11 * u) if oracle_side else (RTOL, ATOL * u)


def _step_name(case, i):
    st = case['steps'][i]
    opts = [st['method']]
    if st['remove_mean']:
        opts.append('remove_mean=True')
    opts.append("descriptor='cond'" if st['use_desc'] else 'descriptor=None')
    if st['kind'] == 'movie':
        opts.append('bins' if st['bins'] is not None else 'no bins')
    what = 'calc_rdm_movie' if st['kind'] == 'movie' else 'calc_rdm'
    arg = 'datasets %s' % st['which'] if (st['kind'] == 'list' or st.get('as_list')
                                          or st.get('wrap') == 'list1') else 'dataset %d' % st['which'][0]
    return f'call {i + 1} of {len(case["steps"])}: {what}({arg}, {", ".join(opts)})'


def compare(case, impl, model):
    if isinstance(model, dict) and 'model_error' in model:
        return f'model error {model}'
    if case['kind'] == 'session':
        for i in range(len(case['steps'])):
            d = compare(_subcase(case, i), impl['steps'][i], model['steps'][i])
            if d:
                return f'{_step_name(case, i)}: {d}'
            if impl['intact'][i]:
                return f'{_step_name(case, i)} modified its input: {impl["intact"][i]}'
        return None
    rtol, atol = _tol(case)
    if case['kind'] == 'unique':
        return None if impl == model else f'get_unique_inverse: impl {impl} != model {model}'
    if 'exc' in impl:
        return f"implementation raised {impl['exc']}; model has a value"
    if impl['conds'] != model['conds']:
        return f"conditions: impl {impl['conds']} != model {model['conds']}"
    if len(impl['rdms']) != len(model['rdms']):
        return f"number of RDMs: impl {len(impl['rdms'])} != model {len(model['rdms'])}"
    for k, (a, b) in enumerate(zip(impl['rdms'], model['rdms'])):
        for pk in sorted(b['values']):
            x, y = a['values'].get(pk, 'absent'), b['values'][pk]
            if x == 'absent':
                return f'rdm {k} pair {pk}: absent in impl'
            if (x is None) != (y is None):
                return f'rdm {k} pair {pk}: impl {x} != model {y} (missing-ness)'
            if x is not None and not close(x, y, rtol, atol):
                return f'rdm {k} pair {pk}: impl {x!r} != model {y!r}'
        for name, want in b['rdesc'].items():
            got = a['rdesc'].get(name, 'absent')
            if got != want:
                return f'rdm {k} descriptor {name}: impl {got} != dataset {want}'
    for name, want in model['pdesc'].items():
        got = impl['pdesc'].get(name, 'absent')
        if got != want:
            return f'pattern descriptor {name}: impl {got} != model {want}'
    if 'means' in model:
        got = impl.get('means')
        if got is None or sorted(got) != sorted(model['means']):
            return f"condition means of int data: impl {got} != model {model['means']}"
        m_atol = ATOL * 2.0 ** max(case['scale']['exps']) if case.get('scale') else atol
        for c, row in model['means'].items():
            if len(got[c]) != len(row) or any(not close(x, y, rtol, m_atol) for x, y in zip(got[c], row)):
                return f'condition mean of {c} (int data): impl {got[c]} != model {row}'
    return None


# ------------------------------------------------------------------ features

def _session_features(case, impl):
    steps, var = case['steps'], case['variant']
    br = ['session:temporal' if case['temporal'] else 'session:plain',
          'session:dtype_' + var['dtype'], 'session:layout_' + var['layout'],
          'session:steps_%d' % len(steps)]
    first = steps[0]
    if _writer_prone(first) or (case['temporal'] and first['method'] == 'correlation'):
        br.append('session:writer_first')
        if not first['use_desc']:
            br.append('session:writer_first_nodesc')
            if var['dtype'] == 'float':
                br.append('session:writer_first_nodesc_float64')
    if first['method'] == 'correlation':
        br.append('session:correlation_first')
    if first['remove_mean']:
        br.append('session:remove_mean_first')
    for a, b in zip(steps, steps[1:]):
        br.append('session:%s_then_%s' % ('desc' if a['use_desc'] else 'nodesc',
                                          'desc' if b['use_desc'] else 'nodesc'))
        if a['method'] != b['method']:
            br.append('session:method_changes')
        if bool(a['remove_mean']) != bool(b['remove_mean']):
            br.append('session:remove_mean_changes')
        la, lb = _step_is_list(a), _step_is_list(b)
        if la != lb:
            br.append('session:single_then_list' if lb else 'session:list_then_single')
        if case['temporal'] and (a['bins'] is None) != (b['bins'] is None):
            br.append('session:bins_change')
    if any(_step_is_list(st) for st in steps):
        br.append('session:list_step')
    if len(case['datasets']) > 1:
        br.append('session:two_datasets')
    for st in steps[1:]:
        br.append('session:later_' + st['method'])
    if case.get('scale'):
        br += ['scale:session', 'session:scale_' + case['scale']['class']]
    exc = None
    if isinstance(impl, dict) and 'steps' in impl:
        exc = next((s_['exc'] for s_ in impl['steps'] if 'exc' in s_), None)
    return {'kind': 'session', 'method': first['method'], 'P': case['P'],
            'n_ds': len(case['datasets']), 'labelled': bool(first['use_desc']),
            'wrapped': _step_is_list(first), 'remove_mean': bool(first['remove_mean']),
            'opts_given': bool(first['opts_given']), 'bins': False, 'dtype': var['dtype'],
            'desc_type': var['desc_type'], 'n_obs': len(case['datasets'][0]['X']),
            'n_steps': len(steps), 'temporal': bool(case['temporal']), 'layout': var['layout'],
            'scale': case['scale']['class'] if case.get('scale') else 'none',
            'exc': exc, 'branches': sorted(set(br))}


def _step_is_list(st):
    return st['kind'] == 'list' or bool(st.get('as_list')) or st.get('wrap') == 'list1'


def features(case, impl):
    if case['kind'] == 'unique':
        return {'kind': 'unique', 'branches': ['unique']}
    if case['kind'] == 'session':
        return _session_features(case, impl)
    dss = case['datasets']
    labelled = dss[0]['labels'] is not None
    var = case['variant']
    br = ['method:' + case['method'], 'desc:given' if labelled else 'desc:none',
          'dtype:' + var['dtype'], 'descs:' + var['desc_type']]
    nz = case['noise']
    if case['method'] == 'mahalanobis':
        br.append('noise:none' if nz is None else 'noise:matrix' if 'one' in nz else 'noise:list')
    if labelled:
        avg = any(len(set(ds['labels'])) != len(ds['labels']) for ds in dss)
        br.append('avg:yes' if avg else 'avg:no')
        ints = isinstance(dss[0]['labels'][0], int)
        br.append('labels:int' if ints else 'labels:str')
    if case['remove_mean']:
        br.append('rm:true')
    if var.get('perm'):
        br.append('perm')
    n_ds = len(dss)
    wrapped = case['kind'] == 'list' or var['wrap'] == 'list1'
    if case['kind'] in ('single', 'list') and wrapped:
        br.append('list:labelled' if labelled else 'list:unlabelled')
        if n_ds == 1:
            br.append('list:single')
        if case.get('align'):
            br.append('list:aligned')
        if labelled and len({frozenset(map(lkey, ds['labels'])) for ds in dss}) > 1:
            br.append('list:missing')
    if case['kind'] == 'movie':
        br.append('movie:nobins' if case['bins'] is None else 'movie:bins')
        if case['bins'] is not None and any(len(b) == 1 for b in case['bins']):
            br.append('movie:singleton_bin')
        if case['as_list']:
            br.append('movie:list')
        if not labelled:
            br.append('movie:nodesc')
        tform = case.get('tform', {})
        tl = [fr(t) for t in case['times']]
        if len(set(tl)) < len(tl):
            br.append('movie:repeated_time')
        if case['bins'] is not None and \
                len(_frame_groups(tl, [[fr(x) for x in b] for b in case['bins']])) < len(case['bins']):
            br.append('movie:merged_bins')
        if tform.get('default_time'):
            br.append('movie:default_time')
        if tform.get('tdesc_type') == 'list':
            br.append('movie:time_list')
        if case['bins'] is not None and tform.get('bins_type') == 'list':
            br.append('movie:bins_list')
        if isinstance(nz, dict) and 'per' in nz:
            br.append('movie:noise_list')
        if case['tname'] != 'time':
            br.append('movie:other_time_descriptor')
        if not labelled and len(set(tl)) < len(tl):
            br.append('movie:nodesc_repeated')
        if case['bins'] is not None:
            bt = tform.get('bins_type')
            if bt in ('tuple', 'array2d'):
                br.append('movie:bins_' + bt)
            bl = [[fr(x) for x in b] for b in case['bins']]
            flat = [x for b in bl for x in set(b)]
            if len(flat) != len(set(flat)):
                br.append('movie:bins_overlap')
            if any(x not in tl for x in flat):
                br.append('movie:bins_foreign')
            if any(len(b) != len(set(b)) for b in bl):
                br.append('movie:bins_dupval')
        if var['dtype'] == 'int':
            br.append('movie:dtype_int')
    if var.get('layout') in ('F', 'strided'):
        br.append('layout:' + var['layout'])
    if isinstance(nz, dict) and nz.get('container') in ('array3d', 'tuple') \
            and all(m is not None for m in nz['per']):
        br.append('noise:' + nz['container'])
    if case['kind'] in ('single', 'list') and labelled and not _is_base(var):
        br.append('form:base_checked')
    if case['kind'] == 'single' and labelled and var['dtype'] == 'int':
        br.append('means:int')
    if case['method'] == 'poisson':
        br.append('priors:given' if case['opts_given'] else 'priors:default')
    if isinstance(nz, dict) and 'per' in nz and any(m is None for m in nz['per']):
        br.append('noise:list_none')
    sc = case.get('scale')
    if sc and not case.get('in_session'):
        br += ['scale:' + sc['class'], 'scale:' + case['method'], 'scale:kind_' + case['kind']]
        if case['method'] == 'mahalanobis' and nz is not None and sc['noise_exp'] != 0:
            br.append('scale:precision')
        if var['dtype'] == 'int':
            br.append('scale:int')
            if var.get('int_width') in (16, 32):
                br.append('scale:int_narrow')
        if case['remove_mean']:
            br.append('scale:remove_mean')
        if not labelled:
            br.append('scale:nodesc')
    if any('params' in ds['ddesc'] for ds in dss):
        br.append('ddesc:vector')
    if len({frozenset(ds['ddesc']) for ds in dss}) > 1:
        br.append('ddesc:names_differ')
    if isinstance(impl, dict) and impl.get('pdesc'):
        for v in impl['pdesc'].values():
            br.append('pdesc:dropped' if v is None else 'pdesc:kept')
    return {'kind': case['kind'], 'method': case['method'], 'P': case['P'], 'n_ds': n_ds,
            'labelled': labelled, 'wrapped': bool(wrapped or case.get('as_list')),
            'remove_mean': bool(case['remove_mean']), 'opts_given': bool(case['opts_given']),
            'bins': case.get('bins') is not None, 'dtype': var['dtype'],
            'desc_type': var['desc_type'], 'n_obs': len(dss[0]['X']),
            'ddesc_names_differ': len({frozenset(ds['ddesc']) for ds in dss}) > 1,
            'repeated_time': case['kind'] == 'movie' and
            len(set(case['times'])) < len(case['times']),
            'merged_frames': case['kind'] == 'movie' and
            len(_frame_groups([fr(t) for t in case['times']],
                              None if case['bins'] is None else
                              [[fr(x) for x in b] for b in case['bins']])) <
            (len(case['times']) if case['bins'] is None else len(case['bins'])),
            'bins_as_lists': case['kind'] == 'movie' and case.get('bins') is not None
            and case.get('tform', {}).get('bins_type') == 'list',
            'bins_other_time_descriptor': case['kind'] == 'movie' and case.get('bins') is not None
            and case.get('tname') != 'time',
            'scale': sc['class'] if sc else 'none',
            'scale_min_exp': min(sc['exps']) if sc else 0, 'scale_max_exp': max(sc['exps']) if sc else 0,
            'int_width': var.get('int_width', 64) if var['dtype'] == 'int' else 0,
            'exc': impl.get('exc') if isinstance(impl, dict) else None,
            'branches': sorted(set(br))}


def nontrivial_key(case, impl):
    if case['kind'] == 'unique':
        return ['unique', case['labels']] if len(set(map(lkey, case['labels']))) > 1 else None
    if case['kind'] == 'session':
        if not isinstance(impl, dict) or 'steps' not in impl:
            return ['exc', json.dumps(case, sort_keys=True, default=str)]
        keys = [nontrivial_key(_subcase(case, i), r) for i, r in enumerate(impl['steps'])]
        return json.dumps(case, sort_keys=True, default=str) if any(k is not None for k in keys) \
            else None
    if not isinstance(impl, dict) or 'exc' in impl:
        return ['exc', json.dumps(case, sort_keys=True, default=str)]
    u = _unit(case)
    vals = [v for r in impl['rdms'] for v in r['values'].values() if v is not None]
    if len(impl['conds']) < 2 or len({round(v / u, 9) for v in vals}) < 2 and len(vals) > 1:
        return None
    return json.dumps(case, sort_keys=True, default=str)


# ------------------------------------------------------------------ oracle
# direct transcription of the property statement; shares only the dataset builder /
# library call with the adaptor above, nothing with the Lean model.

def _o_means(X, labels):
    """per-condition mean patterns (plain loops, exact)"""
    means = {}
    for k, lab in enumerate(labels):
        means.setdefault(lkey(lab), []).append(X[k])
    return {lab: [sum(col) / len(rows) for col in zip(*rows)] for lab, rows in means.items()}


def _o_dist(case, a, b, noise):
    """the property's formula for two mean patterns; exact where possible"""
    P = len(a)
    method = case['method']
    if method in ('euclidean', 'mahalanobis') and case['remove_mean']:
        ma, mb = sum(a) / P, sum(b) / P
        a, b = [x - ma for x in a], [x - mb for x in b]
    if method == 'euclidean' or (method == 'mahalanobis' and noise is None):
        return float(sum((x - y) ** 2 for x, y in zip(a, b)) / P)
    if method == 'mahalanobis':
        d = [x - y for x, y in zip(a, b)]
        return float(sum(d[i] * noise[i][j] * d[j] for i in range(P) for j in range(P)) / P)
    if method == 'correlation':
        ma, mb = sum(a) / P, sum(b) / P
        cov = float(sum((x - ma) * (y - mb) for x, y in zip(a, b)) / P)
        va = float(sum((x - ma) ** 2 for x in a) / P)
        vb = float(sum((y - mb) ** 2 for y in b) / P)
        return 1 - cov / (math.sqrt(va) * math.sqrt(vb))
    pl, pw = fr(case['pl']), fr(case['pw'])
    la = [float((x + pl * pw) / (1 + pw)) for x in a]
    lb = [float((y + pl * pw) / (1 + pw)) for y in b]
    return sum((x - y) * (math.log(x) - math.log(y)) for x, y in zip(la, lb)) / P


def _o_noise(case, k):
    nz = case['noise']
    if nz is None:
        return None
    m = nz['one'] if 'one' in nz else nz['per'][k]
    return None if m is None else [[fr(v) for v in row] for row in m]


def _o_expected(case):
    """list of expected RDMs: (condition keys -> mean pattern, noise, rdesc)"""
    out = []
    dss = case['datasets']
    if case['kind'] != 'movie':
        for k, ds in enumerate(dss):
            X = [[fr(v) for v in row] for row in ds['X']]
            if ds['labels'] is not None:
                keys = [lkey(l) for l in ds['labels']]
            elif case.get('align'):
                keys = [lkey(v) for v in ds['descs'][case['align']]]
            else:
                keys = ['#%d' % i for i in range(len(X))]
            means = {}
            for i, key in enumerate(keys):
                means.setdefault(key, []).append(X[i])
            means = {key: [sum(c) / len(rows) for c in zip(*rows)] for key, rows in means.items()}
            out.append((means, _o_noise(case, k), {n: lkey(v) for n, v in ds['ddesc'].items()}))
        return out
    times = [fr(t) for t in case['times']]
    T = len(times)
    if case['bins'] is None:
        slices = [([t], times[t]) for t in range(T)]
    else:
        slices = []
        for b in case['bins']:
            sel = [t for t in range(T) if times[t] in [fr(x) for x in b]]
            slices.append((sel, sum(times[t] for t in sel) / len(sel)))
    frames = {}      # equal (binned) time values are one frame holding all their slices
    for sel, tval in slices:
        frames.setdefault(tval, []).append(sel)
    for k, ds in enumerate(dss):
        n = len(ds['X'])
        for tval, sels in frames.items():
            means = {}
            for j, sel in enumerate(sels):
                for i in range(n):
                    row = [sum(fr(ds['X'][i][c][t]) for t in sel) / len(sel)
                           for c in range(case['P'])]
                    key = lkey(ds['labels'][i]) if ds['labels'] is not None else \
                        '#%d' % (j * n + i)
                    means.setdefault(key, []).append(row)
            means = {key: [sum(c) / len(rows) for c in zip(*rows)] for key, rows in means.items()}
            rd = {nm: lkey(v) for nm, v in ds['ddesc'].items()}
            rd[case['tname']] = lkey(tval)
            out.append((means, _o_noise(case, k), rd))
    return out


def oracle(case):
    feats = {}
    if case['kind'] == 'unique':
        from rsatoolbox.util.data_utils import get_unique_inverse
        arr = np.array(case['labels']) if case['as_array'] else list(case['labels'])
        u, inv = get_unique_inverse(arr)
        u = [lkey(v) for v in u]
        want = list(dict.fromkeys(lkey(v) for v in case['labels']))
        if u != want:
            return {'what': 'unique values are not in order of first appearance',
                    'observed': u, 'expected': want, 'features': feats}
        for k, lab in enumerate(case['labels']):
            if u[int(inv[k])] != lkey(lab):
                return {'what': 'inverse index does not point at the element', 'observed': int(inv[k]),
                        'expected': want.index(lkey(lab)), 'features': feats}
        return None
    if case['kind'] == 'session':
        o = _oracle_session(case)
        return o or (_oracle_scale_law(case) if case.get('scale') else None)
    try:
        rdms = call_library(case)
    except Exception as exc:  # noqa: BLE001
        rdms = exc
    o = _oracle_result(case, rdms)
    if o or not case.get('scale'):
        return o
    return _oracle_scale_law(case, rdms)


LAW_TEXT = {'euclidean': 'result(s X) = s^2 result(X)', 'correlation': 'result(s X) = result(X)',
            'mahalanobis': 'result(s X, t N) = t s^2 result(X, N)',
            'poisson': 'result(s X, s prior_lambda) = s result(X, prior_lambda)'}


def _oracle_scale_law(case, rdms=None):
    """the property's formulas fix how each value responds to a change of unit; judge that
    directly: the same call on the data with the common factor 2^g removed (exact in binary
    floating point), times the factor the formula dictates.  Rounding is identical on both sides
    (scaling by a power of two commutes with + - * / sqrt), so the tolerance is far below the one
    of the formula check: only log (poisson) sees the factor at all."""
    base, factors = _descaled(case)
    if case['kind'] == 'session':
        got = [(sub, res) for sub, res, _d in run_session(case)[0]]
        ref = [(sub, res) for sub, res, _d in run_session(base)[0]]
    else:
        try:
            ref_res = call_library(base)
        except Exception as exc:  # noqa: BLE001
            ref_res = exc
        got, ref = [(case, rdms)], [(base, ref_res)]
    for i, ((sub, a), (bsub, b)) in enumerate(zip(got, ref)):
        if isinstance(a, Exception) or isinstance(b, Exception):
            if isinstance(a, Exception) != isinstance(b, Exception):
                return {'what': 'the call succeeds in one unit of the data and raises in another',
                        'observed': repr(a)[:120], 'expected': repr(b)[:120], 'scale': case['scale'],
                        'features': {'symptom': 'scale-law', 'scale': case['scale']['class']}}
            continue
        ca, cb = canon_impl(sub, a), canon_impl(bsub, b)
        if 'exc' in ca or 'exc' in cb or ca['conds'] != cb['conds'] or len(ca['rdms']) != len(cb['rdms']):
            continue
        m = sub['method']
        f = factors['mahalanobis_none'] if m == 'mahalanobis' and sub['noise'] is None else factors[m]
        u = _unit(sub)
        for k, (ra, rb) in enumerate(zip(ca['rdms'], cb['rdms'])):
            for pk in sorted(ra['values']):
                x, y = ra['values'][pk], rb['values'].get(pk)
                if x is None or y is None:
                    continue
                if not close(x, f * y, 1e-11, 1e-13 * u):
                    where = f'RDM {k}, pair {pk}'
                    if case['kind'] == 'session':
                        where = _step_name(case, i) + '; ' + where
                    return {'what': f'{m} value does not follow the scale law of its formula when the '
                                    f'data are expressed in another unit ({LAW_TEXT[m]})',
                            'where': where, 'observed': x,
                            'expected': f * y, 'same_call_on_rescaled_data': y, 'factor': f,
                            'relative_error': abs(x - f * y) / max(abs(f * y), 1e-300),
                            'scale': case['scale'],
                            'features': {'symptom': 'scale-law', 'scale': case['scale']['class'],
                                         'method': m}}
    return None


def _oracle_session(case):
    """every call of the session against the formula on the case's ORIGINAL numbers (exact
    rationals the library never touches); the reused objects must stay bit-identical"""
    calls, _objs = run_session(case)
    modified = [(i, diff) for i, (_s, _r, diff) in enumerate(calls) if diff]
    for i, (sub, res, _diff) in enumerate(calls):
        o = _oracle_result(sub, res)
        if o:
            if i:
                o['what'] += ' (reuse session: a later call on a dataset object that was analysed before)'
            else:
                o['what'] += ' (reuse session: first call)'
            o['where'] = _step_name(case, i) + ('; ' + o['where'] if o.get('where') else '')
            o['call'] = i + 1
            earlier = [(j, d) for j, d in modified if j < i]
            if earlier:
                o['dataset_state'] = (f'{_step_name(case, earlier[0][0])} had modified its input '
                                      f'({earlier[0][1]}); the expected value is the formula on the '
                                      'data the Dataset was constructed with')
            o['features'] = dict(o.get('features', {}), session=True, call=i + 1,
                                 after_modification=bool(earlier))
            return o
    if modified:
        i, diff = modified[0]
        return {'what': 'a call modified the dataset it was given (a later analysis of the same '
                        'object no longer sees the original observations)',
                'where': f'{_step_name(case, i)}; {diff}', 'observed': 'measurements / descriptors differ from their state '
                'before the call', 'expected': 'bit-identical', 'call': i + 1,
                'features': {'symptom': 'input-modified', 'session': True, 'call': i + 1}}
    return None


def _oracle_result(case, rdms):
    """judge what one call returned (`rdms`: RDMs object or the exception it raised)"""
    f0 = features(case, None)
    o_rtol, o_atol = _tol(case, oracle_side=True)
    if isinstance(rdms, Exception):
        exc = rdms
        return {'what': f'{case["kind"]} call raised {type(exc).__name__}',
                'message': str(exc)[:160], 'observed': exc_name(exc), 'expected': 'an RDMs object',
                'features': {'symptom': 'exception', 'exc': exc_name(exc)}}
    got = canon_impl(case, rdms)
    if 'exc' in got:
        return {'what': 'result has no usable condition labels', 'observed': got['exc'],
                'expected': 'one label per row/column', 'features': {'symptom': 'labels'}}
    exp = _o_expected(case)
    all_conds = sorted({c for means, _, _ in exp for c in means})
    if got['conds'] != all_conds:
        return {'what': 'rows/columns are not exactly the distinct condition labels',
                'observed': got['conds'], 'expected': all_conds, 'features': {'symptom': 'conds'}}
    if len(got['rdms']) != len(exp):
        return {'what': 'wrong number of RDMs', 'observed': len(got['rdms']), 'expected': len(exp),
                'features': {'symptom': 'n_rdm', 'bins': f0['bins'], 'wrapped': f0['wrapped']}}
    for k, ((means, noise, rd), g) in enumerate(zip(exp, got['rdms'])):
        for i, a in enumerate(all_conds):
            for b in all_conds[i + 1:]:
                x = g['values'].get(pkey(a, b), 'absent')
                if a in means and b in means:
                    want = _o_dist(case, means[a], means[b], noise)
                    if x == 'absent' or x is None or not close(x, want, o_rtol, o_atol):
                        return {'what': f'value is not the {case["method"]} formula on the two '
                                        'condition means', 'where': f'RDM {k}, pair ({a}, {b})',
                                'observed': x, 'expected': want,
                                'features': {'symptom': 'value', 'wrapped': f0['wrapped'],
                                             'remove_mean': f0['remove_mean'],
                                             'opts_given': f0['opts_given'], 'bins': f0['bins']}}
                elif x is not None:
                    return {'what': 'a value is reported although the dataset lacks one of the '
                                    'conditions', 'where': f'RDM {k}, pair ({a}, {b})',
                            'observed': x, 'expected': None, 'features': {'symptom': 'not-missing'}}
        for name, want in rd.items():
            if g['rdesc'].get(name, 'absent') != want:
                return {'what': 'a dataset descriptor is not attached to its RDM',
                        'where': f'RDM {k}, descriptor {name!r}', 'observed': g['rdesc'].get(name, 'absent'), 'expected': want,
                        'features': {'symptom': 'rdesc', 'wrapped': f0['wrapped'],
                                     'n_ds': f0['n_ds'], 'desc_name': 'time' if name == case.get('tname') else name}}
    # pattern descriptors of a single labelled / unlabelled dataset
    if case['kind'] == 'single' and case['variant']['wrap'] == 'single':
        ds = case['datasets'][0]
        n = len(ds['X'])
        keys = [lkey(l) for l in ds['labels']] if ds['labels'] is not None else \
            ['#%d' % i for i in range(n)]
        for name, col in ds['descs'].items():
            per = {}
            for i in range(n):
                per.setdefault(keys[i], set()).add(lkey(col[i]))
            gotd = got['pdesc'].get(name)
            if all(len(s) == 1 for s in per.values()):
                want = {c: next(iter(s)) for c, s in per.items()}
                if gotd != want:
                    return {'what': 'an observation descriptor that is constant within every '
                                    'condition is not attached to the right conditions',
                            'where': f'descriptor {name!r}', 'observed': gotd, 'expected': want, 'features': {'symptom': 'pdesc'}}
            elif isinstance(gotd, dict):
                for c, v in gotd.items():
                    if v not in per.get(c, set()):
                        return {'what': 'a pattern descriptor reports a value no observation of '
                                        'the condition carries', 'where': f'descriptor {name!r}',
                                'observed': gotd, 'expected': per,
                                'features': {'symptom': 'pdesc'}}
    return None


# ------------------------------------------------------------------ shrink

def shrink(case, still_fails):
    """greedy: fewer datasets, observations, channels-free options, simpler variant"""
    if case['kind'] == 'unique':
        return case
    if case['kind'] == 'session':
        return _shrink_session(case, still_fails)
    cur = json.loads(json.dumps(case))

    try:
        base = (oracle(case) or {}).get('what')
    except Exception:  # noqa: BLE001
        base = None

    def attempt(c):
        # keep only candidates that fail in the same way (not by becoming malformed)
        try:
            o = oracle(c)
            return bool(o) and o.get('what') == base and bool(still_fails(c))
        except Exception:  # noqa: BLE001
            return False

    labelled = cur['datasets'][0]['labels'] is not None

    changed = True
    rounds = 0
    while changed and rounds < 4:
        changed = False
        rounds += 1
        v = cur['variant']
        for key, val in (('perm', None), ('desc_type', 'array'), ('dtype', 'float')):
            if v.get(key) != val:
                c = json.loads(json.dumps(cur))
                c['variant'][key] = val
                if attempt(c):
                    cur, changed = c, True
        for k in range(len(cur['datasets']) - 1, -1, -1):
            if len(cur['datasets']) > 1:
                c = json.loads(json.dumps(cur))
                del c['datasets'][k]
                if isinstance(c['noise'], dict) and 'per' in c['noise']:
                    del c['noise']['per'][k]
                if c['variant'].get('perm'):
                    del c['variant']['perm'][k]
                if attempt(c):
                    cur, changed = c, True
        for k, ds in enumerate(cur['datasets']):
            i = len(ds['X']) - 1
            while labelled and i >= 0 and len(cur['datasets'][k]['X']) > 2:
                c = json.loads(json.dumps(cur))
                d = c['datasets'][k]
                del d['X'][i]
                if d['labels'] is not None:
                    del d['labels'][i]
                d['descs'] = {n: vv[:i] + vv[i + 1:] for n, vv in d['descs'].items()}
                c['variant']['perm'] = None
                if attempt(c):
                    cur, changed = c, True
                i -= 1
            for name in list(cur['datasets'][k]['descs']):
                if name != 'cond':
                    c = json.loads(json.dumps(cur))
                    del c['datasets'][k]['descs'][name]
                    if attempt(c):
                        cur, changed = c, True
    return cur


def _shrink_session(case, still_fails):
    """fewer calls (order kept), one dataset, plainest memory form, fewer observations"""
    cur = json.loads(json.dumps(case))

    def symptom(c):
        try:
            o = oracle(c)
        except Exception:  # noqa: BLE001
            return None
        return (o.get('features', {}).get('symptom'), ) if o else None

    base = symptom(cur)
    if base is None:
        return case

    def attempt(c):
        return symptom(c) == base and bool(still_fails(c))

    changed, rounds = True, 0
    while changed and rounds < 4:
        changed, rounds = False, rounds + 1
        for i in range(len(cur['steps']) - 1, -1, -1):
            if len(cur['steps']) > 1:
                c = json.loads(json.dumps(cur))
                del c['steps'][i]
                if attempt(c):
                    cur, changed = c, True
        if len(cur['datasets']) > 1:
            for keep in range(len(cur['datasets'])):
                c = json.loads(json.dumps(cur))
                c['datasets'] = [c['datasets'][keep]]
                ok = True
                for st in c['steps']:
                    if keep not in st['which']:
                        ok = False
                        break
                    if isinstance(st['noise'], dict) and 'per' in st['noise']:
                        m = st['noise']['per'][st['which'].index(keep)]
                        st['noise'] = None if m is None else {'one': m}
                    st['which'] = [0]
                    if st['kind'] == 'list':
                        st['kind'], st['wrap'] = 'single', 'list1'
                if ok and attempt(c):
                    cur, changed = c, True
                    break
        for key, val in (('layout', 'C'), ('desc_type', 'array'), ('dtype', 'float')):
            if cur['variant'].get(key) != val:
                c = json.loads(json.dumps(cur))
                c['variant'][key] = val
                if attempt(c):
                    cur, changed = c, True
        for st_i in range(len(cur['steps'])):
            st = cur['steps'][st_i]
            for key, val in (('wrap', 'single'), ('as_list', False)):
                if st.get(key) not in (None, val) and len(st['which']) == 1 and st['kind'] != 'list':
                    c = json.loads(json.dumps(cur))
                    c['steps'][st_i][key] = val
                    if attempt(c):
                        cur, changed = c, True
        n = len(cur['datasets'][0]['X'])
        for i in range(n - 1, -1, -1):
            if len(cur['datasets'][0]['X']) <= 2:
                break
            c = json.loads(json.dumps(cur))
            for d in c['datasets']:
                del d['X'][i]
                del d['labels'][i]
                d['descs'] = {nm: vv[:i] + vv[i + 1:] for nm, vv in d['descs'].items()}
            if attempt(c):
                cur, changed = c, True
        for name in list(cur['datasets'][0]['descs']):
            if name != 'cond':
                c = json.loads(json.dumps(cur))
                for d in c['datasets']:
                    d['descs'].pop(name, None)
                if attempt(c):
                    cur, changed = c, True
    return cur
