"""C11 helper — independent oracle: a direct transcription of the property statement,
checked on the real rsatoolbox objects, one operation at a time.

Technique: before every operation all measurements of the workspace are overwritten with
fresh unique integers ("tags"), so every measurement of the result can be traced to the
position (dataset, observation, channel, time point) it came from.  The property then reads:
the traced positions are exactly those the operation is supposed to keep, in the order it
is supposed to produce, and every descriptor value attached to a result row / column /
time slice equals the value its source position carried.  Plain loops, no model.

Round 5: the memory layout and dtype of every measurement array are kept when it is re-tagged
(`R.like`), so layouts that arise from operations propagate through the oracle's session exactly as
they do in the library; means of float32 measurements are compared with float32 accuracy.

Round 4: after every step EVERY object of the workspace is re-read, not only the result: a
dataset the operation was not addressed to (and the kept source of a value-returning operation,
and every dataset after a query / a refused call) must hold exactly the measurements it held, each
still carrying exactly the labels it carried (`check_frame`, `check_untouched`).  Datasets that
were built from one measurement array keep sharing one array when they are retagged.
"""
import copy
from fractions import Fraction
import numpy as np
from engines import C11_real as R


def _close(a, b, rtol=1e-9):
    if a is None or b is None:          # missing value: only equal to a missing value
        return a is None and b is None
    if isinstance(a, str) or isinstance(b, str):
        return a == b
    return abs(float(a) - float(b)) <= rtol * max(1.0, abs(float(a)), abs(float(b)))


def mean_rtol(src):
    """numpy averages float32 measurements in float32 (eps = 6e-8); everything else in float64"""
    return 1e-6 if src.get('dtype') == 'float32' else 1e-9


import random as _random
_TAGS = _random.Random(20240611).sample(range(1, 2_000_000), 100_000)     # fixed, pairwise distinct


def retag(ws, start=1, share=True):
    """overwrite measurements with unique tags; returns ({tag: (dataset, i, j, t)}, group) where
    group[k] = first dataset of the workspace that holds the very same measurement array object
    (two datasets built from one array keep sharing one array, as they did: what one of them
    writes into it is seen by the other; `dataset` in the tag map is the group's first member)"""
    where = {}
    nxt = start
    arrays, alive, group = {}, [], []
    for di, d in enumerate(ws):
        alive.append(d.measurements)            # keep the old arrays alive: ids must stay unique
        if share and id(d.measurements) in arrays:
            g, arr = arrays[id(d.measurements)]
            d.measurements = arr
            group.append(g)
            continue
        no, nc, nt = R.dims(d)
        m = np.zeros((no, nc, nt))
        for i in range(no):
            for j in range(nc):
                for t in range(nt):
                    # scattered, not consecutive: with tags in arithmetic progression the mean of
                    # {t0, t2} equals the mean of {t0, t1, t2} and a wrong bin would go unnoticed
                    tag = _TAGS[nxt] if nxt < len(_TAGS) else 2_000_000 + 31 * nxt * nxt
                    m[i, j, t] = tag
                    where[tag] = (di, i, j, t)
                    nxt += 1
        # round 5: the tags are written into an array with exactly the dtype, shape and STRIDES of the
        # one the library left in the object (Fortran order, the transposed buffer of `a[:, :, idx]`,
        # strided / reversed views of the caller's array ...): re-tagging must not normalise the layout
        arr = R.like(d.measurements, m if d.measurements.ndim == 3 else m[:, :, 0])
        arrays[id(d.measurements)] = (di, arr)
        d.measurements = arr
        group.append(di)
    return where, group


def view(d):
    """labelled view: per-axis label dicts, dataset labels, 3-d values"""
    c = R.canon(d)
    no, nc, nt = R.dims(d)
    m = np.array(d.measurements, dtype=float).reshape(no, nc, nt)      # a snapshot, not a view
    return {
        'no': no, 'nc': nc, 'nt': nt, 'm': m, 'desc': c['desc'],
        # a column shorter than its axis (a misaligned dataset: `lengths_ok` reports it) is padded
        'obs': [{k: (v[i] if i < len(v) else '~no entry~') for k, v in c['obs'].items()} for i in range(no)],
        'chan': [{k: (v[j] if j < len(v) else '~no entry~') for k, v in c['chan'].items()} for j in range(nc)],
        'time': [{k: (v[t] if t < len(v) else '~no entry~') for k, v in c['time'].items()} for t in range(nt)],
        'lens': {ax: {k: len(v) for k, v in c[ax].items()} for ax in ('obs', 'chan', 'time')},
        'temporal': c['temporal'], 'dtype': str(d.measurements.dtype),
    }


class Bad(Exception):
    def __init__(self, what, observed=None, expected=None):
        super().__init__(what)
        self.what, self.observed, self.expected = what, observed, expected


def lengths_ok(v):
    for ax, n in (('obs', v['no']), ('chan', v['nc']), ('time', v['nt'])):
        for k, ln in v['lens'][ax].items():
            if ln != n:
                raise Bad(f'{ax} descriptor {k!r} has {ln} entries for {n} positions', ln, n)


def trace(v, where):
    """positions (dataset, i, j, t) of every result measurement"""
    out = np.empty((v['no'], v['nc'], v['nt']), dtype=object)
    for i in range(v['no']):
        for j in range(v['nc']):
            for t in range(v['nt']):
                x = v['m'][i, j, t]
                if not float(x).is_integer() or int(x) not in where:
                    raise Bad('result holds a value that is no measurement of the input', float(x))
                out[i, j, t] = where[int(x)]
    return out


def eff(src, i=None, j=None, t=None):
    """all labels a source position carries (dataset level first, overridden by axis labels)"""
    e = dict(src['desc'])
    if j is not None:
        e.update(src['chan'][j])
    if t is not None:
        e.update(src['time'][t])
    if i is not None:
        e.update(src['obs'][i])
    return e


def check_labels(got, want, what, must=()):
    """every label attached in the result equals the label the source carried; `must` keys
    have to be retained"""
    for k in must:
        if k not in got:
            raise Bad(f'{what}: descriptor {k!r} was dropped', sorted(got), sorted(must))
    for k, x in got.items():
        if k in want and not _close(x, want[k]):
            raise Bad(f'{what}: descriptor {k!r} changed', x, want[k])


def axis_sources(tr, axis):
    """source index along one axis for every result position; it must not depend on the
    other result coordinates"""
    n = tr.shape[axis]
    res = []
    for p in range(n):
        sl = np.take(tr, p, axis=axis).ravel()
        s = {x[1 + axis] for x in sl}
        ds = {x[0] for x in sl}
        if len(s) != 1 or len(ds) != 1:
            raise Bad(f'result position {p} of axis {axis} mixes measurements of several source positions',
                      sorted(map(str, s)))
        res.append((ds.pop(), s.pop()))
    return res


def check_gather(out_v, src_vs, where, want, what):
    """generic check for an operation that selects / reorders along the axes.
    want = {'obs': [(dataset, i)...], 'chan': [...], 'time': [...]} expected sources."""
    lengths_ok(out_v)
    tr = trace(out_v, where)
    names = ('obs', 'chan', 'time')
    for axis, ax in enumerate(names):
        got = axis_sources(tr, axis) if tr.size else []
        if tr.size and got != want[ax]:
            raise Bad(f'{what}: {ax} positions kept/ordered wrongly', got, want[ax])
        if not tr.size and out_v[('no', 'nc', 'nt')[axis]] != len(want[ax]):
            raise Bad(f'{what}: wrong number of {ax} positions', out_v[('no', 'nc', 'nt')[axis]], len(want[ax]))
        for p, (di, s) in enumerate(want[ax]):
            src = src_vs[di]
            srclab = src[ax][s]
            check_labels(out_v[ax][p], dict(eff(src), **srclab), f'{what}: {ax} position {p}', must=srclab.keys())
    # dataset-level labels must be labels every source cell carried
    for k, x in out_v['desc'].items():
        for (di, i) in want['obs']:
            for (_, j) in want['chan']:
                for (_, t) in want['time']:
                    e = eff(src_vs[di], i, j, t)
                    if k in e and not _close(e[k], x):
                        raise Bad(f'{what}: dataset descriptor {k!r} contradicts a row label', x, e[k])


def groups_first(col):
    return R.uniq_first(col)


def check_untouched(before, d, what, where, g):
    """`d` (a dataset the operation was NOT addressed to, or the kept source of a value-returning
    operation) is re-read: it holds exactly the measurements it held, and every one of them still
    carries exactly the observation / channel / time labels it carried before the operation
    (`g`: the dataset index its tags were registered under)"""
    now = view(d)
    lengths_ok(now)
    if (now['no'], now['nc'], now['nt']) != (before['no'], before['nc'], before['nt']) or \
            now['temporal'] != before['temporal']:
        raise Bad(f'{what}: shape / class changed', (now['no'], now['nc'], now['nt']),
                  (before['no'], before['nc'], before['nt']))
    tr = trace(now, where)
    for axis, (ax, n) in enumerate((('obs', now['no']), ('chan', now['nc']), ('time', now['nt']))):
        src = axis_sources(tr, axis) if tr.size else [(g, p) for p in range(n)]
        if any(di != g for di, _ in src) or sorted(p for _, p in src) != list(range(n)):
            raise Bad(f'{what}: it no longer holds exactly its own {ax} positions', src, list(range(n)))
        for p, (_, q) in enumerate(src):
            a, b = now[ax][p], before[ax][q]
            if sorted(a) != sorted(b):
                raise Bad(f'{what}: {ax} descriptor keys changed', sorted(a), sorted(b))
            for k in b:
                if not _close(a[k], b[k]):
                    raise Bad(f'{what}: the measurements of {ax} position {q} now carry {k!r} = {a[k]!r}',
                              a[k], b[k])
    if sorted(now['desc']) != sorted(before['desc']) or \
            any(not _close(now['desc'][k], before['desc'][k]) for k in before['desc']):
        raise Bad(f'{what}: dataset descriptors changed', now['desc'], before['desc'])


def check_frame(name, ws, ws_v, val, i, keep, kind, where, group):
    """every object of the workspace the operation was not addressed to is unchanged (objects
    before `i` keep their position, objects after `i` are shifted by the number of results - 1);
    after a query / a refused call also the addressed one, and the kept source of a
    value-returning operation likewise"""
    if kind in ('query', 'rejected'):
        for j, d in enumerate(ws):
            check_untouched(ws_v[j], d, f'{name} ({kind}) on object {i}: object {j}', where, group[j])
        return
    if name in ('merge', 'pick'):
        return
    shift = len(val) - len(ws)
    for j in range(len(ws)):
        if j == i and not keep:
            continue
        d = val[j] if j <= i else val[j + shift]
        who = 'its kept source' if j == i else f'object {j} (not addressed)'
        check_untouched(ws_v[j], d, f'{name} on object {i}: {who}', where, group[j])


def expected_after(op, args, ws_v, i):
    """what the property demands, as source-position lists per result dataset;
    returns list of `want` dicts (one per result dataset replacing workspace[i])"""
    name = op['name']
    src = ws_v[i]
    all_o = [(i, x) for x in range(src['no'])]
    all_c = [(i, x) for x in range(src['nc'])]
    all_t = [(i, x) for x in range(src['nt'])]

    def col(ax, key):
        return [r[key] for r in src[ax]]
    if name in ('copy', 'pick'):
        return [dict(obs=all_o, chan=all_c, time=all_t)]
    if name == 'split_obs':
        c = col('obs', args['by'])
        return [dict(obs=[(i, p) for p, x in enumerate(c) if x == u], chan=all_c, time=all_t)
                for u in groups_first(c)]
    if name == 'split_channel':
        c = col('chan', args['by'])
        return [dict(obs=all_o, chan=[(i, p) for p, x in enumerate(c) if x == u], time=all_t)
                for u in groups_first(c)]
    if name == 'split_time':
        c = col('time', args['by'])
        return [dict(obs=all_o, chan=all_c, time=[(i, p) for p, x in enumerate(c) if x == u])
                for u in groups_first(c)]
    if name == 'subset_obs':
        c = col('obs', args['by'])
        return [dict(obs=[(i, p) for p, x in enumerate(c) if x in args['vals']], chan=all_c, time=all_t)]
    if name == 'subset_channel':
        c = col('chan', args['by'])
        return [dict(obs=all_o, chan=[(i, p) for p, x in enumerate(c) if x in args['vals']], time=all_t)]
    if name == 'subset_time':
        c = col('time', args['by'])
        return [dict(obs=all_o, chan=all_c,
                     time=[(i, p) for p, x in enumerate(c) if args['lo'] <= x <= args['hi']])]
    if name == 'sort_by':
        c = col('obs', args['by'])
        order = sorted(range(len(c)), key=lambda p: c[p])     # python's sort is stable
        return [dict(obs=[(i, p) for p in order], chan=all_c, time=all_t)]
    if name == 'odd_even':
        c = col('obs', args['by'])
        g = groups_first(c)
        return [dict(obs=[(i, p) for u in g[par::2] for p, x in enumerate(c) if x == u],
                     chan=all_c, time=all_t) for par in (0, 1)]
    if name == 'nested_odd_even':
        c1, c2 = col('obs', args['l1']), col('obs', args['l2'])
        res = []
        for par in (0, 1):
            rows = []
            for u in groups_first(c1):
                inner = [p for p, x in enumerate(c1) if x == u]
                g2 = groups_first([c2[p] for p in inner])
                rows += [(i, p) for w in g2[par::2] for p in inner if c2[p] == w]
            res.append(dict(obs=rows, chan=all_c, time=all_t))
        return res
    raise KeyError(name)


def make_twin(ws, group, nfs):
    """round 7: a deep copy of the (freshly tagged) workspace in which the cells listed in `nfs` hold
    their non-finite value (NaN / +inf / -inf) instead of a tag; arrays keep dtype, strides and the
    sharing between datasets built from one array"""
    tw = copy.deepcopy(ws)
    for k, d in enumerate(tw):
        if group[k] != k:
            d.measurements = tw[group[k]].measurements
            continue
        src = ws[k].measurements
        m3 = np.array(src, dtype=float).reshape(R.dims(ws[k]))
        for (i, j, t), kind in nfs[k].items():
            m3[i, j, t] = R.NONFINITE[kind]
        d.measurements = R.like(src, m3 if src.ndim == 3 else m3[:, :, 0])
    return tw


def nf_cells(d):
    no, nc, nt = R.dims(d)
    m = np.array(d.measurements, dtype=float).reshape(no, nc, nt)
    return {(int(i), int(j), int(t)): R.nf_kind(m[i, j, t]) for i, j, t in zip(*np.nonzero(~np.isfinite(m)))}


def nf_pass(name, op, args, ws_v, nfs, where, twin, kind, val, keep):
    """round 7: the same call on the twin workspace whose cells `nfs` are NaN / +-inf.  A non-finite
    value is a value like any other: it stays with its own observation / channel / time (every
    retained cell of the twin's result is non-finite exactly when the cell it was traced to is, and
    of the same kind; all labels are those of the finite run), and a mean (`bin_time`,
    `average_by`) is non-finite exactly when one of ITS OWN cells is (IEEE: NaN if a NaN or both
    infinities are among them, else that infinity) and otherwise the finite run's mean.
    Returns the non-finite cells of every dataset of the new workspace."""
    import warnings
    a2, adm2, call2 = R.resolve(twin, op)
    if not adm2 or a2 != args:
        raise Bad(f'{name}: admissibility / resolved arguments depend on the measurement values', a2, args)
    with warnings.catch_warnings():
        warnings.simplefilter('ignore')
        try:
            kind2, val2 = call2()
        except Exception as exc:  # noqa: BLE001
            raise Bad(f'{name} raised {type(exc).__name__} when measurements are non-finite (NaN / inf) '
                      f'although the same call on finite values gives a result', str(exc)[:160], 'a result')
    if kind2 != kind:
        raise Bad(f'{name}: {kind2} with non-finite measurements, {kind} with finite ones', kind2, kind)
    i0 = args['at'] if args else 0
    if kind in ('rejected', 'query'):
        for k, d in enumerate(twin):
            if nf_cells(d) != nfs[k]:
                raise Bad(f'{name} ({kind}): the non-finite cells of object {k} moved', nf_cells(d), nfs[k])
        if kind == 'rejected':
            return nfs
        src = ws_v[i0]
        col = [r[args['by']] for r in src['obs']]
        g = groups_first(col)
        if val2['uniq'] != val['uniq'] or val2.get('n') != val.get('n'):
            raise Bad(f'{name}: group labels / sizes depend on the measurement values', val2['uniq'], val['uniq'])
        for a, u in enumerate(g):
            rows = [i for i, x in enumerate(col) if x == u]
            for j in range(src['nc']):
                if name == 'average_by':
                    own = [nfs[i0].get((i, j, 0)) for i in rows]
                    exp, got = R.nf_combine(own), R.nf_kind(val2['avg'][a][j])
                    if exp != got:
                        raise Bad(f'average_by: mean of group {u!r}, channel {j} is {val2["avg"][a][j]!r} but '
                                  f'the cells of its own rows {rows} are {[k or "finite" for k in own]} (a '
                                  f'group mean is non-finite iff one of its own cells is)',
                                  val2['avg'][a][j], exp or float(val['avg'][a][j]))
                    if exp is None and not _close(val2['avg'][a][j], val['avg'][a][j], 1e-6):
                        raise Bad(f'average_by: mean of group {u!r}, channel {j} changed because another '
                                  f'cell is non-finite', val2['avg'][a][j], val['avg'][a][j])
                else:
                    for n, i in enumerate(rows):
                        exp, got = nfs[i0].get((i, j, 0)), R.nf_kind(val2['tensor'][a][j][n])
                        if exp != got or (exp is None and val2['tensor'][a][j][n] != val['tensor'][a][j][n]):
                            raise Bad(f'tensor: entry of group {u!r}, channel {j}, row {i}',
                                      val2['tensor'][a][j][n], exp or val['tensor'][a][j][n])
        return nfs
    if len(val2) != len(val):
        raise Bad(f'{name}: number of result datasets depends on the measurement values', len(val2), len(val))
    off = 1 if keep else 0
    bin_idx = None
    if name == 'bin_time':
        tcol = [r[args['by']] for r in ws_v[i0]['time']]
        bin_idx = [[t for t, x in enumerate(tcol) if x in bn] for bn in args['bins']]
    new_nfs = []
    for r, (d, d2) in enumerate(zip(val, val2)):
        c, c2 = R.canon(d), R.canon(d2)
        for ax in ('temporal', 'desc', 'obs', 'chan', 'time'):
            if c[ax] != c2[ax]:
                raise Bad(f'{name}: {ax} descriptors of result {r} depend on the measurement values '
                          f'(non-finite cells)', c2[ax], c[ax])
        v, v2 = view(d), view(d2)
        if v['m'].shape != v2['m'].shape:
            raise Bad(f'{name}: shape of result {r} depends on the measurement values', v2['m'].shape, v['m'].shape)
        nf = {}
        for p in range(v['no']):
            for q in range(v['nc']):
                for s_ in range(v['nt']):
                    x, y = float(v['m'][p, q, s_]), float(v2['m'][p, q, s_])
                    if bin_idx is not None and r == i0 + off:
                        own = [nfs[i0].get((p, q, t)) for t in bin_idx[s_]]
                        exp, what = R.nf_combine(own), f'mean of bin {s_} at ({p},{q})'
                    elif x.is_integer() and int(x) in where:
                        di, i, j, t = where[int(x)]
                        own = [nfs[di].get((i, j, t))]
                        exp, what = own[0], f'measurement taken from object {di} cell ({i},{j},{t})'
                    else:
                        if R.nf_kind(y):
                            nf[(p, q, s_)] = R.nf_kind(y)
                        continue
                    got = R.nf_kind(y)
                    if exp != got:
                        raise Bad(f'{name}: result {r} cell ({p},{q},{s_}) = {y!r}, but it is the {what} whose own '
                                  f'cell(s) are {[k or "finite" for k in own]} (a non-finite value stays with '
                                  f'its own observation / channel / time)', y, exp or x)
                    if exp is None and not _close(x, y, 1e-6):
                        raise Bad(f'{name}: result {r} cell ({p},{q},{s_}) changed because another cell is '
                                  f'non-finite', y, x)
                    if got:
                        nf[(p, q, s_)] = got
        new_nfs.append(nf)
    return new_nfs


def check_step(ws, op, nfs=None):
    """ws: real datasets (freshly tagged here); nfs: per dataset the cells {(i, j, t): kind} that hold
    a non-finite value in the session (round 7).  Returns (new_ws, problem or None, new_nfs)."""
    new_ws, problem, box = _check_step(ws, op, nfs if nfs is not None else [{} for _ in ws])
    return new_ws, problem, box


def _check_step(ws, op, nfs):
    name = op['name']
    # datasets built from one measurement array keep sharing it (merge consumes them all: separate)
    where0, group = retag(ws, share=(name != 'merge'))
    ws_v = [view(d) for d in ws]
    args, adm, call = R.resolve(ws, op)
    if not adm:
        return ws, None, nfs
    i0 = args['at'] if args else 0
    # the addressed object's measurements are traced under its own index
    where = where0 if group[i0] == i0 else \
        {tag: ((i0,) + pos[1:] if pos[0] == group[i0] else pos) for tag, pos in where0.items()}
    # round 7: twin workspace holding the session's non-finite cells (built BEFORE the call:
    # sort_by works in place)
    twin = make_twin(ws, group, nfs) if any(nfs) else None
    import warnings
    with warnings.catch_warnings():
        warnings.simplefilter('ignore')
        try:
            kind, val = call()
        except Exception as exc:  # noqa: BLE001
            return ws, {'what': f'{name} raised {type(exc).__name__} on an admissible input',
                        'observed': str(exc)[:160], 'expected': 'a result', 'exception': R.exc_name(exc)}, nfs
    keep = bool(op.get('keep')) and name in R.KEEPABLE

    def nf(new):
        if twin is None:
            return [{} for _ in new]
        return nf_pass(name, op, args, ws_v, nfs, where, twin, kind, val, keep)
    if kind == 'rejected':
        try:
            check_frame(name, ws, ws_v, None, i0, keep, kind, where0, group)
            return ws, None, nf(ws)
        except Bad as b:
            return ws, {'what': b.what, 'observed': b.observed, 'expected': b.expected}, nfs
    try:
        if kind == 'query':
            _check_query(name, args, ws_v[args['at']], val)
            check_frame(name, ws, ws_v, None, i0, keep, kind, where0, group)
            return ws, None, nf(ws)
        out_v = [view(d) for d in val]
        i = args['at'] if args else 0
        off = 1 if keep else 0          # the results follow the kept source
        if name == 'merge':
            _check_merge(out_v, ws_v, where)
        elif name == 'bin_time':
            _check_bin(out_v[i + off], ws_v[i], args)
        elif name == 'time_as_observations':
            _check_tao(out_v[i + off], ws_v[i], where, args)
        elif name == 'time_as_channels':
            _check_tac(out_v[i + off], ws_v[i], where)
        elif name in ('df', 'df_default'):
            _check_df(out_v[i + off], ws_v[i], where, args, i)
        else:
            wants = expected_after(op, args, ws_v, i)
            new = out_v if name == 'pick' else out_v[i + off:i + len(out_v) - len(ws_v) + 1]
            if len(new) != len(wants):
                raise Bad(f'{name}: number of result datasets', len(new), len(wants))
            for v, w in zip(new, wants):
                if v['temporal'] != ws_v[i]['temporal']:
                    raise Bad(f'{name}: dataset class changed')
                check_gather(v, ws_v, where, w, name)
        # all the other datasets of the workspace (and a kept source) are untouched: re-read each
        check_frame(name, ws, ws_v, list(val), i, keep, kind, where0, group)
        new_nfs = nf(list(val))
    except Bad as b:
        return (list(val) if not isinstance(val, dict) else ws), \
            {'what': b.what, 'observed': b.observed, 'expected': b.expected}, nfs
    return list(val), None, new_nfs


def _check_merge(out_v, ws_v, where):
    if len(out_v) != 1:
        raise Bad('merge: one dataset expected', len(out_v), 1)
    v = out_v[0]
    want_obs = [(di, p) for di, s in enumerate(ws_v) for p in range(s['no'])]
    lengths_ok(v)
    tr = trace(v, where)
    got = axis_sources(tr, 0)
    if got != want_obs:
        raise Bad('merge: rows are not the concatenation of the parts rows', got, want_obs)
    for p, (di, s) in enumerate(want_obs):
        src = ws_v[di]
        # every label attached to the merged row was carried by that row before
        check_labels(v['obs'][p], eff(src, i=s), f'merge: row {p}')
        # descriptors all parts share are retained
        shared = set.intersection(*[set(x['obs'][0]) if x['no'] else set() for x in ws_v])
        check_labels(v['obs'][p], {}, f'merge: row {p}', must=shared)
        for k, x in v['desc'].items():
            if k in eff(src, i=s) and not _close(eff(src, i=s)[k], x):
                raise Bad(f'merge: dataset descriptor {k!r} contradicts a row label', x, eff(src, i=s)[k])
        # a dataset label of a part stays attached to its rows (as dataset or observation label)
        for k, x in src['desc'].items():
            if all(k in y['desc'] for y in ws_v):
                now = v['obs'][p].get(k, v['desc'].get(k))
                if now is None or not _close(now, src['obs'][s].get(k, x)):
                    raise Bad(f'merge: row {p} lost its dataset label {k!r}', now, x)
    for ax, n, key in (('chan', v['nc'], 1), ('time', v['nt'], 2)):
        for p in range(n if tr.size else 0):
            srcs = {x[1 + key] for x in np.take(tr, p, axis=key).ravel()}
            if srcs != {p}:
                raise Bad(f'merge: {ax} position {p} holds measurements of {ax} positions {sorted(srcs)}')
        for p in range(n):
            check_labels(v[ax][p], ws_v[0][ax][p], f'merge: {ax} {p}', must=ws_v[0][ax][p].keys())


def _check_bin(v, src, args):
    lengths_ok(v)
    tcol = [r[args['by']] for r in src['time']]
    bins = args['bins']
    if v['nt'] != len(bins) or v['no'] != src['no'] or v['nc'] != src['nc']:
        raise Bad('bin_time: result shape', (v['no'], v['nc'], v['nt']), (src['no'], src['nc'], len(bins)))
    for b, bn in enumerate(bins):
        idx = [t for t, x in enumerate(tcol) if x in bn]
        for i in range(src['no']):
            for j in range(src['nc']):
                want = sum(Fraction(int(src['m'][i, j, t])) for t in idx) / len(idx)
                if not _close(v['m'][i, j, b], want, mean_rtol(src)):
                    raise Bad(f'bin_time: value of bin {b} at ({i},{j}) is not the mean of its time points',
                              float(v['m'][i, j, b]), float(want))
        wt = sum(Fraction(x) for x in (tcol[t] for t in idx)) / len(idx)
        if not _close(v['time'][b][args['by']], wt):
            raise Bad(f'bin_time: time coordinate of bin {b}', v['time'][b][args['by']], float(wt))
    for ax, n in (('obs', src['no']), ('chan', src['nc'])):
        for p in range(n):
            check_labels(v[ax][p], src[ax][p], f'bin_time: {ax} {p}', must=src[ax][p].keys())


def _check_tao(v, src, where, args):
    lengths_ok(v)
    if v['temporal']:
        raise Bad('time_as_observations: result is still temporal')
    tr = trace(v, where)
    if v['no'] != src['no'] * src['nt'] or v['nc'] != src['nc']:
        raise Bad('time_as_observations: shape', (v['no'], v['nc']), (src['no'] * src['nt'], src['nc']))
    seen = set()
    for p in range(v['no']):
        it = {(x[1], x[3]) for x in tr[p, :, 0]}
        if len(it) != 1:
            raise Bad(f'time_as_observations: row {p} mixes observations / time points', sorted(it))
        (i, t) = it.pop()
        seen.add((i, t))
        if [x[2] for x in tr[p, :, 0]] != list(range(src['nc'])):
            raise Bad(f'time_as_observations: channel order in row {p}')
        want = dict(src['obs'][i], **src['time'][t])
        check_labels(v['obs'][p], want, f'time_as_observations: row {p} (obs {i}, time {t})', must=want.keys())
    if len(seen) != src['no'] * src['nt']:
        raise Bad('time_as_observations: some measurement is missing or duplicated', len(seen))
    for j in range(src['nc']):
        check_labels(v['chan'][j], src['chan'][j], f'time_as_observations: channel {j}', must=src['chan'][j].keys())


def _check_tac(v, src, where):
    lengths_ok(v)
    if v['temporal']:
        raise Bad('time_as_channels: result is still temporal')
    tr = trace(v, where)
    if v['no'] != src['no'] or v['nc'] != src['nc'] * src['nt']:
        raise Bad('time_as_channels: shape', (v['no'], v['nc']), (src['no'], src['nc'] * src['nt']))
    seen = set()
    for q in range(v['nc']):
        jt = {(x[2], x[3]) for x in tr[:, q, 0]}
        if len(jt) != 1:
            raise Bad(f'time_as_channels: column {q} mixes channels / time points', sorted(jt))
        (j, t) = jt.pop()
        seen.add((j, t))
        if [x[1] for x in tr[:, q, 0]] != list(range(src['no'])):
            raise Bad(f'time_as_channels: observation order in column {q}')
        want = dict(src['chan'][j], **src['time'][t])
        check_labels(v['chan'][q], want, f'time_as_channels: column {q} (channel {j}, time {t})', must=want.keys())
    if len(seen) != src['nc'] * src['nt']:
        raise Bad('time_as_channels: some measurement is missing or duplicated', len(seen))
    for i in range(src['no']):
        check_labels(v['obs'][i], src['obs'][i], f'time_as_channels: row {i}', must=src['obs'][i].keys())


def _check_df(v, src, where, args, di):
    lengths_ok(v)
    tr = trace(v, where)
    if (v['no'], v['nc']) != (src['no'], src['nc']):
        raise Bad('DataFrame round trip: shape', (v['no'], v['nc']), (src['no'], src['nc']))
    for i in range(src['no']):
        for j in range(src['nc']):
            if tr[i, j, 0][1:] != (i, j, 0):
                raise Bad(f'DataFrame round trip: measurement ({i},{j}) moved', tr[i, j, 0][1:])
    for i in range(src['no']):
        want = dict(src['obs'][i], **src['desc'])       # to_df lets dataset labels win
        got = dict(v['desc'], **v['obs'][i])
        check_labels(got, want, f'DataFrame round trip: row {i}', must=want.keys())
    for j in range(src['nc']):
        key = args['key']
        if not _close(v['chan'][j].get(key), src['chan'][j][key]):
            raise Bad(f'DataFrame round trip: channel {j} name', v['chan'][j].get(key), src['chan'][j][key])


def _check_query(name, args, src, val):
    col = [r[args['by']] for r in src['obs']]
    g = groups_first(col)
    if [x for x in val['uniq']] != g:
        raise Bad(f'{name}: group labels / order', val['uniq'], g)
    if name == 'average_by':
        for a, u in enumerate(g):
            rows = [i for i, x in enumerate(col) if x == u]
            if val['n'][a] != len(rows):
                raise Bad(f'average_by: size of group {u!r}', val['n'][a], len(rows))
            for j in range(src['nc']):
                want = sum(Fraction(int(src['m'][i, j, 0])) for i in rows) / len(rows)
                if not _close(val['avg'][a][j], want, mean_rtol(src)):
                    raise Bad(f'average_by: mean of group {u!r}, channel {j} is not the mean of exactly '
                              f'the rows carrying that label', val['avg'][a][j], float(want))
    else:
        for a, u in enumerate(g):
            rows = [i for i, x in enumerate(col) if x == u]
            for j in range(src['nc']):
                want = [float(src['m'][i, j, 0]) for i in rows]
                if list(val['tensor'][a][j]) != want:
                    raise Bad(f'tensor: slice of group {u!r}, channel {j}', val['tensor'][a][j], want)


def init_must_be_rejected(init):
    """the constructor has to refuse descriptor columns that are not as long as their axis
    (and a TemporalDataset whose time descriptors lack 'time'): plain reading of the case"""
    m = init['meas']
    size = {'obs': len(m), 'chan': len(m[0]) if m else 0, 'time': len(m[0][0]) if m and m[0] else 0}
    for ax in ('obs', 'chan', 'time'):
        if init[ax] is None or (ax == 'time' and not init['temporal']):
            continue
        for k, vals in init[ax]:
            n = 1 if isinstance(vals, str) else len(vals)
            if n != size[ax]:
                return f'{ax} descriptor {k!r} has {n} entries for {size[ax]} positions'
    if init['temporal'] and init['time'] is not None and 'time' not in [k for k, _ in init['time']]:
        return "time descriptors without 'time'"
    return None


def run(case):
    """None if the property holds along the whole session on the real code, else a finding"""
    d0, exc = R.try_build(case['init'])
    why = init_must_be_rejected(case['init'])
    if why and d0 is not None:
        return {'what': 'constructor accepted a misaligned dataset: ' + why, 'step': -1, 'op': 'init'}
    if not why and d0 is None:
        return {'what': f'constructor rejected a well-formed dataset ({exc})', 'step': -1, 'op': 'init',
                'exception': exc}
    if d0 is None:
        return None
    if case['init']['temporal'] and case['init']['time'] is None:
        nt = len(case['init']['meas'][0][0])
        got = R.canon(d0)['time']
        if got != {'time': list(range(nt))}:
            return {'what': "time_descriptors=None must give 'time' = (0, 1, ..., n_time-1)", 'observed': got,
                    'expected': {'time': list(range(nt))}, 'step': -1, 'op': 'init'}
    ws = [d0]
    # round 7: the non-finite cells of the session (kept beside the tags, see nf_pass)
    nfs = [{(i, j, t): kind for (i, j, t, kind) in case['init'].get('nonfinite') or []}]
    if nfs[0] and nf_cells(d0) != nfs[0]:
        return {'what': 'constructor moved / lost a non-finite measurement', 'observed': str(nf_cells(d0)),
                'expected': str(nfs[0]), 'step': -1, 'op': 'init'}
    for n, op in enumerate(case['ops']):
        ws, problem, nfs = check_step(ws, op, nfs)
        if problem:
            problem['step'] = n
            problem['op'] = op['name']
            return problem
    return None
