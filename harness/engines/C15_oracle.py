"""C15 helpers: adaptor to the real code and the independent oracle.

The oracle is a direct transcription of the property statement with plain loops
(`fractions.Fraction` for the sqrt/log-free methods): for every pair of conditions the
average over admissible observation pairs, the balanced estimators where theory demands
equality, the behaviour of missing channels, dtype / memory-layout invariance, the
single-pair helper.  It shares no code with the Lean model.
"""
import copy
import itertools
import math
import warnings
from fractions import Fraction as F

import numpy as np

EXACT = {'euclidean', 'mahalanobis', 'crossnobis'}
KERNEL = {'euclidean': 'euclidean', 'correlation': 'correlation', 'mahalanobis': 'mahalanobis',
          'crossnobis': 'mahalanobis', 'poisson': 'poisson', 'poisson_cv': 'poisson'}


# ------------------------------------------------------------------ rebuilt kernel (thorough tier)

REBUILT = None          # extension module built from the tree's cengine/similarity.c, or None
REBUILD_NOTE = None     # why it is not available


def rebuild_kernel():
    """compile the tree's `similarity.c` (the C text Cython generated from `similarity.pyx`, shipped
    next to the binary) with gcc into a scratch directory outside the tree and load it beside the
    shipped extension.  Ties the shipped `.so` to the shipped C text; `.pyx` -> `.c` cannot be
    regenerated here (no Cython)."""
    global REBUILT, REBUILD_NOTE
    import atexit
    import importlib.machinery
    import importlib.util
    import os
    import shutil
    import subprocess
    import sysconfig
    import tempfile
    if REBUILT is not None:
        return REBUILT
    src = os.path.join(os.environ.get('RSA_REPO_SRC', '/repo/src/rsatoolbox'), 'cengine', 'similarity.c')
    if not os.path.exists(src):
        REBUILD_NOTE = f'{src} does not exist'
        return None
    out = tempfile.mkdtemp(prefix='c15-rebuild-')
    atexit.register(shutil.rmtree, out, True)
    so = os.path.join(out, 'similarity' + (sysconfig.get_config_var('EXT_SUFFIX') or '.so'))
    cmd = ['gcc', '-shared', '-fPIC', '-O2', '-fno-strict-aliasing',
           '-I', sysconfig.get_paths()['include'], '-I', np.get_include(), src, '-o', so]
    try:
        p = subprocess.run(cmd, stdout=subprocess.PIPE, stderr=subprocess.STDOUT, timeout=600)
    except (OSError, subprocess.TimeoutExpired) as exc:
        REBUILD_NOTE = f'gcc not runnable: {exc}'
        return None
    if p.returncode != 0:
        REBUILD_NOTE = 'gcc failed: ' + p.stdout.decode(errors='replace')[-300:]
        return None
    try:
        import rsatoolbox.rdm.calc_unbalanced  # noqa: F401  (numpy / scipy C-API initialised as for the shipped one)
        loader = importlib.machinery.ExtensionFileLoader('c15_rebuilt.similarity', so)
        spec = importlib.util.spec_from_file_location('c15_rebuilt.similarity', so, loader=loader)
        mod = importlib.util.module_from_spec(spec)
        spec.loader.exec_module(mod)
    except Exception as exc:  # noqa: BLE001
        REBUILD_NOTE = f'rebuilt module does not load: {type(exc).__name__}: {exc}'
        return None
    REBUILT = mod
    return mod


class Degenerate(Exception):
    """input outside what the property speaks about (constant pattern for a correlation)"""


# ------------------------------------------------------------------ small helpers

def first_appearance(labels):
    out = []
    for l in labels:
        if l not in out:
            out.append(l)
    return out


def label_codes(labels):
    """injective label -> natural number, deliberately unrelated to the order of appearance"""
    ds = sorted(set(labels), key=lambda l: (str(type(l)), str(l)), reverse=True)
    return {l: 3 * k + 1 for k, l in enumerate(ds)}


def crossval_of(case):
    return case['folds'] is not None or case['method'] in ('crossnobis', 'poisson_cv')


def has_missing(case):
    return any(v is None for row in case['vals'] for v in row)


def counts(case):
    """{cond: {fold: n}} (folds None -> single pseudo fold)"""
    out = {}
    for i, l in enumerate(case['labels']):
        f = case['folds'][i] if case['folds'] is not None else 0
        out.setdefault(l, {}).setdefault(f, 0)
        out[l][f] += 1
    return out


def balanced_kind(case):
    """which balanced estimator must coincide, if any: ('mean'|'single'|'cv'|'none', n_folds)"""
    if has_missing(case):
        return 'none', 0
    m = case['method']
    cnt = counts(case)
    single = all(sum(d.values()) == 1 for d in cnt.values())
    if m in ('euclidean', 'mahalanobis'):
        return ('mean', 0) if case['folds'] is None else ('none', 0)
    if m in ('correlation', 'poisson'):
        return ('single', 0) if (single and case['folds'] is None) else ('none', 0)
    if case['folds'] is None or case.get('nodesc'):
        return 'none', 0
    folds = sorted(set(case['folds']), key=str)
    if len(folds) < 2:
        return 'none', 0
    for l, d in cnt.items():
        ns = [d.get(f, 0) for f in folds]
        if min(ns) < 1 or len(set(ns)) != 1:
            return 'none', 0
        if m == 'poisson_cv' and ns[0] != 1:
            return 'none', 0
    return 'cv', len(folds)


def coded_comparable(case):
    """can the model of the kernel *text* be compared with the compiled kernel?  Not where the
    text reads past its buffers (mahalanobis with a missing channel) and not for an
    all-missing observation (0/0 and un-guarded self terms, not modelled)."""
    miss = has_missing(case)
    if miss and KERNEL[case['method']] == 'mahalanobis' and case['noise'] is not None:
        return False
    if any(all(v is None for v in row) for row in case['vals']):
        return False
    return True


def as_map(labels, vec):
    out = {}
    for (a, b), v in zip(itertools.combinations(labels, 2), vec):
        out['|'.join(sorted([repr(a), repr(b)]))] = v
    return out


def _close(a, b, rtol, atol):
    a, b = float(a), float(b)
    if math.isnan(a) or math.isnan(b):
        return math.isnan(a) and math.isnan(b)
    if math.isinf(a) or math.isinf(b):
        return a == b
    return abs(a - b) <= atol + rtol * max(abs(a), abs(b))


def map_diff(m1, m2, rtol=1e-9, atol=1e-10):
    if sorted(m1) != sorted(m2):
        return f'pair keys {sorted(m1)} != {sorted(m2)}'
    for k in sorted(m1):
        if not _close(m1[k], m2[k], rtol, atol):
            return f'pair {k}: {m1[k]!r} != {m2[k]!r}'
    return None


def vec_diff(v1, v2, rtol=1e-9, atol=1e-10):
    if len(v1) != len(v2):
        return f'length {len(v1)} != {len(v2)}'
    for k, (a, b) in enumerate(zip(v1, v2)):
        if not _close(a, b, rtol, atol):
            return f'[{k}]: {a!r} != {b!r}'
    return None


# ------------------------------------------------------------------ the real code

NP_DTYPE = {'int': np.int64, 'int32': np.int32, 'int16': np.int16, 'uint8': np.uint8,
            'float': np.float64, 'float32': np.float32}
LAYOUTS = ('C', 'F', 'strided', 'reversed')


def dtype_ok(case, dt, vals=None):
    """can the values of the case be stored exactly in that dtype?  (small dyadic values:
    always in float32/float64; integer dtypes need integral values and no missing entry)"""
    vals = case['vals'] if vals is None else vals
    if dt == 'float':
        return True
    if dt == 'float32':
        sc = case['scale']
        return all(v is None or float(np.float32(v / sc)) == v / sc for row in vals for v in row)
    if case['scale'] != 1 or any(v is None for row in vals for v in row):
        return False
    if dt == 'uint8':
        return all(v >= 0 for row in vals for v in row)
    return True


def _matrix(case, dtype=None, order=None, vals=None):
    """the measurement array as the user holds it: values, dtype and memory layout
    (C / Fortran contiguous, a strided slice of a larger array, a view with negative strides)"""
    vals = case['vals'] if vals is None else vals
    X = np.array([[np.nan if v is None else v / case['scale'] for v in row] for row in vals],
                 dtype=np.float64)
    dt = dtype or case['dtype']
    if dt != 'float':
        X = X.astype(NP_DTYPE[dt])
    lay = order or case['order']
    if lay == 'F':
        X = np.asfortranarray(X)
    elif lay == 'strided':
        big = np.full((2 * X.shape[0] + 1, 3 * X.shape[1] + 2), 99, dtype=X.dtype)
        big[1::2, 2::3] = X
        X = big[1::2, 2::3]
    elif lay == 'reversed':
        X = np.ascontiguousarray(X[::-1, ::-1])[::-1, ::-1]
    else:
        X = np.ascontiguousarray(X)
    return X


def raw_view(X):
    """flat element buffer, offset and strides (in elements) of a 2-d array, read from memory"""
    import ctypes
    from numpy.lib.array_utils import byte_bounds
    lo, hi = byte_bounds(X)
    it = X.itemsize
    flat = np.frombuffer(ctypes.string_at(lo, hi - lo), dtype=X.dtype)
    return flat, (X.ctypes.data - lo) // it, X.strides[0] // it, X.strides[1] // it


def observe_layout(case):
    """what `ensure_double` of the tree makes of the array: strides (elements) and content"""
    from rsatoolbox.rdm.calc_unbalanced import ensure_double
    E = ensure_double(_matrix(case))
    if E.dtype != np.float64 or E.ndim != 2:
        return {'exc': f'ensure_double returned {E.dtype} ndim {E.ndim}'}
    return {'s0': E.strides[0] // 8, 's1': E.strides[1] // 8,
            'read': [[float(v) for v in row] for row in E]}


def _noise(case, noise=None):
    noise = case['noise'] if noise is None else noise
    if noise is None:
        return None
    N = np.array(noise, dtype=np.float64) / case['noise_scale']
    return np.asfortranarray(N) if case.get('noise_order') == 'F' else N


def kind_of(case, which):
    """label kind of the condition ('cond') or fold ('fold') descriptor; cases written before
    the kinds existed carry none and are classified by their python values"""
    k = case.get(which + '_kind')
    if k:
        return k
    vals = case['labels'] if which == 'cond' else (case['folds'] or [])
    if any(isinstance(v, bool) for v in vals):
        return 'bool'
    if any(isinstance(v, str) for v in vals):
        return 'str'
    if any(isinstance(v, float) for v in vals):
        return 'float'
    return 'int'


def _descriptor(values, kind):
    """the descriptor as a user would pass it for that kind of label"""
    if kind == 'float':
        return np.array(values, dtype=np.float64)
    if kind == 'float32':
        return np.array(values, dtype=np.float32)
    if kind == 'bool':
        return np.array(values, dtype=bool)
    if kind == 'float16':
        return np.array(values, dtype=np.float16)
    if kind == 'uint8':
        return np.array(values, dtype=np.uint8)
    if kind == 'int32':
        return np.array(values, dtype=np.int32)
    if kind == 'bytes':
        return np.array([v.encode() for v in values])
    if kind == 'pylist':
        return [int(v) for v in values]              # a plain python list of ints
    if kind == 'npstr':
        return [np.str_(v) for v in values]          # a plain list of numpy strings
    if kind in ('int', 'negint', 'bigint'):
        return np.array(values, dtype=np.int64)
    return np.array(values)


def _dataset(case, X):
    from rsatoolbox.data import Dataset
    obs = {}
    if not case.get('nodesc'):
        obs['cond'] = _descriptor(case['labels'], kind_of(case, 'cond'))
    if case['folds'] is not None:
        obs['fold'] = _descriptor(case['folds'], kind_of(case, 'fold'))
    return Dataset(X, obs_descriptors=obs)


def _py(x):
    x = x.item() if hasattr(x, 'item') else x
    return x.decode() if isinstance(x, bytes) else x


def opt_kwargs(case, weighting=True):
    """prior_lambda / prior_weight / weighting; a case flagged `defaults` (lam = 1, pw = 0.1,
    weighting 'number') leaves them to the defaults of the signature"""
    if case.get('defaults'):
        return {}
    kw = {'prior_lambda': case['lam'], 'prior_weight': case['pw']}
    if weighting:
        kw['weighting'] = case['weighting']
    return kw


def call_unbalanced(case, X, noise='case', kernel=None):
    """real calc_rdm_unbalanced; returns labels, rdm and the raw buffer of `calc`
    (`kernel`: run the Python layer on the `calc` of another build of the extension)"""
    from rsatoolbox.rdm import calc_unbalanced as cu
    rec = {}
    orig = cu.calc if kernel is None else kernel.calc
    shipped = cu.calc

    def tap(*a, **k):
        out = orig(*a, **k)
        rec['buf'] = [float(v) for v in np.asarray(out)]
        return out

    N = _noise(case) if isinstance(noise, str) else noise
    cu.calc = tap
    try:
        with warnings.catch_warnings():
            warnings.simplefilter('ignore')
            r = cu.calc_rdm_unbalanced(
                _dataset(case, X), method=case['method'],
                descriptor=None if case.get('nodesc') else 'cond', noise=N,
                cv_descriptor='fold' if case['folds'] is not None else None, **opt_kwargs(case))
    except (ValueError, TypeError, AssertionError, IndexError, KeyError, AttributeError,
            ZeroDivisionError, NotImplementedError) as exc:
        return {'exc': type(exc).__name__}
    finally:
        cu.calc = shipped
    return {'labels': [_py(v) for v in r.pattern_descriptors['index' if case.get('nodesc') else 'cond']],
            'rdm': [float(v) for v in r.dissimilarities[0]], 'buf': rec.get('buf')}


def sub_cases(case):
    """the datasets of a list input as single-dataset cases (first = the case itself).  A member
    overrides any of: vals, noise, labels, folds, cond_kind, fold_kind, dtype, order, scale, mask
    (round 4: members with their own design); method, weighting, priors, descriptor names, noise
    mode are arguments of the one call and therefore shared."""
    out = [dict(case, extra=None)]
    for e in case.get('extra') or []:
        out.append(dict(case, **dict(e, extra=None, one=None)))
    return out


def to_first(labels0, labels):
    """labels of a member expressed by the equal labels of the first dataset (3.0 -> 3 ...)"""
    out = []
    for l in labels:
        hit = [l0 for l0 in labels0 if l0 == l and isinstance(l0, bool) == isinstance(l, bool)]
        out.append(hit[0] if hit else l)
    return out


def member_map(case, sub, labels, rdm):
    """pair map of a member's own result, keyed like the rows of the list result (which carry the
    labels of the first dataset; `concat` reorders the later ones to that order)"""
    return as_map(to_first(first_appearance(case['labels']), labels), rdm)


def reads_past_buffer(case):
    """region of the known mahalanobis finding: values are not reproducible between two calls"""
    return KERNEL[case['method']] == 'mahalanobis' and any(
        c['noise'] is not None and has_missing(c) for c in sub_cases(case))


def call_list(case):
    """real calc_rdm_unbalanced on a *list* of datasets (noise: none / one matrix / a list)"""
    from rsatoolbox.rdm import calc_unbalanced as cu
    subs = sub_cases(case)
    dss = [_dataset(c, _matrix(c)) for c in subs]
    if case['noise'] is None:
        N = None
    elif case.get('noise_mode') == 'list':
        N = [_noise(c) for c in subs]
    else:
        N = _noise(case)
    cont = case.get('container', 'list')
    if cont == 'tuple':
        dss = tuple(dss)
        N = tuple(N) if isinstance(N, list) else N
    elif cont == 'iter':
        dss = iter(dss)
    try:
        with warnings.catch_warnings():
            warnings.simplefilter('ignore')
            r = cu.calc_rdm_unbalanced(
                dss, method=case['method'], descriptor=None if case.get('nodesc') else 'cond',
                noise=N, cv_descriptor='fold' if case['folds'] is not None else None,
                **opt_kwargs(case))
    except (ValueError, TypeError, AssertionError, IndexError, KeyError, AttributeError,
            ZeroDivisionError, NotImplementedError) as exc:
        return {'exc': type(exc).__name__}
    return {'labels': [_py(v) for v in r.pattern_descriptors['index' if case.get('nodesc') else 'cond']],
            'rows': [[float(v) for v in row] for row in r.dissimilarities]}


def call_balanced(case):
    from rsatoolbox.rdm import calc_rdm
    try:
        with warnings.catch_warnings():
            warnings.simplefilter('ignore')
            r = calc_rdm(_dataset(case, _matrix(case, 'float', 'C')), method=case['method'],
                         descriptor=None if case.get('nodesc') else 'cond', noise=_noise(case),
                         cv_descriptor='fold' if case['folds'] is not None else None,
                         **opt_kwargs(case, weighting=False))
    except (ValueError, TypeError, AssertionError, IndexError, KeyError, AttributeError,
            ZeroDivisionError, NotImplementedError) as exc:
        return {'exc': type(exc).__name__}
    if case.get('nodesc'):         # rows/columns are the observations in dataset order
        labs = list(range(len(case['labels'])))
    else:
        labs = [_py(v) for v in r.pattern_descriptors['cond']]
    return as_map(labs, [float(v) for v in r.dissimilarities[0]])


def one_cv_codes(case, ia, ib):
    """fold codes handed to the single-pair helper: the integer coding of the fold
    descriptor, or (no folds) the observation index"""
    if case['folds'] is not None:
        fs = sorted(set(case['folds']), key=lambda l: (str(type(l)), str(l)))
        code = {f: k for k, f in enumerate(fs)}
        return [code[case['folds'][i]] for i in ia], [code[case['folds'][i]] for i in ib]
    return list(ia), list(ib)


def call_one(case, kernel=None):
    from rsatoolbox.data import Dataset
    from rsatoolbox.rdm import calc_unbalanced as cu
    from rsatoolbox.rdm.calc_unbalanced import calc_one_similarity
    shipped_one = cu.calc_one
    if kernel is not None:
        cu.calc_one = kernel.calc_one
    a, b = case['one']
    ia = [i for i, l in enumerate(case['labels']) if l == a]
    ib = [i for i, l in enumerate(case['labels']) if l == b]
    X = _matrix(case)
    cva, cvb = one_cv_codes(case, ia, ib)
    try:
        with warnings.catch_warnings():
            warnings.simplefilter('ignore')
            v, w = calc_one_similarity(
                Dataset(X[ia]), Dataset(X[ib]), np.array(cva, dtype=np.int64),
                np.array(cvb, dtype=np.int64), method=case['method'], noise=_noise(case),
                **opt_kwargs(case))
    except (ValueError, TypeError, AssertionError, IndexError, KeyError, AttributeError) as exc:
        return {'exc': type(exc).__name__}
    finally:
        cu.calc_one = shipped_one
    return [float(v), float(w)]


def observe(case, full=False):
    r = call_unbalanced(case, _matrix(case))
    if 'exc' in r:
        return r
    alt = call_unbalanced(case, _matrix(case, 'float', 'C'))
    if 'exc' in alt:
        return {'exc': 'alt:' + alt['exc']}
    r['rdm_alt'] = alt['rdm']
    r['balanced'] = None
    if balanced_kind(case)[0] != 'none':
        b = call_balanced(case)
        if isinstance(b, dict) and 'exc' in b:
            return {'exc': 'calc_rdm:' + b['exc']}
        r['balanced'] = b
    r['one'] = None
    if case.get('one'):
        o = call_one(case)
        if isinstance(o, dict):
            return {'exc': 'calc_one:' + o['exc']}
        r['one'] = o
    r['layout'] = observe_layout(case)
    r['rebuilt'] = None
    if REBUILT is not None:
        rb = call_unbalanced(case, _matrix(case), kernel=REBUILT)
        if 'exc' in rb:
            r['rebuilt'] = {'exc': rb['exc']}
        else:
            r['rebuilt'] = {'buf': rb['buf'], 'rdm': rb['rdm'], 'one': None}
            if case.get('one'):
                o = call_one(case, kernel=REBUILT)
                r['rebuilt']['one'] = o if isinstance(o, list) else ['exc', o['exc']]
    r['multi'] = None
    if case.get('extra'):
        m = call_list(case)
        if 'exc' in m:
            return {'exc': 'list:' + m['exc']}
        if m['labels'] != r['labels']:
            return {'exc': 'list:labels'}
        r['multi'] = [as_map(m['labels'], row) for row in m['rows']]
    return r


# ------------------------------------------------------------------ transcription of the property

def _values(case, vals=None):
    vals = case['vals'] if vals is None else vals
    ex = case['method'] in EXACT
    sc = case['scale']
    return [[None if v is None else (F(v, sc) if ex else v / sc) for v in row] for row in vals]


def _pair_sim(case, x, y, N, flags):
    """(similarity, weight) of two observations as the property defines them for the method;
    weight 0 = no channel measured in both"""
    P = len(x)
    valid = [c for c in range(P) if x[c] is not None and y[c] is not None]
    kern = KERNEL[case['method']]
    if kern == 'euclidean' or (kern == 'mahalanobis' and N is None):
        return sum(x[c] * y[c] for c in valid), len(valid)
    if kern == 'mahalanobis':
        return sum(x[k] * N[k][l] * y[l] for k in valid for l in valid), len(valid)
    if kern == 'poisson':
        lam, pw = case['lam'], case['pw']
        s = 0.0
        for c in valid:
            di = (x[c] + lam * pw) / (1 + pw)
            dj = (y[c] + lam * pw) / (1 + pw)
            s += (dj - di) * (math.log(di) - math.log(dj))
        return s / 2, len(valid)
    # correlation: Pearson coefficient over the shared channels, times n/2, weight n
    n = len(valid)
    if 'ndim' in flags:
        si = sum(x[c] for c in valid)
        sj = sum(y[c] for c in valid)
        si2 = sum(x[c] * x[c] for c in valid)
        sj2 = sum(y[c] * y[c] for c in valid)
        sij = sum(x[c] * y[c] for c in valid)
        if si2 > 0 and sj2 > 0:
            vi = si2 - si * si / P
            vj = sj2 - sj * sj / P
            if vi <= 0 or vj <= 0:
                raise Degenerate()
            r = (sij - si * sj / P) / math.sqrt(vi) / math.sqrt(vj)
        else:
            r = 1
        return r * P / 2, n
    if n == 0:
        return 0.0, 0
    mx = sum(x[c] for c in valid) / n
    my = sum(y[c] for c in valid) / n
    vx = sum((x[c] - mx) ** 2 for c in valid)
    vy = sum((y[c] - my) ** 2 for c in valid)
    if vx <= 1e-12 or vy <= 1e-12:
        raise Degenerate()
    r = sum((x[c] - mx) * (y[c] - my) for c in valid) / math.sqrt(vx * vy)
    return r * n / 2, n


def spec(case, flags=frozenset(), vals=None, noise=None):
    """labels in order of first appearance, pair averages S[(a, b)] (None = NaN) and the
    dissimilarity vector in `triu` order, computed from the statement of the property"""
    X = _values(case, vals)
    noise = case['noise'] if noise is None else noise
    N = None
    if noise is not None and KERNEL[case['method']] == 'mahalanobis':
        ex = case['method'] in EXACT
        N = [[F(v, case['noise_scale']) if ex else v / case['noise_scale'] for v in row] for row in noise]
    labels = case['labels']
    uniq = first_appearance(labels)
    crossval = crossval_of(case)
    if case['folds'] is not None:
        fold = list(case['folds'])
    else:
        fold = list(range(len(labels)))      # every observation its own fold
    number = case['weighting'] == 'number'
    nan = float('nan')
    coded_self = ('ndim' in flags and case['method'] == 'correlation') or \
                 ('half0' in flags and not number)
    S = {}
    for ia, a in enumerate(uniq):
        for b in uniq[ia:]:
            num, den = 0, 0
            for i in range(len(labels)):
                for j in range(i + 1, len(labels)):
                    if {labels[i], labels[j]} != {a, b}:
                        continue
                    if crossval and fold[i] == fold[j]:
                        continue
                    s, w = _pair_sim(case, X[i], X[j], N, flags)
                    if w > 0:
                        if number:
                            num, den = num + s, den + w
                        else:
                            num, den = num + s / w, den + 1
            if a == b and not crossval:
                # an observation with itself counts half
                for i in range(len(labels)):
                    if labels[i] != a:
                        continue
                    s, w = _pair_sim(case, X[i], X[i], N, flags)
                    if w > 0 or coded_self:
                        if number:
                            num, den = num + s / 2, den + F(w, 2)
                        else:
                            # (as coded, emulated only for the defect signatures: x / 0.0 in C)
                            num = num + (s / w / 2 if w > 0 else
                                         (nan if s == 0 else math.copysign(math.inf, s)))
                            den = den + (0 if 'half0' in flags else F(1, 2))
            S[(a, b)] = (num / den) if den > 0 else None
            if S[(a, b)] is not None and isinstance(S[(a, b)], float) and math.isnan(S[(a, b)]):
                S[(a, b)] = None
    D = []
    # (defect signature only) indicator-matrix product: 0 * NaN and 0 * inf are NaN
    poisoned = 'poison' in flags and any(
        S[(a, a)] is None or not math.isfinite(float(S[(a, a)])) for a in uniq)
    for ia, a in enumerate(uniq):
        for b in uniq[ia + 1:]:
            if poisoned or S[(a, a)] is None or S[(b, b)] is None or S[(a, b)] is None:
                D.append(nan)
            else:
                D.append(float(S[(a, a)] + S[(b, b)] - 2 * S[(a, b)]))
    return uniq, S, D


def _one_weight(case, a, b):
    X = _values(case)
    labels = case['labels']
    fold = list(case['folds']) if case['folds'] is not None else list(range(len(labels)))
    N = None
    if case['noise'] is not None and KERNEL[case['method']] == 'mahalanobis':
        N = [[F(v, case['noise_scale']) if case['method'] in EXACT else v / case['noise_scale']
              for v in row] for row in case['noise']]
    tot = 0
    for i in range(len(labels)):
        for j in range(len(labels)):
            if labels[i] == a and labels[j] == b and fold[i] != fold[j]:
                _, w = _pair_sim(case, X[i], X[j], N, frozenset())
                if w > 0:
                    tot += w if case['weighting'] == 'number' else 1
    return float(tot)


def _scale(*vecs):
    vals = [abs(v) for vec in vecs for v in (vec or []) if v is not None and math.isfinite(v)]
    return 1e-10 * max([1.0] + vals)


def _buffer(uniq, S):
    want = [S[(a, a)] for a in uniq] + [S[(a, b)] for ia, a in enumerate(uniq) for b in uniq[ia + 1:]]
    return [float('nan') if v is None else float(v) for v in want]


def _signature(case, observed, with_buf, atol):
    cand = []
    if case['method'] == 'correlation':
        cand.append('ndim')
    if case['weighting'] == 'equal' and not crossval_of(case):
        cand.append('half0')
    cand.append('poison')
    names = {'ndim': 'corr-ndim', 'half0': 'half0', 'poison': 'poison'}
    for r in range(1, len(cand) + 1):
        for combo in itertools.combinations(cand, r):
            try:
                uq, S, D = spec(case, frozenset(combo))
            except (Degenerate, ValueError, ZeroDivisionError):
                continue
            if vec_diff(observed, D + (_buffer(uq, S) if with_buf else []), 1e-9, atol) is None:
                return '+'.join(names[c] for c in combo)
    return 'none'


def _fail(what, observed, expected, **feat):
    return {'what': what, 'observed': observed, 'expected': expected, 'features': feat}


def _list_vs_alone(case, base, atol):
    """every row of the result for a list (tuple, iterator) of datasets against the same dataset
    computed alone, as pair maps keyed by the labels of the first dataset"""
    subs = sub_cases(case)
    m = call_list(case)
    if 'exc' in m:
        return _fail('calc_rdm_unbalanced raised on a list of datasets each of which it handles alone',
                     m['exc'], 'one row per dataset', violation='list-input', signature='none')
    if m['labels'] != base['labels'] or len(m['rows']) != len(subs):
        return _fail('a list of datasets: rows / labels are not those of the datasets',
                     [m['labels'], len(m['rows'])], [base['labels'], len(subs)],
                     violation='list-input', signature='none')
    for k, sc in enumerate(subs):
        alone = base if k == 0 else call_unbalanced(sc, _matrix(sc))
        if 'exc' in alone:
            if k == 0:
                continue
            return None            # judged by the per-dataset statements below
        want = member_map(case, sc, alone['labels'], alone['rdm'])
        got = as_map(m['labels'], m['rows'][k])
        d = map_diff(got, want, 1e-12, 1e-12 + atol * 1e-3)
        if d:
            rel = sc.get('rel')
            return _fail(f'dataset {k} of a list input differs from the same dataset computed alone'
                         + (f' (related to its predecessor by: {rel})' if rel else '') + ': ' + d,
                         got, want, violation='list-input', signature='none', member=k)
    return None


def oracle(case, light=False):
    """None if the property holds for this case on the real code, else a finding"""
    base = call_unbalanced(case, _matrix(case))
    if 'exc' in base:
        return _fail('calc_rdm_unbalanced raised on valid input', base['exc'], 'an RDM',
                     violation='exception', signature='none')
    try:
        uniq, S, D = spec(case)
    except Degenerate:
        return None
    self_scale = [float(v) for v in S.values() if v is not None]
    atol = _scale(base['rdm'], D, self_scale)
    # 1. labelled by condition in order of first appearance
    if base['labels'] != uniq:
        return _fail('conditions are not labelled in order of first appearance',
                     base['labels'], uniq, violation='labels', signature='none')
    # 1b. a list of datasets gives, row by row (pairs named by the labels of the first dataset),
    #     what each dataset gives alone.  Before the per-dataset statements, so that a known
    #     finding of one member does not hide a defect of the list handling; not where the kernel
    #     reads past its buffers (values differ from call to call).
    list_done = False
    if case.get('extra') and not light and not reads_past_buffer(case):
        f = _list_vs_alone(case, base, atol)
        if f:
            return f
        list_done = True
    # 2. every pair = the average over admissible observation pairs (NaN iff none is valid):
    #    the dissimilarities and the raw buffer of the kernel (self and cross averages)
    observed = base['rdm'] + (base['buf'] or [])
    expected = D + (_buffer(uniq, S) if base['buf'] is not None else [])
    d = vec_diff(observed, expected, 1e-9, atol)
    if d:
        sig = _signature(case, observed, base['buf'] is not None, atol)
        what = 'dissimilarity / kernel average is not the average over admissible observation pairs'
        if 'poison' in sig:
            what = ('a condition without valid self-similarity turns dissimilarities of other '
                    'condition pairs into NaN;')
        return _fail(what + ' (rdm ++ buffer)' + d, observed, expected, violation='pair-average',
                     signature=sig)
    # 3. coincides with calc_rdm wherever theory says it must
    kind, _ = balanced_kind(case)
    if kind != 'none':
        bal = call_balanced(case)
        if isinstance(bal, dict) and 'exc' in bal:
            return _fail('calc_rdm raised on a design it must handle', bal['exc'], 'an RDM',
                         violation='balanced', signature='none')
        d = map_diff(as_map(base['labels'], base['rdm']), bal, 1e-9, atol)
        if d:
            return _fail('unbalanced estimator differs from calc_rdm (' + kind + ') ' + d,
                         as_map(base['labels'], base['rdm']), bal, violation='balanced',
                         signature='none')
    # 5. integer and float inputs, C- and Fortran-ordered arrays give the same result
    combos = [(dt, lay) for dt in ('float', 'int', 'float32', 'int32', 'uint8') for lay in LAYOUTS]
    if light:
        combos = [c for c in combos if c[0] in ('float', 'int') and c[1] in ('C', 'F')]
    for dtype, order in combos:
        if not dtype_ok(case, dtype):
            continue
        v = call_unbalanced(case, _matrix(case, dtype, order))
        if 'exc' in v or vec_diff(v['rdm'], base['rdm'], 1e-12, 1e-12 + atol * 1e-3):
            return _fail(f'result depends on dtype/memory layout ({dtype}, {order})',
                         v.get('rdm', v), base['rdm'], violation='layout', signature='none')
    # 5b. a list of datasets gives, row by row, what each dataset gives alone
    if case.get('extra') and not light:
        subs = sub_cases(case)
        for k, sc in enumerate(subs[1:], start=1):
            o = oracle(sc, light=True)
            if o:
                o['what'] = f'dataset {k} of a list input, taken alone: ' + o['what']
                # known findings are matched on the features of the dataset that fails
                o['features'].update(has_missing=has_missing(sc), noise_given=sc['noise'] is not None,
                                     crossval=crossval_of(sc), member=k)
                return o
        if not list_done:
            f = _list_vs_alone(case, base, atol)
            if f:
                return f
        # ... and therefore the brute-force pair average of its own observations (own folds)
        m = call_list(case)
        for k, sc in enumerate(subs):
            try:
                uq, _, Dk = spec(sc)
            except Degenerate:
                continue
            want = as_map(to_first(uniq, uq), Dk)
            got = as_map(m['labels'], m['rows'][k])
            d = map_diff(got, want, 1e-9, max(atol, _scale(Dk)))
            if d:
                return _fail(f'dataset {k} of a list input is not the average over its own admissible '
                             'observation pairs: ' + d, got, want, violation='list-input',
                             signature='none', member=k)
    # 6. the single-pair helper agrees with the full computation
    if case.get('one') and base['buf'] is not None:
        a, b = case['one']
        if a != b or crossval_of(case):
            o = call_one(case)
            ia, ib = sorted([uniq.index(a), uniq.index(b)])
            n = len(uniq)
            k = ia if ia == ib else n + sum(n - 1 - r for r in range(ia)) + (ib - ia - 1)
            if isinstance(o, dict) or not _close(o[0], base['buf'][k], 1e-9, atol):
                return _fail('calc_one_similarity differs from the entry of the full computation',
                             o, base['buf'][k], violation='single-pair', signature='none')
            # its second result: the summed weight of the admissible ordered pairs
            wsum = _one_weight(case, a, b)
            if not _close(o[1], wsum, 1e-9, 1e-9):
                return _fail('calc_one_similarity reports a weight that is not the summed weight '
                             'of the admissible observation pairs', o[1], wsum,
                             violation='single-pair', signature='none')
    # 7. a channel missing everywhere has no effect (same as deleting it / as adding one).
    #    Last, because for correlation / mahalanobis the added channel always runs into a known
    #    compiled-kernel finding, which must not hide the checks above.
    if light:
        return None
    P = len(case['vals'][0])
    whole = [c for c in range(P) if all(row[c] is None for row in case['vals'])]
    keep = [c for c in range(P) if c not in whole]
    variants = []
    if whole and keep:
        variants.append(([[row[c] for c in keep] for row in case['vals']],
                         None if case['noise'] is None else
                         [[case['noise'][k][l] for l in keep] for k in keep], 'deleted'))
    pos = (sum(len(str(v)) for v in case['labels']) + P) % (P + 1)
    variants.append(([row[:pos] + [None] + row[pos:] for row in case['vals']],
                     None if case['noise'] is None else
                     [r[:pos] + [0] + r[pos:] for r in case['noise'][:pos]] +
                     [[0] * pos + [1] + [0] * (P - pos)] +
                     [r[:pos] + [0] + r[pos:] for r in case['noise'][pos:]], 'added'))
    for vals, noise, how in variants:
        if KERNEL[case['method']] == 'correlation' and how == 'deleted' and len(keep) < 3:
            continue
        Nv = None if noise is None else np.array(noise, dtype=np.float64) / case['noise_scale']
        v = call_unbalanced(case, _matrix(case, 'float', None, vals), noise=Nv)
        if 'exc' in v or vec_diff(v['rdm'], base['rdm'], 1e-9, atol):
            # does the variant itself violate the pair-average statement (e.g. a known
            # defect that the original call happens to mask)?  then report that.
            vc = dict(case, vals=vals, noise=noise, one=None)
            if 'exc' not in v:
                try:
                    _, Sv, Dv0 = spec(vc)
                    obs_v = v['rdm'] + (v['buf'] or [])
                    exp_v = Dv0 + (_buffer(uniq, Sv) if v['buf'] is not None else [])
                    if vec_diff(obs_v, exp_v, 1e-9, atol):
                        sig = _signature(vc, obs_v, v['buf'] is not None, atol)
                        return _fail(f'variant with an all-missing channel {how}: not the average '
                                     'over admissible observation pairs', obs_v, exp_v,
                                     violation='pair-average', signature=sig, variant=how)
                except Degenerate:
                    pass
            try:
                _, _, Dv = spec(case, vals=vals, noise=noise)
                ok_spec = vec_diff(Dv, D, 1e-9, atol) is None
            except Degenerate:
                ok_spec = False
            if ok_spec:
                return _fail(f'an all-missing channel ({how}) changes the result',
                             v.get('rdm', v), base['rdm'], violation='missing-everywhere',
                             signature='none', variant=how)
    return None


# ------------------------------------------------------------------ shrinking

def _consistent(case):
    if len(set(case['labels'])) < 2:
        return False
    if case.get('one') and not all(l in case['labels'] for l in case['one']):
        case['one'] = None
    return True


MEMBER_KEYS = ('vals', 'noise', 'labels', 'folds', 'cond_kind', 'fold_kind', 'dtype', 'order', 'scale',
               'mask')


def _shrink_list(case, still_fails):
    """list input: fewer datasets, fewer observations per dataset (keeping every condition in
    every dataset), fewer channels, plain layout / container"""
    def ok(c):
        try:
            return bool(still_fails(c))
        except Exception:  # noqa: BLE001  (an inconsistent candidate is simply not taken)
            return False

    cur = copy.deepcopy(case)
    subs = sub_cases(cur)
    cur['extra'] = [dict({k: copy.deepcopy(sc.get(k)) for k in MEMBER_KEYS}, rel=e.get('rel'))
                    for sc, e in zip(subs[1:], cur['extra'])]
    for _round in range(4):
        changed = False
        for k in reversed(range(len(cur['extra']))):            # drop a later dataset
            if len(cur['extra']) < 2:
                break
            c = copy.deepcopy(cur)
            del c['extra'][k]
            if ok(c):
                cur, changed = c, True
        if len(cur['extra']) >= 2:                               # drop the first dataset
            c = copy.deepcopy(cur)
            first = c['extra'].pop(0)
            c.update({k: first[k] for k in MEMBER_KEYS})
            c['one'] = None
            if ok(c):
                cur, changed = c, True
        for m in range(len(cur['extra']) + 1):                   # drop observations
            tgt = (lambda c: c) if m == 0 else (lambda c, m=m: c['extra'][m - 1])
            for i in reversed(range(len(tgt(cur)['labels']))):
                c = copy.deepcopy(cur)
                t = tgt(c)
                lab = t['labels'][i]
                if sum(1 for l in t['labels'] if l == lab) < 2:
                    continue
                del t['labels'][i]
                del t['vals'][i]
                if t['folds'] is not None:
                    del t['folds'][i]
                if m == 0 and c.get('one') and not all(l in c['labels'] for l in c['one']):
                    c['one'] = None
                if ok(c):
                    cur, changed = c, True
        allm = [cur] + cur['extra']
        if len({len(t['vals'][0]) for t in allm}) == 1:          # drop a channel everywhere
            minP = 3 if KERNEL[cur['method']] == 'correlation' else 1
            for ch in reversed(range(len(cur['vals'][0]))):
                if len(cur['vals'][0]) <= minP:
                    break
                c = copy.deepcopy(cur)
                for t in [c] + c['extra']:
                    for row in t['vals']:
                        del row[ch]
                    if t['noise'] is not None:
                        t['noise'] = [[v for l, v in enumerate(r) if l != ch]
                                      for k2, r in enumerate(t['noise']) if k2 != ch]
                if ok(c):
                    cur, changed = c, True
        for key, val in (('one', None), ('container', 'list')):
            if cur.get(key) != val:
                c = copy.deepcopy(cur)
                c[key] = val
                if ok(c):
                    cur, changed = c, True
        for m in range(len(cur['extra']) + 1):
            for key, val in (('order', 'C'), ('dtype', 'float')):
                c = copy.deepcopy(cur)
                t = c if m == 0 else c['extra'][m - 1]
                if t.get(key) != val:
                    t[key] = val
                    if ok(c):
                        cur, changed = c, True
        if not changed:
            break
    return cur


def shrink(case, still_fails):
    cur = copy.deepcopy(case)
    if cur.get('extra'):
        # a failure of the list handling stays a list; a failure of one dataset may lose the list
        lst = _shrink_list(cur, still_fails)
        c = copy.deepcopy(lst)
        c['extra'] = None
        try:
            alone = bool(still_fails(c))
        except Exception:  # noqa: BLE001
            alone = False
        if not alone:
            return lst
        cur = c
    changed = True
    rounds = 0
    while changed and rounds < 6:
        changed = False
        rounds += 1
        for i in reversed(range(len(cur['labels']))):
            if len(cur['labels']) <= 2:
                break
            c = copy.deepcopy(cur)
            del c['labels'][i]
            del c['vals'][i]
            if c['folds'] is not None:
                del c['folds'][i]
            if _consistent(c) and still_fails(c):
                cur, changed = c, True
        P = len(cur['vals'][0])
        minP = 3 if KERNEL[cur['method']] == 'correlation' else 1
        for ch in reversed(range(P)):
            if len(cur['vals'][0]) <= minP:
                break
            c = copy.deepcopy(cur)
            for row in c['vals']:
                del row[ch]
            if c['noise'] is not None:
                del c['noise'][ch]
                for row in c['noise']:
                    del row[ch]
            if still_fails(c):
                cur, changed = c, True
        for key, val in (('one', None), ('order', 'C'), ('scale', 1)):
            if cur.get(key) != val:
                c = copy.deepcopy(cur)
                c[key] = val
                if still_fails(c):
                    cur, changed = c, True
    return cur
