"""C09 round 3 — additional case kinds (helper of engines/C09.py).

  op = session     one bootstrap draw on the data, the returned pattern indices applied to several
                   model predictions of different classes (ModelFixed / Select / Weighted /
                   Interpolate .predict_rdm), plus the evaluate.py style re-derivation of the sample
                   in the other order (data.subsample_pattern(p).subsample(r))
  op = testset     inference/boot_testset.py: bootstrap_testset / _pattern / _rdm with `crossval`
                   replaced by a spy that records the (train_set, test_set) pairs
  op = freq_exact  every outcome of the recorded randint request is injected once: all groups must be
                   selected equally often in total (deterministic form of "equally often on average")
  op = exotic      descriptors outside the property's quantifier: mixed int/str lists, None values,
                   2-d descriptors.  The library must reject them or return a sample without
                   misalignment; the mixed case is compared with the model of numpy's coercion.
"""
import itertools
import json
import math

import numpy as np

from rsatoolbox.rdm import RDMs
from rsatoolbox.inference import bootstrap as B
import rsatoolbox.inference.boot_testset as BT
from rsatoolbox.model import ModelFixed, ModelSelect, ModelWeighted, ModelInterpolate

TAG = '_tag'


def E():
    from engines import C09
    return C09


_CACHE = {}


def _memo(case, fn):
    key = json.dumps(case, sort_keys=True)
    if key not in _CACHE:
        if len(_CACHE) > 5000:
            _CACHE.clear()
        _CACHE[key] = fn(case)
    return _CACHE[key]


def _exc(exc):
    name = type(exc).__name__
    return {'exc': name if name in ('ValueError', 'TypeError', 'KeyError', 'IndexError',
                                    'AssertionError') else 'other:' + name, 'msg': str(exc)[:200]}


def _plain(x):
    if isinstance(x, np.ndarray):
        return x.tolist()
    if isinstance(x, np.generic):
        return x.item()
    return x


def _same(a, b):
    return json.dumps(a, sort_keys=True, default=str) == json.dumps(b, sort_keys=True, default=str)


def _origins(case, obj):
    """source positions of the items of a resampled object, read from the hidden tag descriptors"""
    if TAG not in obj.rdm_descriptors or TAG not in obj.pattern_descriptors:
        return None, {'what': 'descriptor lost in the sample',
                      'observed': [sorted(obj.rdm_descriptors), sorted(obj.pattern_descriptors)], 'expected': TAG}
    o_r = [int(str(x)[1:]) for x in obj.rdm_descriptors[TAG]]
    o_c = [int(str(x)[1:]) for x in obj.pattern_descriptors[TAG]]
    if any(not 0 <= j < case['n_rdm'] for j in o_r) or any(not 0 <= j < case['n_cond'] for j in o_c):
        return None, {'what': 'sample item that is no source item', 'observed': [o_r, o_c],
                      'expected': 'source items'}
    return (o_r, o_c), None


def _provenance(case, obj, o_r, o_c):
    """every descriptor value and every entry of `obj` is that of its source item(s);
    NaN exactly between copies of one condition (or where the source is NaN)"""
    n_rdm, n_cond = case['n_rdm'], case['n_cond']
    for axis, key, orig, sdesc in (('rdm', 'rdm_desc', o_r, obj.rdm_descriptors),
                                   ('pattern', 'pat_desc', o_c, obj.pattern_descriptors)):
        for k, vals, _ in case[key]:
            got = [_plain(x) for x in sdesc.get(k, [])]
            exp = [vals[j] for j in orig]
            if not _same(got, exp):
                return {'what': f'{axis} descriptor {k!r} of the sample does not belong to the sampled items',
                        'observed': got, 'expected': exp, 'features': {'axis': axis}}
    vec = np.asarray(obj.dissimilarities, dtype=float)
    kc = len(o_c)
    if vec.shape != (len(o_r), kc * (kc - 1) // 2):
        return {'what': 'shape of the sample', 'observed': list(vec.shape),
                'expected': [len(o_r), kc * (kc - 1) // 2]}
    src = {}
    for rr in range(n_rdm):
        k = 0
        for i in range(n_cond):
            for j in range(i + 1, n_cond):
                src[(rr, i, j)] = src[(rr, j, i)] = case['vecs'][rr][k]
                k += 1
    for p, rr in enumerate(o_r):
        k = 0
        for i in range(kc):
            for j in range(i + 1, kc):
                a, b = o_c[i], o_c[j]
                got = vec[p, k]
                exp = None if a == b else src[(rr, a, b)]
                if (exp is None) != math.isnan(got) or (exp is not None and got != exp):
                    what = ('an entry of the sample is not the source dissimilarity of its RDM and '
                            'original conditions')
                    if math.isnan(got) and exp is not None:
                        what = 'an entry between two different conditions became NaN'
                    elif exp is None and a == b:
                        what = 'an entry pairing two copies of one condition is not NaN'
                    return {'what': what, 'observed': None if math.isnan(got) else got, 'expected': exp,
                            'features': {'where': [p, i, j], 'orig': [rr, a, b]}}
                k += 1
    return None


def _grouped_together(axis, gvals, orig):
    mult = [orig.count(j) for j in range(len(gvals))]
    for a in range(len(gvals)):
        for b in range(a + 1, len(gvals)):
            if _same(gvals[a], gvals[b]) and mult[a] != mult[b]:
                return {'what': f'{axis}s with the same descriptor value are not resampled together',
                        'observed': mult, 'expected': 'equal multiplicity within a group',
                        'features': {'axis': axis}}
    return None


# =================================================================== session

MODEL_CLASSES = {'fixed': ModelFixed, 'select': ModelSelect, 'weighted': ModelWeighted,
                 'interp': ModelInterpolate}


def _model_rdms(case, m):
    e = E()
    v = np.array(m['vecs'], dtype=float)
    pd = {k: e._container(vals, cont) for k, vals, cont in m['pat_desc']}
    rd = {k: e._container(vals, cont) for k, vals, cont in m['rdm_desc']}
    return RDMs(v, dissimilarity_measure='tag', rdm_descriptors=rd if rd else None,
                pattern_descriptors=pd)


def _predict(case, m):
    model = MODEL_CLASSES[m['cls']]('m', _model_rdms(case, m))
    if m['cls'] == 'fixed':
        return model.predict_rdm()
    if m['cls'] == 'select':
        return model.predict_rdm(m['theta'])
    return model.predict_rdm(np.array(m['theta'], dtype=float))


def _session_call(case):
    e = E()
    res = {}
    try:
        rdms = e._build(case)
        res['source'] = e._stack_json(rdms)
        np.random.seed(case['draws'].get('seed', 12345))
        kw = {}
        if case.get('rdm_by') is not None:
            kw['rdm_descriptor'] = case['rdm_by']
        if case.get('pat_by') is not None:
            kw['pattern_descriptor'] = case['pat_by']
        with e.Tap(e._script(case)) as tap:
            try:
                if case['mode'] == 'both':
                    sample, ridx, pidx = B.bootstrap_sample(rdms, **kw)
                else:
                    kw.pop('rdm_descriptor', None)
                    sample, pidx = B.bootstrap_sample_pattern(rdms, **kw)
                    ridx = None
            finally:
                res['calls'] = tap.calls
        res.update(sample=sample, ridx=ridx, pidx=pidx, rdms=rdms)
        pby = case.get('pat_by') or 'index'
        res['pred_src'], res['pred_src_obj'], res['preds'] = [], [], []
        for m in case['models']:
            pred = _predict(case, m)
            # identities for the oracle (a ModelSelect prediction keeps the `index` of the chosen RDM)
            pred.rdm_descriptors[TAG] = [f'r{i}' for i in range(pred.n_rdm)]
            res['pred_src'].append(e._stack_json(pred))
            res['pred_src_obj'].append(pred)
            res['preds'].append(pred.subsample_pattern(pby, pidx))
        # evaluate.py re-derives the two single-axis samples from the data with the same indices
        sp = rdms.subsample_pattern(pby, pidx)
        res['other_order'] = sp if ridx is None else sp.subsample(case.get('rdm_by') or 'index', ridx)
    except Exception as exc:  # noqa: BLE001
        res.update(_exc(exc))
    return res


def session_impl(case):
    e = E()
    r = _memo(case, _session_call)
    if 'exc' in r:
        return {'exc': r['exc'], 'msg': r.get('msg')}
    return {'stack': e._canon_stack(e._stack_json(r['sample'])),
            'rdm_idx': e._idx_json(r['ridx']), 'pat_idx': e._idx_json(r['pidx']),
            'idx_types': [type(x).__name__ for x in (r['ridx'], r['pidx']) if x is not None],
            'requests': [[c['low'], c['high'], c['size']] for c in r['calls']],
            'draws': [c['out'] for c in r['calls']],
            'preds': [e._canon_stack(e._stack_json(p)) for p in r['preds']],
            'other_order': e._canon_stack(e._stack_json(r['other_order']))}


def session_requests(case):
    e = E()
    r = _memo(case, _session_call)
    if 'source' not in r or 'calls' not in r:
        return []
    outs = [c['out'] for c in r['calls']]
    dr, dp = (outs + [[], []])[:2] if case['mode'] == 'both' else ([], (outs + [[]])[0])
    reqs = [dict(r['source'], op='c09.boot', mode=case['mode'], draws_r=dr, draws_p=dp,
                 rdm_by=case.get('rdm_by') or 'index', pat_by=case.get('pat_by') or 'index')]
    if 'pred_src' in r and r.get('pidx') is not None and len(r['pred_src']) == len(case['models']):
        reqs.append({'op': 'c09.resample_all', 'stacks': r['pred_src'],
                     'pat_by': case.get('pat_by') or 'index', 'value': e._idx_json(r['pidx'])})
    return reqs


def session_model(case, answers):
    e = E()
    if not answers:
        return {'exc': 'constructor'}
    a = answers[0]
    if isinstance(a, dict) and ('model_error' in a or 'exc' in a):
        return a
    out = {'stack': e._canon_stack(a['stack']), 'rdm_idx': a['rdm_idx'], 'pat_idx': a['pat_idx'],
           'requests': [list(sp) for sp in (a['spec_r'], a['spec_p']) if sp is not None]}
    if len(answers) > 1 and isinstance(answers[1], list):
        out['preds'] = [e._canon_stack(b['stack']) if 'stack' in b else b for b in answers[1]]
    else:
        out['preds'] = answers[1:] and answers[1]
    out['other_order'] = out['stack']        # theorem resample_commute
    return out


def session_compare(case, impl, model):
    e = E()
    d = e._compare_boot(case, impl, model)
    if d:
        return d
    if not isinstance(model.get('preds'), list) or len(impl['preds']) != len(model['preds']):
        return f"predictions: library {len(impl['preds'])} vs model {model.get('preds')!r:.80}"
    for k, (a, b) in enumerate(zip(impl['preds'], model['preds'])):
        d = e._diff_stack(f'pred[{k}]', a, b)
        if d:
            return d
        # theorem session_aligned: the shared columns (hidden tag, grouping descriptor) of the
        # resampled prediction are those of the sample, in order (round 4)
        for col in (TAG, case.get('pat_by') or 'index'):
            if col in a['pat_desc'] and a['pat_desc'].get(col) != impl['stack']['pat_desc'].get(col):
                return (f'column {col!r} of resampled prediction {k} {a["pat_desc"].get(col)} != that of '
                        f'the sample {impl["stack"]["pat_desc"].get(col)}')
    return e._diff_stack('other_order', impl['other_order'], model['other_order'])


def session_oracle(case):
    e = E()
    r = _memo(case, _session_call)
    if 'exc' in r:
        return {'what': 'bootstrap session raised on a valid stack', 'observed': f"{r['exc']}: {r.get('msg')}",
                'expected': 'a sample and aligned predictions', 'features': {'exc': r['exc']}}
    f = e._check_sample(case, case['vecs'], r['sample'], r['ridx'], r['pidx'])
    if f:
        return f
    want = [e._norm(x) for x in r['sample'].pattern_descriptors[TAG]]
    for k, (m, src, pred) in enumerate(zip(case['models'], r['pred_src_obj'], r['preds'])):
        pc = {'n_cond': case['n_cond'], 'pat_desc': m['pat_desc'], 'pat_by': case.get('pat_by'),
              'rdm_desc': [[key, [e._norm(x) for x in v], 'list'] for key, v in src.rdm_descriptors.items()]}
        vecs = [[None if math.isnan(x) else float(x) for x in row] for row in np.asarray(src.dissimilarities)]
        f = e._check_sample(pc, vecs, pred, None, r['pidx'])
        if f:
            f['what'] = f"prediction {k} ({m['cls']}): " + f['what']
            # cause identification for the known-finding proposal C09-modelfixed-index: the model
            # class replaced the `index` its RDMs object was built with
            given = [vals for key, vals, _ in m['pat_desc'] if key == 'index']
            has = [e._norm(x) for x in src.pattern_descriptors.get('index', [])]
            if m['cls'] == 'fixed' and given and [e._norm(x) for x in given[0]] != has \
                    and (case.get('pat_by') or 'index') == 'index':
                f.setdefault('features', {})['finding'] = 'modelfixed-index'
            return f
        got = [e._norm(x) for x in pred.pattern_descriptors[TAG]]
        if got != want:
            return {'what': f"conditions of resampled prediction {k} ({m['cls']}) are not in the order of the sample",
                    'observed': got, 'expected': want}
    a = e._canon_stack(e._stack_json(r['other_order']))
    b = e._canon_stack(e._stack_json(r['sample']))
    d = e._diff_stack('other order', a, b)
    if d:
        return {'what': 'resampling conditions first and RDMs second with the same indices gives a different sample',
                'observed': d, 'expected': 'the same sample'}
    return None


def session_features(case, impl):
    e = E()
    c2 = dict(case, op='boot')
    f = e.features(c2, impl)
    br = [b for b in f['branches'] if b != 'pred'] + ['op:session']
    br += ['session:' + m['cls'] for m in case['models']]
    if len(case['models']) >= 2:
        br.append('session:multi')
    if len({m['cls'] for m in case['models']}) >= 2:
        br.append('session:classes')
    if any(len(m['vecs']) > 1 for m in case['models']):
        br.append('session:multi_rdm_model')
    f.update(op='session', branches=sorted(set(br)))
    return f


def make_session(rng):
    e = E()
    case = e._make_case(rng, mode=rng.choice(['both', 'both', 'pattern']))
    case.pop('pred', None)
    case.pop('pred_rdm_desc', None)
    n, npair = case['n_cond'], case['n_cond'] * (case['n_cond'] - 1) // 2
    pby = case.get('pat_by') or 'index'
    group = [d for d in case['pat_desc'] if d[0] == pby]
    tag = [d for d in case['pat_desc'] if d[0] == TAG]
    models = []
    for k in range(rng.choice([1, 2, 2, 3])):
        cls = rng.choice(['fixed', 'select', 'weighted', 'interp'])
        nr = 1 if cls == 'fixed' and rng.random() < 0.6 else rng.randint(1, 3)
        vecs = [[(k + 2) * 100 + 10 * r + rng.randint(0, 9) + p for p in range(npair)] for r in range(nr)]
        if rng.random() < 0.2 and npair:
            vecs[rng.randrange(nr)][rng.randrange(npair)] = 0
        pd = [[key, list(vals), e._cont(rng)] for key, vals, _ in group + tag]
        if rng.random() < 0.5:
            pd.append(['feature', [rng.randint(0, 4) for _ in range(n)], e._cont(rng)])
        rng.shuffle(pd)
        rd = [] if rng.random() < 0.5 else [['layer', [f'l{r}' for r in range(nr)], 'list']]
        theta = None
        if cls == 'select':
            theta = rng.randrange(nr)
        elif cls == 'weighted':
            theta = [rng.choice([-2, -1, 0, 1, 1, 2, 3, 0.5]) for _ in range(nr)]
        elif cls == 'interp':
            theta = [rng.choice([-1, 0, 1, 2, 0.25]) for _ in range(nr)]
        models.append({'cls': cls, 'vecs': vecs, 'pat_desc': pd, 'rdm_desc': rd, 'theta': theta})
    case.update(op='session', models=models)
    return e._with_draws(rng, case, rng.choice(['seed', 'inject']))


def shrink_session(case, still_fails):
    """fewer models, plain containers, no extra descriptors"""
    cur = json.loads(json.dumps(case))

    def attempt(mod):
        nonlocal cur
        c = json.loads(json.dumps(cur))
        try:
            mod(c)
            if still_fails(c):
                cur = c
                return True
        except Exception:  # noqa: BLE001
            pass
        return False
    for k in reversed(range(len(cur['models']))):
        if len(cur['models']) > 1:
            attempt(lambda c, k=k: c['models'].pop(k))
    attempt(lambda c: c.update(form='2d'))
    keep = {TAG, cur.get('pat_by') or 'index', cur.get('rdm_by') or 'index'}
    for key in ('rdm_desc', 'pat_desc'):
        attempt(lambda c, key=key: c.update({key: [[d[0], d[1], 'list'] for d in c[key] if d[0] in keep]}))

    def slim_models(c):
        for m in c['models']:
            m['pat_desc'] = [[d[0], d[1], 'list'] for d in m['pat_desc'] if d[0] in keep]
            m['rdm_desc'] = []
    attempt(slim_models)
    if cur['mode'] == 'both':
        attempt(lambda c: c.update(mode='pattern'))
    return cur


# =================================================================== testset

def _testset_call(case):
    e = E()
    res = {'iters': []}
    try:
        rdms = e._build(case)
        res['source'] = e._stack_json(rdms)
        n_cond = case['n_cond']
        npair = n_cond * (n_cond - 1) // 2
        model = ModelFixed('m', RDMs(np.arange(1.0, npair + 1).reshape(1, npair)))
        np.random.seed(case['draws'].get('seed', 12345))
        spy_calls = []

        class _Res:
            def __init__(self, n):
                self.evaluations = np.full((1, n, 1), 0.5)

        def spy(models, data, train_set, test_set, **kw):
            spy_calls.append((train_set, test_set, kw, data))
            return _Res(len(models))
        orig = BT.crossval
        BT.crossval = spy
        try:
            with e.Tap(case['draws'].get('script')) as tap:
                try:
                    kw = {'N': case['N']}
                    if case['fn'] != 'rdm':
                        kw['pattern_descriptor'] = case.get('pat_by')
                    if case['fn'] != 'pattern':
                        kw['rdm_descriptor'] = case.get('rdm_by')
                    fn = {'both': BT.bootstrap_testset, 'pattern': BT.bootstrap_testset_pattern,
                          'rdm': BT.bootstrap_testset_rdm}[case['fn']]
                    out = fn(model, rdms, **kw)
                finally:
                    res['calls'] = tap.calls
        finally:
            BT.crossval = orig
        res['evals'] = np.asarray(out[0])
        res['counts'] = [np.asarray(x).tolist() for x in out[1:]]
        res['spy'] = spy_calls
        res['rdms'] = rdms
    except Exception as exc:  # noqa: BLE001
        res.update(_exc(exc))
    return res


def _per_iter(case, r):
    """group the recorded randint calls and the spy calls by iteration"""
    per = 2 if case['fn'] == 'both' else 1
    calls = r['calls']
    iters = []
    k = 0
    for i in range(case['N']):
        c = calls[i * per:(i + 1) * per]
        has = not np.isnan(r['evals'][i]).all()
        spy = None
        if has and k < len(r['spy']):
            spy = r['spy'][k]
            k += 1
        iters.append((c, has, spy))
    return iters, k == len(r['spy'])


def testset_impl(case):
    e = E()
    r = _memo(case, _testset_call)
    if 'exc' in r:
        return {'exc': r['exc'], 'msg': r.get('msg')}
    iters, consistent = _per_iter(case, r)
    out = {'iters': [], 'spy_consistent': consistent, 'counts': r['counts'],
           'requests': [[c['low'], c['high'], c['size']] for c in r['calls']]}
    for c, has, spy in iters:
        it = {'has_test': has, 'draws': [x['out'] for x in c]}
        if spy is not None:
            train, test, kw, data = spy
            it['train'] = e._canon_stack(e._stack_json(train[0][0]))
            it['train_idx'] = e._idx_json(train[0][1])
            it['test'] = e._canon_stack(e._stack_json(test[0][0]))
            it['test_idx'] = e._idx_json(test[0][1])
            it['cv_pattern_descriptor'] = kw.get('pattern_descriptor')
            it['n_sets'] = [len(train), len(test)]
        out['iters'].append(it)
    return out


def testset_requests(case):
    r = _memo(case, _testset_call)
    if 'source' not in r or 'calls' not in r or 'evals' not in r:
        return []
    per = 2 if case['fn'] == 'both' else 1
    reqs = []
    for i in range(case['N']):
        c = [x['out'] for x in r['calls'][i * per:(i + 1) * per]]
        if case['fn'] == 'both':
            dr, dp = (c + [[], []])[:2]
        elif case['fn'] == 'rdm':
            dr, dp = (c + [[]])[0], []
        else:
            dr, dp = [], (c + [[]])[0]
        reqs.append(dict(r['source'], op='c09.testset', fn=case['fn'], draws_r=dr, draws_p=dp,
                         rdm_by=case.get('rdm_by') or 'index', pat_by=case.get('pat_by') or 'index'))
    return reqs


def testset_model(case, answers):
    e = E()
    if not answers:
        return {'exc': 'constructor'}
    out = {'iters': [], 'counts': [[], []] if case['fn'] == 'both' else [[]]}
    for a in answers:
        if isinstance(a, dict) and ('model_error' in a or 'exc' in a):
            return a
        it = {'has_test': a['test'] is not None}
        it['train'] = e._canon_stack(a['stack'])
        it['train_idx'] = a['pat_idx'] if a['pat_idx'] is not None else list(range(case['n_cond']))
        if a['test'] is not None:
            it['test'] = e._canon_stack(a['test'])
            it['test_idx'] = a['test_p'] if a['test_p'] is not None else list(range(case['n_cond']))
        out['iters'].append(it)
        if case['fn'] == 'both':
            out['counts'][0].append(len(a['test_r']))
            out['counts'][1].append(len(a['test_p']))
        elif case['fn'] == 'rdm':
            out['counts'][0].append(len(a['test_r']))
        else:
            out['counts'][0].append(len(a['test_p']))
    return out


def testset_compare(case, impl, model):
    e = E()
    if isinstance(model, dict) and 'model_error' in model:
        return f'model error {model}'
    if 'exc' in impl or 'exc' in model:
        if impl.get('exc') != model.get('exc'):
            return f"library {impl.get('exc')} ({impl.get('msg')}) vs model {model.get('exc')}"
        return None
    if not impl['spy_consistent']:
        return 'number of crossval calls differs from the number of non-NaN evaluations'
    if impl['counts'] != model['counts']:
        return f"test-set sizes: library {impl['counts']} != model {model['counts']}"
    for i, (a, b) in enumerate(zip(impl['iters'], model['iters'])):
        if a['has_test'] != b['has_test']:
            return f"iteration {i}: library has_test={a['has_test']} model {b['has_test']}"
        if not a['has_test']:
            continue
        for k in ('train_idx', 'test_idx'):
            if a[k] != b[k]:
                return f'iteration {i} {k}: library {a[k]} != model {b[k]}'
        for k in ('train', 'test'):
            d = e._diff_stack(f'iteration {i} {k}', a[k], b[k])
            if d:
                return d
        if a['n_sets'] != [1, 1]:
            return f"iteration {i}: {a['n_sets']} train/test sets"
        want = case.get('pat_by') or 'index'
        if a['cv_pattern_descriptor'] != want:
            return f"iteration {i}: crossval called with pattern_descriptor {a['cv_pattern_descriptor']!r} != {want!r}"
    return None


def testset_oracle(case):
    """train sample faithful; test set = exactly the items of the groups not drawn, once each;
    train and test share no item of a resampled axis; sizes reported = number of left-out groups"""
    e = E()
    r = _memo(case, _testset_call)
    if 'exc' in r:
        return {'what': 'bootstrap_testset raised on a valid stack', 'observed': f"{r['exc']}: {r.get('msg')}",
                'expected': 'evaluations', 'features': {'exc': r['exc']}}
    iters, consistent = _per_iter(case, r)
    fn = case['fn']
    rby, pby = case.get('rdm_by') or 'index', case.get('pat_by') or 'index'
    rdesc = list(range(case['n_rdm']))
    pdesc = list(range(case['n_cond']))
    for k, vals, _ in case['rdm_desc']:
        if k == rby:
            rdesc = [e._norm(x) for x in vals]
    for k, vals, _ in case['pat_desc']:
        if k == pby:
            pdesc = [e._norm(x) for x in vals]
    gkey = lambda z: (isinstance(z, str), z)  # noqa: E731
    for i, (calls, has, spy) in enumerate(iters):
        if spy is None:
            n_r = r['counts'][0][i] if fn != 'pattern' else None
            n_p = r['counts'][-1][i] if fn != 'rdm' else None
            if (n_p is None or n_p >= 3) and (n_r is None or n_r >= 1):
                return {'what': 'a bootstrap draw with enough left-out groups was not evaluated',
                        'observed': [n_r, n_p], 'expected': 'an evaluation'}
            continue
        train, test, kw, data = spy
        sample, tidx = train[0]
        (o, bad) = _origins(case, sample)
        if bad:
            return bad
        s_r, s_c = o
        f = _provenance(case, sample, s_r, s_c)
        if f:
            f['what'] = 'training sample: ' + f['what']
            return f
        # pattern axis of the training sample
        if fn == 'rdm':
            if s_c != list(range(case['n_cond'])):
                return {'what': 'pattern axis changed although it was not resampled', 'observed': s_c,
                        'expected': list(range(case['n_cond']))}
            drawn_p = None
        else:
            drawn = [e._norm(x) for x in np.asarray(tidx).ravel()]
            groups = sorted(set(pdesc), key=gkey)
            if len(drawn) != len(groups) or any(g not in groups for g in drawn):
                return {'what': 'number / identity of drawn pattern groups', 'observed': drawn, 'expected': groups}
            want = {j: drawn.count(pdesc[j]) for j in range(case['n_cond'])}
            got = {j: s_c.count(j) for j in range(case['n_cond'])}
            if got != want:
                return {'what': 'patterns in the sample are not the members of the drawn groups with the drawn multiplicity',
                        'observed': got, 'expected': want, 'features': {'axis': 'pattern'}}
            drawn_p = set(drawn)
        # rdm axis of the training sample (the drawn rdm indices are not handed to crossval)
        if fn == 'pattern':
            if s_r != list(range(case['n_rdm'])):
                return {'what': 'rdm axis changed although it was not resampled', 'observed': s_r,
                        'expected': list(range(case['n_rdm']))}
            drawn_r = None
        else:
            g = _grouped_together('rdm', rdesc, s_r)
            if g:
                return g
            groups = sorted(set(rdesc), key=gkey)
            n_drawn = sum(s_r.count(rdesc.index(gv)) for gv in groups)
            if n_drawn != len(groups):
                return {'what': 'number of drawn rdm groups differs from the number of distinct groups',
                        'observed': n_drawn, 'expected': len(groups)}
            drawn_r = {rdesc[j] for j in s_r}
        # --- test set
        tset, test_idx = test[0]
        (o, bad) = _origins(case, tset)
        if bad:
            return bad
        t_r, t_c = o
        want_r = list(range(case['n_rdm'])) if drawn_r is None else \
            [k for gv in sorted(set(rdesc) - drawn_r, key=gkey) for k in range(case['n_rdm']) if rdesc[k] == gv]
        want_c = list(range(case['n_cond'])) if drawn_p is None else \
            [k for k in range(case['n_cond']) if pdesc[k] not in drawn_p]
        if sorted(t_r) != sorted(want_r):
            return {'what': 'RDMs of the test set are not exactly the members of the groups that were not drawn',
                    'observed': t_r, 'expected': want_r, 'features': {'axis': 'rdm'}}
        if t_c != want_c:
            return {'what': 'conditions of the test set are not exactly the members of the groups that were not drawn',
                    'observed': t_c, 'expected': want_c, 'features': {'axis': 'pattern'}}
        if fn != 'pattern' and set(s_r) & set(t_r):
            return {'what': 'an RDM is both in the bootstrap sample and in its test set',
                    'observed': sorted(set(s_r) & set(t_r)), 'expected': []}
        if fn != 'rdm' and set(s_c) & set(t_c):
            return {'what': 'a condition is both in the bootstrap sample and in its test set',
                    'observed': sorted(set(s_c) & set(t_c)), 'expected': []}
        f = _provenance(case, tset, t_r, t_c)
        if f:
            f['what'] = 'test set: ' + f['what']
            return f
        tgot = [e._norm(x) for x in np.asarray(test_idx).ravel()]
        twant = list(range(case['n_cond'])) if drawn_p is None else sorted(set(pdesc) - drawn_p, key=gkey)
        if tgot != twant:
            return {'what': 'pattern indices handed over with the test set are not the left-out groups',
                    'observed': tgot, 'expected': twant}
        rep = [x[i] for x in r['counts']]
        want = [len(set(rdesc) - drawn_r)] if drawn_r is not None else []
        want += [len(set(pdesc) - drawn_p)] if drawn_p is not None else []
        if rep != want:
            return {'what': 'reported test-set sizes differ from the number of groups that were not drawn',
                    'observed': rep, 'expected': want}
    return None


def testset_features(case, impl):
    br = ['op:testset', 'testset:' + case['fn'],
          'draws:' + ('recorded' if 'seed' in case['draws'] else 'injected')]
    if impl and 'iters' in impl:
        if any(it['has_test'] for it in impl['iters']):
            br.append('testset:some')
        if any(not it['has_test'] for it in impl['iters']):
            br.append('testset:none')
        cnt = impl.get('counts', [])
        pat = cnt[-1] if case['fn'] != 'rdm' and cnt else []
        rdm = cnt[0] if case['fn'] != 'pattern' and cnt else []
        br += [f'testset:pat_left{k}' for k in (2, 3) if k in pat]
        br += [f'testset:rdm_left{k}' for k in (0, 1) if k in rdm]
    for key, by in (('rdm_desc', 'rdm_by'), ('pat_desc', 'pat_by')):
        if case.get(by) is not None:
            vals = [v for k, v, _ in case[key] if k == case[by]][0]
            if len(set(vals)) < len(vals):
                br.append('testset:grouped')
    f = {'op': 'testset', 'fn': case['fn'], 'n_rdm': case['n_rdm'], 'n_cond': case['n_cond'],
         'branches': sorted(set(br))}
    if impl and 'exc' in impl:
        f['exc'] = impl['exc']
    return f


def make_testset(rng, exhaustive=None):
    e = E()
    fn = rng.choice(['both', 'pattern', 'pattern', 'rdm'])
    case = e._make_case(rng, n_cond=rng.choice([4, 5, 6, 7, 8]), n_rdm=rng.choice([2, 3, 4, 5]),
                        mode='both')
    case.pop('pred', None)
    case.pop('pred_rdm_desc', None)
    case.pop('mode')
    # bootstrap_testset* overwrite `index` when no descriptor is given: keep the auto index
    for key, by in (('rdm_desc', 'rdm_by'), ('pat_desc', 'pat_by')):
        if case.get(by) is None:
            case[key] = [d for d in case[key] if d[0] != 'index']
    if fn == 'rdm':
        case['pat_desc'] = [d for d in case['pat_desc'] if d[0] != 'index']
        case['pat_by'] = None
    if fn == 'pattern':
        case['rdm_by'] = None
    case.update(op='testset', fn=fn, N=rng.choice([2, 3]))
    if rng.random() < 0.5:
        case['draws'] = {'seed': rng.randrange(2 ** 31)}
    else:
        gr = e._n_groups(case['rdm_desc'], case['rdm_by'], case['n_rdm'])
        gp = e._n_groups(case['pat_desc'], case['pat_by'], case['n_cond'])
        script = []
        for _ in range(case['N']):
            # bias towards few distinct groups so that a test set exists
            def few(g, edge):
                if rng.random() < 0.5 and g > edge[0]:
                    # exactly at / just below the threshold "enough groups left out"
                    left = rng.choice(edge)
                    pool = rng.sample(range(g), max(1, g - left))
                    d = list(pool) + [rng.choice(pool) for _ in range(g - len(pool))]
                    rng.shuffle(d)
                    return d[:g]
                pool = rng.sample(range(g), max(1, min(g, rng.randint(1, max(1, g - 2)))))
                return [rng.choice(pool) for _ in range(g)]
            if fn == 'both':
                script += [few(gr, (1, 0)), few(gp, (3, 2))]
            elif fn == 'rdm':
                script.append(few(gr, (1, 0)))
            else:
                script.append(few(gp, (3, 2)))
        case['draws'] = {'script': script}
    return case


# =================================================================== freq_exact

def _fx_call(case):
    e = E()
    try:
        rdms = e._build(case)
        axis = case['axis']
        by = case.get('rdm_by' if axis == 'rdm' else 'pat_by') or 'index'

        def run(script):
            with e.Tap(script) as tap:
                try:
                    if axis == 'rdm':
                        _, idx = B.bootstrap_sample_rdm(rdms, by)
                    else:
                        _, idx = B.bootstrap_sample_pattern(rdms, by)
                finally:
                    calls = tap.calls
            return idx, calls
        np.random.seed(1)
        _, calls = run(None)
        if len(calls) != 1:
            return {'exc': 'other:requests', 'msg': f'{len(calls)} randint requests'}
        low, high, size = calls[0]['low'], calls[0]['high'], calls[0]['size']
        if size is None or high - low < 1 or (high - low) ** size > 4000:
            return {'skipped': True, 'request': [low, high, size]}
        desc = rdms.rdm_descriptors[by] if axis == 'rdm' else rdms.pattern_descriptors[by]
        groups = sorted({e._norm(x) for x in desc}, key=lambda z: (isinstance(z, str), z))
        counts = {json.dumps(g): 0 for g in groups}
        unknown = 0
        n = 0
        for out in itertools.product(range(low, high), repeat=size):
            idx, calls = run([list(out)])
            if not calls or not calls[0]['scripted']:
                return {'exc': 'other:script', 'msg': 'the request changed between calls'}
            n += 1
            for g in np.asarray(idx).ravel():
                k = json.dumps(e._norm(g))
                if k in counts:
                    counts[k] += 1
                else:
                    unknown += 1
        return {'request': [low, high, size], 'select': groups, 'counts': counts, 'unknown': unknown,
                'outcomes': n}
    except Exception as exc:  # noqa: BLE001
        return _exc(exc)


def fx_impl(case):
    return _memo(case, _fx_call)


def fx_requests(case):
    e = E()
    axis = case['axis']
    by = case.get('rdm_by' if axis == 'rdm' else 'pat_by') or 'index'
    n = case['n_rdm'] if axis == 'rdm' else case['n_cond']
    desc = list(range(n))
    for k, vals, _ in case['rdm_desc' if axis == 'rdm' else 'pat_desc']:
        if k == by:
            desc = vals
    return [{'op': 'c09.unique', 'desc': [e._norm(x) for x in desc]}]


def fx_model(case, answers):
    sel = answers[0]
    m = len(sel)
    # theorem mean_selection_one: over all m^m outcomes of the request (0, m, m) every group is
    # selected m^m times
    return {'select': sel, 'request': [0, m, m], 'per_group': m ** m}


def _fx_bad(res):
    if 'exc' in res:
        return f"exception {res['exc']}: {res.get('msg')}"
    if res.get('skipped'):
        return None
    if res['unknown']:
        return f"{res['unknown']} drawn values are not groups"
    c = res['counts']
    if len(set(c.values())) > 1:
        return (f"over all {res['outcomes']} outcomes of randint{tuple(res['request'])} the groups are "
                f"selected {c} times")
    return None


def fx_compare(case, impl, model):
    if 'exc' in impl:
        return f"library raised {impl['exc']}: {impl.get('msg')}"
    if impl.get('skipped'):
        return f"request {impl['request']} too large to enumerate (model {model['request']})"
    if impl['select'] != model['select']:
        return f"groups {impl['select']} != model unique {model['select']}"
    if impl['request'] != model['request']:
        return f"request {impl['request']} != model {model['request']}"
    if any(v != model['per_group'] for v in impl['counts'].values()):
        return f"selection totals {impl['counts']} != {model['per_group']} each"
    return _fx_bad(impl)


def fx_oracle(case):
    bad = _fx_bad(fx_impl(case))
    if bad:
        return {'what': 'groups are not selected equally often over all outcomes of the draw',
                'observed': bad, 'expected': 'equal totals', 'features': {'op': 'freq_exact'}}
    return None


def make_fx(rng):
    e = E()
    axis = rng.choice(['rdm', 'pattern'])
    case = e._make_case(rng, n_rdm=rng.choice([2, 3, 4, 5]) if axis == 'rdm' else rng.choice([1, 2]),
                        n_cond=rng.choice([3, 4, 5]) if axis == 'pattern' else rng.choice([2, 3]),
                        mode='both')
    case.pop('pred', None)
    case.pop('pred_rdm_desc', None)
    # prefer a named, repeated (unbalanced) descriptor on the drawn axis
    key, by, n, ch = ('rdm_desc', 'rdm_by', case['n_rdm'], 'r') if axis == 'rdm' else \
        ('pat_desc', 'pat_by', case['n_cond'], 'c')
    if rng.random() < 0.7 and n >= 3:
        kind = rng.choice(['int', 'str'])
        m = rng.randint(2, n - 1)
        pool = rng.sample(range(-3, 12), m) if kind == 'int' else rng.sample(e.STR_POOL, m)
        vals = list(pool) + [pool[0]] * (n - m)        # one big group, the others single
        rng.shuffle(vals)
        case[key] = [d for d in case[key] if d[0] not in ('grp', 'index')] + [['grp', vals, e._cont(rng)]]
        case[by] = 'grp'
    case.update(op='freq_exact', axis=axis)
    return case


# =================================================================== exotic

EXOTIC_KINDS = ['mixed', 'mixed', 'mixed', 'none', '2d']


def _exotic_vals(rng, n, kind):
    if kind == 'mixed':
        ints = rng.sample(range(-3, 12), rng.randint(1, 2))
        strs = rng.sample(['a', 'B', '10', 'zz'], rng.randint(1, 2))
        if rng.random() < 0.3:
            strs.append(str(ints[0]))          # '3' next to 3: one numpy group
        pool = ints + strs
        vals = list(pool) + [rng.choice(pool) for _ in range(max(0, n - len(pool)))]
        vals = vals[:n]
        if not any(isinstance(v, str) for v in vals) or not any(isinstance(v, int) for v in vals):
            vals[0], vals[-1] = ints[0], strs[0]
        rng.shuffle(vals)
        return vals
    if kind == 'none':
        vals = [rng.choice([None, 1, 2]) for _ in range(n)]
        vals[rng.randrange(n)] = None
        if all(v is None for v in vals) and n > 1:
            vals[0] = 1
        if rng.random() < 0.3:
            vals = [None if v is None else f's{v}' for v in vals]
        return vals
    rows = [[rng.randint(0, 2), rng.randint(3, 5)] for _ in range(max(1, n - 1))]
    vals = [rng.choice(rows) for _ in range(n)]
    return [list(v) for v in vals]


def make_exotic(rng):
    e = E()
    axis = rng.choice(['rdm', 'pattern'])
    kind = rng.choice(EXOTIC_KINDS)
    case = e._make_case(rng, n_rdm=rng.choice([2, 3, 4]), n_cond=rng.choice([3, 4, 5]),
                        mode=rng.choice(['both', axis if axis == 'rdm' else 'pattern']))
    case.pop('pred', None)
    case.pop('pred_rdm_desc', None)
    key, by, n = ('rdm_desc', 'rdm_by', case['n_rdm']) if axis == 'rdm' else \
        ('pat_desc', 'pat_by', case['n_cond'])
    other_key, other_by = ('pat_desc', 'pat_by') if axis == 'rdm' else ('rdm_desc', 'rdm_by')
    # the other axis stays ordinary and ungrouped by default index
    case[other_key] = [d for d in case[other_key] if d[0] != 'index']
    case[other_by] = None
    cont = 'list' if kind != '2d' else rng.choice(['list', 'array'])
    case[key] = [d for d in case[key] if d[0] not in ('x', 'index')] + [['x', _exotic_vals(rng, n, kind), cont]]
    case[by] = 'x'
    case.update(op='exotic', axis=axis, kind=kind)
    case['draws'] = {'seed': rng.randrange(2 ** 31)}
    return case


def _exotic_call(case):
    e = E()
    res = {}
    try:
        rdms = e._build(case)
        res['rdms'] = rdms
        np.random.seed(case['draws']['seed'])
        kw = {}
        if case.get('rdm_by') is not None:
            kw['rdm_descriptor'] = case['rdm_by']
        if case.get('pat_by') is not None:
            kw['pattern_descriptor'] = case['pat_by']
        with e.Tap(None) as tap:
            try:
                if case['mode'] == 'both':
                    sample, ridx, pidx = B.bootstrap_sample(rdms, **kw)
                elif case['mode'] == 'rdm':
                    kw.pop('pattern_descriptor', None)
                    sample, ridx = B.bootstrap_sample_rdm(rdms, **kw)
                    pidx = None
                else:
                    kw.pop('rdm_descriptor', None)
                    sample, pidx = B.bootstrap_sample_pattern(rdms, **kw)
                    ridx = None
            finally:
                res['calls'] = tap.calls
        res.update(sample=sample, ridx=ridx, pidx=pidx)
    except Exception as exc:  # noqa: BLE001
        res.update(_exc(exc))
    return res


def _lbl(x):
    """python descriptor value -> wire label (int or str) for the mixed model"""
    if isinstance(x, (bool, np.bool_)):
        return int(x)
    if isinstance(x, (int, np.integer)):
        return int(x)
    return str(x)


def _mixed_source(case):
    """the stack as the library stores it (lists keep their python values)"""
    n_rdm, n_cond = case['n_rdm'], case['n_cond']
    rd = [[k, [_lbl(x) for x in vals]] for k, vals, _ in case['rdm_desc']]
    pd = [[k, [_lbl(x) for x in vals]] for k, vals, _ in case['pat_desc']]
    if not any(k == 'index' for k, _ in rd):
        rd.append(['index', list(range(n_rdm))])
    if not any(k == 'index' for k, _ in pd):
        pd.append(['index', list(range(n_cond))])
    return {'n_cond': n_cond, 'vecs': case['vecs'], 'rdm_desc': rd, 'pat_desc': pd}


def exotic_impl(case):
    e = E()
    r = _memo(case, _exotic_call)
    if 'exc' in r:
        return {'exc': r['exc'], 'msg': r.get('msg')}
    out = {'rdm_idx': None if r['ridx'] is None else [_lbl(x) for x in np.asarray(r['ridx']).ravel()],
           'pat_idx': None if r['pidx'] is None else [_lbl(x) for x in np.asarray(r['pidx']).ravel()],
           'requests': [[c['low'], c['high'], c['size']] for c in r['calls']],
           'draws': [c['out'] for c in r['calls']]}
    if case['kind'] == 'mixed':
        s = r['sample']
        out['stack'] = e._canon_stack({
            'n_cond': int(s.n_cond),
            'vecs': [[e._num(x) for x in row] for row in np.asarray(s.dissimilarities)],
            'rdm_desc': [[k, [_lbl(x) for x in v]] for k, v in s.rdm_descriptors.items()],
            'pat_desc': [[k, [_lbl(x) for x in v]] for k, v in s.pattern_descriptors.items()]})
    else:
        out['n'] = [int(r['sample'].n_rdm), int(r['sample'].n_cond)]
    return out


def exotic_requests(case):
    if case['kind'] != 'mixed':
        return []
    r = _memo(case, _exotic_call)
    if 'calls' not in r or 'exc' in r:
        return []
    outs = [c['out'] for c in r['calls']]
    if case['mode'] == 'both':
        dr, dp = (outs + [[], []])[:2]
    elif case['mode'] == 'rdm':
        dr, dp = (outs + [[]])[0], []
    else:
        dr, dp = [], (outs + [[]])[0]
    base = dict(_mixed_source(case), op='c09.boot', mode=case['mode'], draws_r=dr, draws_p=dp,
                rdm_by=case.get('rdm_by') or 'index', pat_by=case.get('pat_by') or 'index')
    return [dict(base, fixed=False), dict(base, fixed=True)]


# what the pinned library does with a descriptor outside the quantifier (characterisation):
#   None values      np.unique cannot sort None against int / str          -> TypeError
#   2-d, rdm axis    `d == i` on rows is an array, `if` on it              -> ValueError
#   2-d, pattern     np.unique flattens: every *scalar* is a group; rows containing a drawn scalar
#                    are selected.  No misalignment, identical rows stay together, but the number of
#                    draws is the number of distinct scalars.
#   mixed, pattern   np.array coerces both sides to str: faithful for the groups str(x)
#   mixed, rdm       np.unique coerces, RDMs.subsample compares python values: RDMs labelled by an
#                    int are never selected (theorem mixed_rdm_int_never_sampled); the repaired
#                    comparison (notes/C09-fix-mixed-rdm-descriptor.diff) is accepted as well
EXPECTED_EXC = {('none', 'rdm'): ['TypeError'], ('none', 'pattern'): ['TypeError'],
                ('2d', 'rdm'): ['ValueError'], ('2d', 'pattern'): [None],
                ('mixed', 'rdm'): [None], ('mixed', 'pattern'): [None]}


def exotic_model(case, answers):
    e = E()
    if case['kind'] != 'mixed':
        return {'expect': EXPECTED_EXC[(case['kind'], case['axis'])]}
    if not answers:
        return {'exc': 'library raised'}
    outs = []
    for a in answers:
        if isinstance(a, dict) and ('model_error' in a or 'exc' in a):
            return a
        outs.append({'stack': e._canon_stack(a['stack']), 'rdm_idx': a['rdm_idx'], 'pat_idx': a['pat_idx'],
                     'requests': [list(sp) for sp in (a['spec_r'], a['spec_p']) if sp is not None]})
    return {'as_coded': outs[0], 'repaired': outs[1]}


def _all_none_single(case):
    vals = [v for k, v, _ in case['rdm_desc' if case['axis'] == 'rdm' else 'pat_desc'] if k == 'x'][0]
    return len(vals) == 1


def exotic_compare(case, impl, model):
    e = E()
    if isinstance(model, dict) and 'model_error' in model:
        return f'model error {model}'
    if case['kind'] != 'mixed':
        got = impl.get('exc')
        if got not in model['expect'] and not (case['kind'] == 'none' and _all_none_single(case)):
            return (f"{case['kind']} descriptor on the {case['axis']} axis: library "
                    f"{'returned a sample' if got is None else 'raised ' + got}, characterised as {model['expect']}")
        return None
    if 'exc' in impl:
        return f"mixed descriptor: library raised {impl['exc']} ({impl.get('msg')})"
    if 'as_coded' not in model:
        return f'model: {model}'
    diffs = []
    for name in ('as_coded', 'repaired'):
        m = model[name]
        d = None
        for k in ('requests', 'rdm_idx', 'pat_idx'):
            if impl.get(k) != m.get(k):
                d = f'{k}: library {impl.get(k)} != model {m.get(k)}'
                break
        d = d or e._diff_stack('stack', impl['stack'], m['stack'])
        if d is None:
            return None
        diffs.append(f'{name}: {d}')
    return 'mixed descriptor: ' + ' | '.join(diffs)


def exotic_oracle(case):
    """weak property for descriptors outside the quantifier: reject, or no misalignment"""
    r = _memo(case, _exotic_call)
    if 'exc' in r:
        if r['exc'] in ('TypeError', 'ValueError'):
            return None
        return {'what': 'unusual descriptor: the library fails with an unexpected exception',
                'observed': f"{r['exc']}: {r.get('msg')}", 'expected': 'TypeError / ValueError or a sample'}
    sample = r['sample']
    (o, bad) = _origins(case, sample)
    if bad:
        return bad
    o_r, o_c = o
    f = _provenance(case, sample, o_r, o_c)
    if f:
        return f
    for axis, key, by, orig in (('rdm', 'rdm_desc', 'rdm_by', o_r), ('pattern', 'pat_desc', 'pat_by', o_c)):
        gvals = [v for k, v, _ in case[key] if k == (case.get(by) or '')]
        if gvals:
            g = _grouped_together(axis, gvals[0], orig)
            if g:
                return g
    return None


def exotic_features(case, impl):
    br = ['op:exotic', f"exotic:{case['kind']}_{case['axis']}", 'mode:' + case['mode']]
    if impl and 'exc' in impl:
        br.append('exotic:rejected')
    elif impl:
        br.append('exotic:handled')
    f = {'op': 'exotic', 'kind': case['kind'], 'axis': case['axis'], 'n_rdm': case['n_rdm'],
         'n_cond': case['n_cond'], 'branches': sorted(set(br))}
    if impl and 'exc' in impl:
        f['exc'] = impl['exc']
    return f


def exotic_lossy(case, impl, model):
    """mixed rdm axis: does the library show the documented loss (as coded) or the repair?"""
    if case['kind'] != 'mixed' or not impl or 'stack' not in impl or 'as_coded' not in (model or {}):
        return None
    if model['as_coded']['stack'] == model['repaired']['stack']:
        return None
    return 'lossy' if impl['stack'] == model['as_coded']['stack'] else 'repaired'


# =================================================================== dispatch tables

OPS = {
    'session': dict(impl=session_impl, requests=session_requests, model=session_model,
                    compare=session_compare, oracle=session_oracle, features=session_features),
    'testset': dict(impl=testset_impl, requests=testset_requests, model=testset_model,
                    compare=testset_compare, oracle=testset_oracle, features=testset_features),
    'freq_exact': dict(impl=fx_impl, requests=fx_requests, model=fx_model, compare=fx_compare,
                       oracle=fx_oracle,
                       features=lambda case, impl: {'op': 'freq_exact', 'axis': case['axis'],
                                                    'branches': ['op:freq_exact', 'freq_exact:' + case['axis']]
                                                    + (['freq_exact:unbalanced'] if case.get(
                                                        'rdm_by' if case['axis'] == 'rdm' else 'pat_by') == 'grp' else [])}),
    'exotic': dict(impl=exotic_impl, requests=exotic_requests, model=exotic_model,
                   compare=exotic_compare, oracle=exotic_oracle, features=exotic_features),
}
