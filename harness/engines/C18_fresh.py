"""Pristine-process evaluation of the C18 oracle (round 4; pattern of C07_fresh).

Whether the property holds for a case — a single call or a session of calls on the same objects — must not
depend on what the checking process did before (the correspondence phase has already run hundreds of calls
in it: a library-level cache or other module-global state would leak into the verdict and into shrinking,
and a replay would not reproduce in a fresh interpreter).  So the oracle is evaluated in a process image in
which rsatoolbox has been imported but never called: this file, run as a script, is a small server that
imports everything once and then forks one short-lived child per request.

  request  (stdin, one JSON line)   {"case": <session case>}
  answer   (stdout, one JSON line)  {"ok": <oracle result or null>} | {"err": "..."}
"""
import json
import os
import sys


def serve():
    for p in reversed(json.loads(sys.argv[1])):
        if p not in sys.path:
            sys.path.insert(0, p)
    os.environ.setdefault('TQDM_DISABLE', '1')
    import numpy  # noqa: F401
    from engines import C18
    # import (never call) every module the calls use
    import rsatoolbox.simulation.sim  # noqa: F401
    import rsatoolbox.model  # noqa: F401
    import rsatoolbox.rdm.calc  # noqa: F401
    import rsatoolbox.data  # noqa: F401
    import rsatoolbox.util.matrix  # noqa: F401
    out = sys.stdout
    print(json.dumps({'ready': os.path.dirname(rsatoolbox.__file__)}), file=out, flush=True)
    for line in sys.stdin:
        line = line.strip()
        if not line:
            continue
        r, w = os.pipe()
        pid = os.fork()
        if pid == 0:
            os.close(r)
            try:
                res = {'ok': C18.oracle_here(json.loads(line)['case'])}
            except BaseException as exc:  # noqa: BLE001
                res = {'err': f'{type(exc).__name__}: {exc}'[:300]}
            with os.fdopen(w, 'w') as f:
                f.write(json.dumps(res, default=str))
            os._exit(0)
        os.close(w)
        with os.fdopen(r) as f:
            data = f.read()
        os.waitpid(pid, 0)
        print(data if data else json.dumps({'err': 'child died'}), file=out, flush=True)


class Fresh:
    def __init__(self):
        self.proc = None

    def start(self):
        import subprocess
        here = os.path.dirname(os.path.abspath(__file__))
        harness = os.path.dirname(here)
        repo_src = os.path.join(os.environ.get('RSA_REPO', '/repo'), 'src')
        self.proc = subprocess.Popen([sys.executable, '-u', os.path.abspath(__file__),
                                      json.dumps([repo_src, harness])],
                                     stdin=subprocess.PIPE, stdout=subprocess.PIPE, text=True, bufsize=1)
        ready = json.loads(self.proc.stdout.readline())
        if not os.path.realpath(ready['ready']).startswith(os.path.realpath(repo_src)):
            raise RuntimeError(f'pristine process imported rsatoolbox from {ready}')

    def oracle(self, case):
        if self.proc is None or self.proc.poll() is not None:
            self.start()
        self.proc.stdin.write(json.dumps({'case': case}) + '\n')
        self.proc.stdin.flush()
        ans = json.loads(self.proc.stdout.readline())
        if 'err' in ans:
            raise RuntimeError('pristine-process oracle: ' + ans['err'])
        return ans['ok']


if __name__ == '__main__':
    serve()
