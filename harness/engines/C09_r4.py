"""C09 round 4 — multi-step sessions on ONE mutable object (helper of engines/C09.py).

  op = inplace   a stack (and optionally 1-2 models built on RDMs objects carrying the same conditions)
                 goes through a sequence of steps:
                   draw      bootstrap_sample_pattern / bootstrap_sample / bootstrap_sample_rdm or a
                             direct rdms.subsample_pattern(by, value) on the *same* object; with
                             models the returned pattern indices resample every model's prediction
                             (model.predict_rdm(theta), or the persistent model.rdm_obj itself)
                   sort_by   rdms.sort_by(key='alpha' | [values], reindex=...)      (in place)
                   reorder   rdms.reorder(order)                                    (in place)
                   pdesc     rdms.pattern_descriptors[key] = vals / [key][i] = v    (in place)
                   rdesc     rdms.rdm_descriptors[key] = vals                       (in place)
                   write     rdms.dissimilarities[r, k] = x / rebinding the array   (in place)
                   append    rdms.append(other)                                     (in place)
                 With models the order-changing steps are applied to the data *and* to every
                 model.rdm_obj (a user sorting data and model RDMs the same way).

Every draw is judged on its own: the oracle takes a snapshot of the object's *current labelled
content* (public attributes .dissimilarities, .rdm_descriptors, .pattern_descriptors) right before
the draw and demands the property of (snapshot, sample, returned indices) — provenance by the hidden
tags, looked up in the snapshot.  Nothing the object was or did earlier may show.

Model side, two independent routes:
  (a) per draw, `c09.boot` / `c09.resample` / `c09.resample_all` on the snapshot (the as-coded entry
      points; theorems: everything of rounds 1-3 applies to the current content);
  (b) for sessions whose in-place steps are reorder / sort_by / pdesc / write, ONE request
      `c09.session` (Lean `runSession`) from the case's *initial* content and the list of steps — the
      in-place steps are computed by the engine from the case alone (python shadow; `sort_by`'s
      permutation is re-derived here), so library state never enters.  Theorems
      `session_no_hidden_state`, `sample_after_inplace`, `inplace_same_conditions`.
"""
import json
import math
import types

import numpy as np

from rsatoolbox.rdm import RDMs
from rsatoolbox.inference import bootstrap as B

from engines import C09_r3 as R3

TAG = '_tag'


def E():
    from engines import C09
    return C09


# ------------------------------------------------------------------ python shadow (case only)

class Shadow:
    """what the steps of a case do to the labelled content, computed from the case alone"""

    def __init__(self, case):
        e = E()
        self.n = case['n_cond']
        self.vecs = [list(row) for row in case['vecs']]
        self.pat = {k: [e._norm(x) for x in vals] for k, vals, _ in case['pat_desc']}
        self.pat.setdefault('index', list(range(self.n)))
        self.supported = True          # False once a step outside Lean's `InPlace` was met
        self.order_changed = False

    def perm_of(self, st):
        if st['do'] == 'reorder':
            return list(st['order'])
        col = self.pat[st['key']]
        if st['method'] == 'alpha':
            return sorted(range(self.n), key=lambda i: col[i])           # stable
        return [i for x in dict.fromkeys(st['method']) for i, d in enumerate(col) if d == x]

    def apply(self, st):
        """returns the list of model steps (Lean `InPlace`) equivalent to the step"""
        out = []
        if st['do'] in ('reorder', 'sort_by'):
            p = self.perm_of(st)
            if p != list(range(self.n)):
                self.order_changed = True
            m = {}
            k = 0
            for i in range(self.n):
                for j in range(i + 1, self.n):
                    m[(i, j)] = m[(j, i)] = k
                    k += 1
            self.vecs = [[row[m[(p[i], p[j])]] for i in range(self.n) for j in range(i + 1, self.n)]
                         for row in self.vecs]
            self.pat = {key: [col[i] for i in p] for key, col in self.pat.items()}
            out.append({'do': 'reorder', 'order': p})
            if st['do'] == 'sort_by' and st.get('reindex', True):
                self.pat['index'] = list(range(self.n))
                out.append({'do': 'set_pat', 'key': 'index', 'vals': list(range(self.n))})
        elif st['do'] == 'pdesc':
            self.pat[st['key']] = list(st['vals'])
            out.append({'do': 'set_pat', 'key': st['key'], 'vals': list(st['vals'])})
        elif st['do'] == 'write':
            if st['how'] == 'item':
                self.vecs[st['r']][st['k']] = st['val']
                out.append({'do': 'write', 'r': st['r'], 'k': st['k'], 'val': st['val']})
            else:                                   # the row is reversed, the array rebound
                row = self.vecs[st['r']][::-1]
                self.vecs[st['r']] = row
                out += [{'do': 'write', 'r': st['r'], 'k': k, 'val': x} for k, x in enumerate(row)]
        else:
            self.supported = False
        return out


# ------------------------------------------------------------------ running the real library

def _in_place(st, rdms, models):
    targets = [rdms]
    if st.get('target') == 'all':
        targets += [m.rdm_obj for m in models]
    for obj in targets:
        if st['do'] == 'sort_by':
            method = st['method'] if st['method'] == 'alpha' else list(st['method'])
            obj.sort_by(reindex=st.get('reindex', True), **{st['key']: method})
        elif st['do'] == 'reorder':
            obj.reorder(np.array(st['order']) if st.get('container') == 'array' else list(st['order']))
        elif st['do'] == 'pdesc':
            col = obj.pattern_descriptors.get(st['key'])
            if st.get('how') == 'setitem' and isinstance(col, list) and len(col) == len(st['vals']):
                for i, v in enumerate(st['vals']):
                    col[i] = v
            else:
                obj.pattern_descriptors[st['key']] = list(st['vals'])
    if st['do'] == 'rdesc':
        rdms.rdm_descriptors[st['key']] = list(st['vals'])
    elif st['do'] == 'write':
        if st['how'] == 'item':
            rdms.dissimilarities[st['r'], st['k']] = np.nan if st['val'] is None else float(st['val'])
        else:
            arr = rdms.dissimilarities.copy()
            arr[st['r']] = arr[st['r']][::-1].copy()
            rdms.dissimilarities = arr
    elif st['do'] == 'append':
        v = np.array([[np.nan if x is None else float(x) for x in row] for row in st['vecs']], dtype=float)
        other = RDMs(v, dissimilarity_measure='tag', rdm_descriptors={k: list(vals) for k, vals in st['rdm_desc']})
        rdms.append(other)


def _floats(obj):
    return [[None if math.isnan(x) else float(x) for x in row]
            for row in np.asarray(obj.dissimilarities, dtype=float)]


def _draw(case, st, rdms, models):
    e = E()
    rec = {'fn': st['fn'], 'source': e._stack_json(rdms), 'source_vecs': _floats(rdms)}
    rby, pby = case.get('rdm_by'), case.get('pat_by')
    d = st.get('draws', {})
    script = {'both': [d.get('r'), d.get('p')], 'rdm': [d.get('r')], 'pattern': [d.get('p')],
              'direct': None}[st['fn']]
    if 'seed' in d:
        script = None
        np.random.seed(d['seed'])
    try:
        with e.Tap(script) as tap:
            try:
                if st['fn'] == 'pattern':
                    args = [] if pby is None else [pby]
                    sample, pidx = B.bootstrap_sample_pattern(rdms, *args)
                    ridx = None
                elif st['fn'] == 'both':
                    kw = {}
                    if rby is not None:
                        kw['rdm_descriptor'] = rby
                    if pby is not None:
                        kw['pattern_descriptor'] = pby
                    sample, ridx, pidx = B.bootstrap_sample(rdms, **kw)
                elif st['fn'] == 'rdm':
                    args = [] if rby is None else [rby]
                    sample, ridx = B.bootstrap_sample_rdm(rdms, *args)
                    pidx = None
                else:
                    col = list(rdms.pattern_descriptors[pby or 'index'])
                    value = [e._norm(col[i % len(col)]) for i in st['value_pos']]
                    rec['value'] = value
                    arg = value if st.get('value_kind', 'list') == 'list' else \
                        (tuple(value) if st['value_kind'] == 'tuple' else np.array(value))
                    sample, ridx, pidx = rdms.subsample_pattern(pby, arg), None, arg
            finally:
                rec['calls'] = tap.calls
        rec.update(sample=sample, ridx=ridx, pidx=pidx)
        rec['pred_src'], rec['pred_src_vecs'], rec['preds'] = [], [], []
        if pidx is not None:
            for m, model in zip(case.get('models', []), models):
                if m.get('via') == 'rdm_obj':
                    pred = model.rdm_obj                      # the persistent, stateful object
                elif m['cls'] == 'fixed':
                    pred = model.predict_rdm()
                elif m['cls'] == 'select':
                    pred = model.predict_rdm(m['theta'])
                else:
                    pred = model.predict_rdm(np.array(m['theta'], dtype=float))
                if TAG not in pred.rdm_descriptors:           # fresh object of weighted / interp
                    pred.rdm_descriptors[TAG] = [f'r{i}' for i in range(pred.n_rdm)]
                rec['pred_src'].append(e._stack_json(pred))
                rec['pred_src_vecs'].append(_floats(pred))
                rec['preds'].append(pred.subsample_pattern(pby or 'index', pidx))
    except Exception as exc:  # noqa: BLE001
        rec.update(R3._exc(exc))
    return rec


def _call(case):
    e = E()
    res = {'draws': []}
    k = -1
    try:
        rdms = e._build(case)
        models = [R3.MODEL_CLASSES[m['cls']]('m', R3._model_rdms(case, m)) for m in case.get('models', [])]
        np.random.seed(case.get('seed', 12345))
        for k, st in enumerate(case['steps']):
            if st['do'] == 'draw':
                rec = _draw(case, st, rdms, models)
                rec['step'] = k
                res['draws'].append(rec)
                if 'exc' in rec:
                    break
            else:
                _in_place(st, rdms, models)
    except Exception as exc:  # noqa: BLE001
        res.update(R3._exc(exc))
        res['at'] = k
    return res


def _run(case):
    return R3._memo(case, _call)


# ------------------------------------------------------------------ engine callbacks

def _mode(fn):
    return {'pattern': 'pattern', 'both': 'both', 'rdm': 'rdm'}.get(fn)


def impl(case):
    e = E()
    r = _run(case)
    if 'exc' in r:
        return {'exc': r['exc'], 'msg': r.get('msg'), 'at': r.get('at')}
    out = {'draws': []}
    for rec in r['draws']:
        if 'exc' in rec:
            out['draws'].append({'exc': rec['exc'], 'msg': rec.get('msg'), 'step': rec['step']})
            continue
        out['draws'].append({
            'step': rec['step'], 'fn': rec['fn'],
            'stack': e._canon_stack(e._stack_json(rec['sample'])),
            'rdm_idx': e._idx_json(rec['ridx']), 'pat_idx': e._idx_json(rec['pidx']),
            'idx_types': [type(x).__name__ for x in (rec['ridx'], rec['pidx']) if x is not None]
            if rec['fn'] != 'direct' else [],
            'requests': [[c['low'], c['high'], c['size']] for c in rec['calls']],
            'draws': [c['out'] for c in rec['calls']],
            'preds': [e._canon_stack(e._stack_json(p)) for p in rec['preds']]})
    return out


def _layout(case):
    """the requests of a case and what each answers: list of (kind, draw number)"""
    e = E()
    r = _run(case)
    reqs, lay = [], []
    if 'exc' in r:
        return reqs, lay
    pby, rby = case.get('pat_by') or 'index', case.get('rdm_by') or 'index'
    for n, rec in enumerate(r['draws']):
        if 'exc' in rec or 'calls' not in rec:
            continue
        outs = [c['out'] for c in rec['calls']]
        if rec['fn'] == 'direct':
            reqs.append(dict(rec['source'], op='c09.resample', pat_by=pby, value=rec['value']))
        else:
            dr, dp = {'both': (outs + [[], []])[:2], 'rdm': ((outs + [[]])[0], []),
                      'pattern': ([], (outs + [[]])[0])}[rec['fn']]
            reqs.append(dict(rec['source'], op='c09.boot', mode=_mode(rec['fn']), draws_r=dr, draws_p=dp,
                             rdm_by=rby, pat_by=pby))
        lay.append(('draw', n))
        if rec.get('pred_src') and rec.get('pidx') is not None:
            reqs.append({'op': 'c09.resample_all', 'stacks': rec['pred_src'], 'pat_by': pby,
                         'value': e._idx_json(rec['pidx'])})
            lay.append(('preds', n))
    # route (b): the whole session from the initial content of the case
    sh = Shadow(case)
    steps, which = [], []
    draws = {rec['step']: (n, rec) for n, rec in enumerate(r['draws'])}
    for k, st in enumerate(case['steps']):
        if st['do'] != 'draw':
            steps += sh.apply(st)
            if not sh.supported:
                break
        elif st['fn'] == 'pattern' and k in draws and 'calls' in draws[k][1] and 'exc' not in draws[k][1]:
            n, rec = draws[k]
            steps.append({'do': 'draw', 'pat_by': pby, 'draws': (([c['out'] for c in rec['calls']]) + [[]])[0]})
            which.append(n)
    if which and not case.get('models'):
        init = {'n_cond': case['n_cond'], 'vecs': case['vecs'],
                'rdm_desc': [[k, [e._norm(x) for x in v]] for k, v, _ in case['rdm_desc']],
                'pat_desc': [[k, [e._norm(x) for x in v]] for k, v, _ in case['pat_desc']]}
        if not any(k == 'index' for k, _ in init['pat_desc']):
            init['pat_desc'].append(['index', list(range(case['n_cond']))])
        if not any(k == 'index' for k, _ in init['rdm_desc']):
            init['rdm_desc'].append(['index', list(range(case['n_rdm']))])
        reqs.append(dict(init, op='c09.session', steps=steps))
        lay.append(('session', which))
    return reqs, lay


def requests(case):
    return _layout(case)[0]


def model(case, answers):
    e = E()
    _, lay = _layout(case)
    out = {'draws': {}, 'preds': {}, 'session': {}}
    for (kind, n), a in zip(lay, answers):
        if isinstance(a, dict) and 'model_error' in a:
            return a
        if kind == 'draw':
            if 'exc' in a:
                out['draws'][n] = {'exc': a['exc']}
            elif 'rdm_idx' in a:
                out['draws'][n] = {'stack': e._canon_stack(a['stack']), 'rdm_idx': a['rdm_idx'],
                                   'pat_idx': a['pat_idx'],
                                   'requests': [list(sp) for sp in (a['spec_r'], a['spec_p']) if sp is not None]}
            else:
                out['draws'][n] = {'stack': e._canon_stack(a['stack']), 'direct': True}
        elif kind == 'preds':
            out['preds'][n] = [e._canon_stack(b['stack']) if 'stack' in b else b for b in a]
        else:
            for n1, b in zip(n, a):
                out['session'][n1] = {'stack': e._canon_stack(b['stack']), 'pat_idx': b['pat_idx']} \
                    if 'stack' in b else b
    return out


def compare(case, im, mo):
    e = E()
    if isinstance(mo, dict) and 'model_error' in mo:
        return f'model error {mo}'
    if 'exc' in im:
        return f"step {im.get('at')}: library raised {im['exc']} ({im.get('msg')}) in an in-place operation"
    for n, d in enumerate(im['draws']):
        where = f"draw {n} (step {d['step']})"
        m = mo['draws'].get(n)
        if 'exc' in d:
            if not m or m.get('exc') != d['exc']:
                return f"{where}: library raised {d['exc']} ({d.get('msg')}), model {m and m.get('exc')}"
            continue
        if m is None:
            return f'{where}: no model answer'
        if m.get('direct'):
            x = e._diff_stack('stack', d['stack'], m['stack'])
        else:
            x = e._compare_boot(case, d, m)
        if x:
            return f'{where}, sample vs model on the current content: {x}'
        if d['preds'] or n in mo['preds']:
            mp = mo['preds'].get(n)
            if not isinstance(mp, list) or len(mp) != len(d['preds']):
                return f'{where}: predictions library {len(d["preds"])} vs model {mp!r:.80}'
            for k, (a, b) in enumerate(zip(d['preds'], mp)):
                if not isinstance(b, dict) or 'vecs' not in b:
                    return f'{where}: pred[{k}] model {b}'
                x = e._diff_stack(f'pred[{k}]', a, b)
                if x:
                    return f'{where}: {x}'
                # theorem session_aligned: same selection on data and prediction -> the shared
                # columns (hidden tag, grouping descriptor) come out identical, in order
                for col in (TAG, case.get('pat_by') or 'index'):
                    if a['pat_desc'].get(col) != d['stack']['pat_desc'].get(col):
                        return (f'{where}: column {col!r} of resampled prediction {k} '
                                f"{a['pat_desc'].get(col)} != that of the sample {d['stack']['pat_desc'].get(col)}")
        if n in mo['session']:
            s = mo['session'][n]
            if 'stack' not in s:
                return f'{where}: session model {s}'
            if s['pat_idx'] != d['pat_idx']:
                return f"{where}: pat_idx library {d['pat_idx']} != session model {s['pat_idx']}"
            x = e._diff_stack('stack', d['stack'], s['stack'])
            if x:
                return f'{where}, sample vs model run from the initial content through every step: {x}'
    return None


# ------------------------------------------------------------------ oracle (independent)

def _view(snap_tags_r, snap_tags_c, obj):
    """the sample with its hidden tags replaced by the *current position* of the item in the snapshot"""
    rd = {k: list(v) for k, v in obj.rdm_descriptors.items()}
    pd = {k: list(v) for k, v in obj.pattern_descriptors.items()}
    for d, tags, ch in ((rd, snap_tags_r, 'r'), (pd, snap_tags_c, 'c')):
        if TAG not in d:
            return None, {'what': 'descriptor lost in the sample', 'observed': sorted(d), 'expected': TAG}
        new = []
        for t in d[TAG]:
            t = str(t)
            if tags.count(t) != 1:
                return None, {'what': 'sample item that is no item of the object', 'observed': t,
                              'expected': tags}
            new.append(f'{ch}{tags.index(t)}')
        d[TAG] = new
    return types.SimpleNamespace(rdm_descriptors=rd, pattern_descriptors=pd,
                                 dissimilarities=obj.dissimilarities, n_rdm=obj.n_rdm,
                                 n_cond=obj.n_cond), None


def _judge(snap, vecs, obj, ridx, pidx, rdm_by, pat_by, free_value=None):
    """the property on (current content, sample, returned indices)"""
    e = E()
    rd = {k: list(v) for k, v in snap['rdm_desc']}
    pd = {k: list(v) for k, v in snap['pat_desc']}
    if TAG not in rd or TAG not in pd:
        return {'what': 'harness: snapshot without tags', 'observed': [sorted(rd), sorted(pd)], 'expected': TAG}
    tr, tc = [str(x) for x in rd[TAG]], [str(x) for x in pd[TAG]]
    view, bad = _view(tr, tc, obj)
    if bad:
        return bad
    rd[TAG] = [f'r{i}' for i in range(len(tr))]
    pd[TAG] = [f'c{i}' for i in range(len(tc))]
    pc = {'n_cond': snap['n_cond'], 'rdm_desc': [[k, v, 'list'] for k, v in rd.items()],
          'pat_desc': [[k, v, 'list'] for k, v in pd.items()], 'rdm_by': rdm_by, 'pat_by': pat_by}
    if free_value is not None:
        pc.update(by=pat_by, value=free_value)
        return e._check_sample(pc, vecs, view, None, pidx, free=True)
    return e._check_sample(pc, vecs, view, ridx, pidx)


def oracle(case):
    e = E()
    r = _run(case)
    # an in-place operation that raises is not this property's business (the correspondence reports
    # it); the draws made before it are judged as usual
    rby, pby = case.get('rdm_by'), case.get('pat_by')
    for n, rec in enumerate(r['draws']):
        where = f"draw {n} (step {rec['step']}, {rec['fn']}) judged on the object's current content: "
        if 'exc' in rec:
            return {'what': where + 'bootstrap raised on a valid object',
                    'observed': f"{rec['exc']}: {rec.get('msg')}", 'expected': 'a sample',
                    'features': {'exc': rec['exc'], 'step': rec['step']}}
        f = _judge(rec['source'], rec['source_vecs'], rec['sample'], rec['ridx'], rec['pidx'], rby, pby,
                   free_value=rec.get('value') if rec['fn'] == 'direct' else None)
        if f:
            f['what'] = where + f['what']
            f.setdefault('features', {})['step'] = rec['step']
            return f
        want = [str(x) for x in rec['sample'].pattern_descriptors[TAG]]
        for k, (m, src, sv, pred) in enumerate(zip(case.get('models', []), rec['pred_src'],
                                                   rec['pred_src_vecs'], rec['preds'])):
            f = _judge(src, sv, pred, None, rec['pidx'], None, pby,
                       free_value=rec.get('value') if rec['fn'] == 'direct' else None)
            if f:
                f['what'] = where + f"prediction {k} ({m['cls']}, {m.get('via', 'predict')}): " + f['what']
                f.setdefault('features', {})['step'] = rec['step']
                return f
            got = [str(x) for x in pred.pattern_descriptors[TAG]]
            if got != want:
                return {'what': where + f"conditions of resampled prediction {k} ({m['cls']}) are not in the "
                        'order of the sample', 'observed': got, 'expected': want,
                        'features': {'step': rec['step']}}
    return None


# ------------------------------------------------------------------ features

def features(case, im):
    br = ['op:inplace']
    sh = Shadow(case)
    pby, rby = case.get('pat_by') or 'index', case.get('rdm_by') or 'index'
    seen = set()              # what happened since the start, in order of first occurrence
    ops_since = 0             # in-place operations since the last draw
    for st in case['steps']:
        if st['do'] == 'draw':
            br.append('inplace:fn_' + st['fn'])
            pat_axis = st['fn'] in ('pattern', 'direct', 'both') or bool(case.get('models'))
            rdm_axis = st['fn'] in ('rdm', 'both')
            if 'draw' in seen and ops_since:
                br.append('inplace:draw_op_draw')
            # a draw through the object's own subsample_pattern, an order change, such a draw again
            own_sp = st['fn'] in ('pattern', 'direct') or bool(case.get('models'))
            if own_sp and 'order_after_sp' in seen:
                br.append('inplace:order_changed')
                if case.get('models'):
                    br.append('inplace:model_reordered')
            if pat_axis and 'regroup_after_pat' in seen:
                br.append('inplace:regroup')
            if rdm_axis and 'regroup_after_rdm' in seen:
                br.append('inplace:regroup_rdm')
            if rdm_axis and 'append_after_rdm' in seen:
                br.append('inplace:append_between')
            if ops_since >= 2:
                br.append('inplace:multi_op')
            seen.add('draw')
            if own_sp:
                seen.add('sp')
            if pat_axis:
                seen.add('pat')
            if rdm_axis:
                seen.add('rdm')
            ops_since = 0
            continue
        ops_since += 1
        sh.order_changed = False
        sh.apply(st)
        if sh.order_changed and 'sp' in seen:
            seen.add('order_after_sp')
        br.append('inplace:' + st['do'])
        if st['do'] == 'sort_by':
            br.append('inplace:sort_' + ('alpha' if st['method'] == 'alpha' else 'list'))
            if st.get('reindex', True):
                br.append('inplace:reindex')
        if st['do'] == 'write':
            br.append('inplace:write_' + st['how'])
        if st['do'] == 'pdesc' and st['key'] == pby and 'pat' in seen:
            seen.add('regroup_after_pat')
        if st['do'] == 'rdesc' and st['key'] == rby and 'rdm' in seen:
            seen.add('regroup_after_rdm')
        if st['do'] == 'append' and 'rdm' in seen:
            seen.add('append_after_rdm')
    if case.get('models'):
        br.append('inplace:model')
        br += ['inplace:model_' + m.get('via', 'predict') for m in case['models']]
        br += ['inplace:model_' + m['cls'] for m in case['models']]
    elif sh.supported:
        br.append('inplace:from_initial')
    f = {'op': 'inplace', 'n_rdm': case['n_rdm'], 'n_cond': case['n_cond'],
         'n_steps': len(case['steps']), 'branches': sorted(set(br))}
    if im and 'exc' in im:
        f['exc'] = im['exc']
    return f


# ------------------------------------------------------------------ generation

def _fresh_col(rng, old, n):
    e = E()
    kind = 'str' if any(isinstance(x, str) for x in old) else \
        'bool' if old and all(isinstance(x, bool) for x in old) else 'int'
    return e._labels(rng, n, kind, rng.random() < 0.7 or kind == 'bool')


def make_inplace(rng, with_models=None):
    e = E()
    with_models = rng.random() < 0.3 if with_models is None else with_models
    # theme: which axis the session is mostly about (draws and edits that touch the same state)
    theme = 'pattern' if with_models else rng.choice(['pattern'] * 6 + ['rdm'] * 3 + ['mixed'])
    for _ in range(6):
        case = e._make_case(rng, mode='pattern', n_cond=rng.choice([3, 3, 4, 4, 5, 6, 7]),
                            n_rdm=rng.choice([2, 3, 3, 4]) if theme == 'rdm' else None)
        if theme != 'rdm' or case.get('rdm_by') or rng.random() < 0.2:
            break
    case.pop('pred', None)
    case.pop('pred_rdm_desc', None)
    case.pop('mode')
    n, npair = case['n_cond'], case['n_cond'] * (case['n_cond'] - 1) // 2
    pby = case.get('pat_by') or 'index'
    models = []
    if with_models:
        group = [d for d in case['pat_desc'] if d[0] == pby]
        tag = [d for d in case['pat_desc'] if d[0] == TAG]
        for k in range(rng.choice([1, 1, 2])):
            cls = rng.choice(['fixed', 'fixed', 'select', 'weighted', 'interp'])
            nr = rng.randint(1, 3)
            vecs = [[(k + 2) * 100 + 10 * r + rng.randint(0, 9) + p for p in range(npair)] for r in range(nr)]
            pd = [[key, list(vals), e._cont(rng)] for key, vals, _ in group + tag]
            if rng.random() < 0.5:
                pd.append(['feature', [rng.randint(0, 4) for _ in range(n)], e._cont(rng)])
            rng.shuffle(pd)
            rd = [[TAG, [f'r{r}' for r in range(nr)], 'list']]
            if rng.random() < 0.5:
                rd.append(['layer', [f'l{r}' for r in range(nr)], 'list'])
            theta = None
            if cls == 'select':
                theta = rng.randrange(nr)
            elif cls == 'weighted':
                theta = [rng.choice([-2, -1, 0, 1, 1, 2, 3, 0.5]) for _ in range(nr)]
            elif cls == 'interp':
                theta = [rng.choice([-1, 0, 1, 2, 0.25]) for _ in range(nr)]
            models.append({'cls': cls, 'vecs': vecs, 'pat_desc': pd, 'rdm_desc': rd, 'theta': theta,
                           'via': rng.choice(['predict', 'predict', 'rdm_obj'])})
    case.update(op='inplace', models=models, seed=rng.randrange(2 ** 31))
    sh = Shadow(case)
    rdm_cols = {k: list(v) for k, v, _ in case['rdm_desc']}
    n_rdm_now = case['n_rdm']
    counter = [0]

    def draw():
        if models:
            fn = rng.choice(['pattern', 'pattern', 'both', 'direct'])
        elif theme == 'rdm':
            fn = rng.choice(['rdm', 'rdm', 'both', 'both', 'pattern'])
        else:
            fn = rng.choice(['pattern', 'pattern', 'pattern', 'both', 'direct', 'direct', 'rdm'])
        st = {'do': 'draw', 'fn': fn}
        if fn == 'direct':
            st['value_pos'] = [rng.randrange(n) for _ in range(rng.randint(1, n + 1))]
            st['value_kind'] = rng.choice(['list', 'list', 'tuple', 'array'])
        elif rng.random() < 0.5:
            st['draws'] = {'seed': rng.randrange(2 ** 31)}
        else:
            gp = len(set(sh.pat[pby]))
            gr = len(set(rdm_cols.get(case.get('rdm_by') or 'index', range(n_rdm_now))))
            st['draws'] = {'r': [rng.randrange(gr) for _ in range(gr)],
                           'p': [rng.randrange(gp) for _ in range(gp)]}
        return st

    def op():
        nonlocal n_rdm_now
        kinds = ['sort_by'] * 7 + ['reorder'] * 4 + ['pdesc'] * 3
        if theme == 'rdm':
            kinds = ['append'] * 4 + ['rdesc'] * 6 + ['write'] * 2 + ['sort_by'] * 2 + ['reorder']
        elif not models or rng.random() < 0.3:
            kinds += ['write'] * 3 + ['append'] * 2 + ['rdesc']
        kind = rng.choice(kinds)
        target = 'all' if models else 'data'
        shared = [pby, TAG]
        keys = shared if models else list(sh.pat)
        if kind == 'sort_by':
            key = rng.choice(keys)
            if rng.random() < 0.55:
                method = 'alpha'
            else:
                method = list(dict.fromkeys(sh.pat[key]))
                rng.shuffle(method)
            st = {'do': 'sort_by', 'key': key, 'method': method, 'reindex': rng.random() < 0.6,
                  'target': target}
        elif kind == 'reorder':
            order = list(range(n))
            while order == list(range(n)) and n > 1:
                rng.shuffle(order)
            st = {'do': 'reorder', 'order': order, 'container': rng.choice(['list', 'array']), 'target': target}
        elif kind == 'pdesc':
            key = rng.choice([k for k in keys if k != TAG])
            if rng.random() < 0.5:
                vals = list(sh.pat[key])
                rng.shuffle(vals)                       # the same labels on other conditions
            else:
                vals = _fresh_col(rng, sh.pat[key], n)
            st = {'do': 'pdesc', 'key': key, 'vals': vals, 'how': rng.choice(['assign', 'setitem']),
                  'target': target}
        elif kind == 'write':
            counter[0] += 1
            st = {'do': 'write', 'how': rng.choice(['item', 'item', 'rebind']), 'r': rng.randrange(case['n_rdm']),
                  'k': rng.randrange(npair), 'val': rng.choice([70000 + counter[0], 70000 + counter[0], None, 0])}
        elif kind == 'append':
            k = rng.randint(1, 2)
            rd = []
            for key, col in rdm_cols.items():
                if key == TAG:
                    rd.append([key, [f'r{n_rdm_now + i}' for i in range(k)]])
                else:
                    rd.append([key, [rng.choice(col) for _ in range(k)]])
            st = {'do': 'append', 'vecs': [[80000 + 1000 * (n_rdm_now + i) + p for p in range(npair)]
                                           for i in range(k)], 'rdm_desc': rd}
            for key, vals in rd:
                rdm_cols[key] = rdm_cols[key] + vals
            n_rdm_now += k
            rdm_cols['index'] = list(range(n_rdm_now))
        else:
            cands = [k for k in rdm_cols if k not in (TAG, 'index')]
            if not cands:
                return op()
            key = rng.choice(cands)
            if case.get('rdm_by') in cands and rng.random() < 0.75:
                key = case['rdm_by']                     # the grouping itself changes
            vals = list(rdm_cols[key])
            if rng.random() < 0.5:
                rng.shuffle(vals)
            else:
                vals = _fresh_col(rng, vals, len(vals))
            rdm_cols[key] = vals
            st = {'do': 'rdesc', 'key': key, 'vals': vals}
        sh.apply(st)
        return st

    steps = []
    if rng.random() < 0.85:
        steps += [draw() for _ in range(rng.choice([1, 1, 2]))]
    for _ in range(rng.choice([1, 1, 2, 3])):
        steps += [op() for _ in range(rng.choice([1, 1, 1, 2]))]
        steps += [draw() for _ in range(rng.choice([1, 1, 2]))]
    case['steps'] = steps
    return case


def shrink_inplace(case, still_fails):
    """fewer steps (never the last draw), fewer models, plain containers"""
    cur = json.loads(json.dumps(case))

    def attempt(mod):
        nonlocal cur
        c = json.loads(json.dumps(cur))
        try:
            mod(c)
            if still_fails(c):
                cur = c
                return True
        except Exception:  # noqa: BLE001
            pass
        return False
    # cut everything after the first failing draw, then drop single steps from the back
    for cut in range(1, len(cur['steps'])):
        if attempt(lambda c, cut=cut: c.update(steps=c['steps'][:cut])):
            break
    k = len(cur['steps']) - 2
    while k >= 0:
        attempt(lambda c, k=k: c['steps'].pop(k))
        k = min(k, len(cur['steps']) - 1) - 1
    for k in reversed(range(len(cur.get('models', [])))):
        attempt(lambda c, k=k: c['models'].pop(k))
    attempt(lambda c: c.update(form='2d'))
    for key in ('rdm_desc', 'pat_desc'):
        attempt(lambda c, key=key: c.update({key: [[d[0], d[1], 'list'] for d in c[key]]}))
    return cur


OPS = {'inplace': dict(impl=impl, requests=requests, model=model, compare=compare, oracle=oracle,
                       features=features)}
