"""Independent transcription of property C03 (plain loops, exact fractions up to the final
square root), run against the *real* `compare()`.  Used only by the failing-input search
and by --replay.  Nothing here is shared with the Lean model or with the code under test.

Reading of the statement
  * entry (i, j) of compare(x, y) is the chosen measure between x[i] and y[j], by its
    textbook definition; where the definition is 0/0 (a zero or constant vector) nothing
    is demanded of the value;
  * every similarity is symmetric, lies in [-1, 1], is unchanged by a simultaneous
    condition permutation, and does not depend on passing arrays or RDMs objects;
  * an RDM compared with itself gives 1 (squared Bures metric 0) wherever the definition
    itself gives 1: non-zero vector (cosine types), non-constant vector (correlation
    types, tau-b), no ties (tau-a, rho-a) — with ties tau-a/rho-a of a vector with itself
    are 1 − (tie deficit) *by their definition*, which the first sentence fixes;
  * Bures measures are only spoken of for Euclidean-embeddable RDMs;
  * "for any two stacks ... compare() returns the chosen measure between the i-th RDM of the first and
    the j-th of the second stack" holds for every call, also when the same objects were handed to
    compare() before (round 4, `check_session`): each call of a session is judged on a pristine copy of
    the ORIGINAL numbers, a call must leave its inputs bit-identical, and a read-only array is a valid
    input;
  * (round 5) "for every pair of RDMs ... values" includes RDMs of any magnitude: a case may list RDMs
    multiplied by exact powers of two (2^-90 .. 2^+60).  The definition is evaluated in a scale-safe way:
    every vector is divided (exactly, in fractions) by its largest absolute entry before any float is formed
    - all similarities are invariant under that, the squared Bures metric is rebuilt from the two factors -
    so the embeddability test, the 0/0 test and every tolerance are relative to the data.  In addition the
    scale laws are checked on the code itself (claim `scale`): compare() of the scaled stacks equals compare()
    of the listed ones (similarities), resp. 2^e times it (squared Bures metric, common exponent e).
"""
import itertools
import math
from fractions import Fraction as F

import numpy as np


def fr(v):
    return F(v)


def tri_pairs(n):
    return [(i, j) for i in range(n) for j in range(i + 1, n)]


# ---------------------------------------------------------------- definitions

def d_cosine(x, y):
    num = sum(a * b for a, b in zip(x, y))
    d2 = sum(a * a for a in x) * sum(b * b for b in y)
    if d2 == 0:
        return None
    return float(num) / math.sqrt(float(d2))


def centred(x):
    mu = sum(x) / len(x)
    return [a - mu for a in x]


def d_corr(x, y):
    return d_cosine(centred(x), centred(y))


def avg_ranks(x):
    """mean of the 1-based sorted positions occupied by each value's tie group"""
    order = sorted(range(len(x)), key=lambda i: x[i])
    ranks = [None] * len(x)
    k = 0
    while k < len(order):
        e = k
        while e + 1 < len(order) and x[order[e + 1]] == x[order[k]]:
            e += 1
        r = F(sum(range(k + 1, e + 2)), e - k + 1)
        for t in range(k, e + 1):
            ranks[order[t]] = r
        k = e + 1
    return ranks


def expected_ranks(x):
    """E[rank] under uniformly random tie-breaking, by enumerating every consistent order"""
    m = len(x)
    if m > 6:
        return avg_ranks(x)
    tot = [F(0)] * m
    cnt = 0
    for perm in itertools.permutations(range(m)):
        if all(x[perm[k]] <= x[perm[k + 1]] for k in range(m - 1)):
            cnt += 1
            for k, i in enumerate(perm):
                tot[i] += k + 1
    return [t / cnt for t in tot]


def d_spearman(x, y):
    return d_corr(avg_ranks(x), avg_ranks(y))


def d_rho_a(x, y):
    """expected Spearman correlation when ties in x and in y are broken at random
    (independently): Spearman of untied ranks R, S is 12 Σ (R-c)(S-c)/(n³-n), c=(n+1)/2,
    which is linear in R and in S, so the expectation uses E[R], E[S]."""
    m = len(x)
    if m <= 3:
        # tiny vectors: the expectation itself, over all pairs of consistent orders
        vals = []
        for px in itertools.permutations(range(m)):
            if not all(x[px[k]] <= x[px[k + 1]] for k in range(m - 1)):
                continue
            for py in itertools.permutations(range(m)):
                if not all(y[py[k]] <= y[py[k + 1]] for k in range(m - 1)):
                    continue
                rx = [0] * m
                ry = [0] * m
                for k, i in enumerate(px):
                    rx[i] = k + 1
                for k, i in enumerate(py):
                    ry[i] = k + 1
                d2 = sum((a - b) ** 2 for a, b in zip(rx, ry))
                vals.append(1 - F(6 * d2, m ** 3 - m))
        return float(sum(vals) / len(vals))
    c = F(m + 1, 2)
    rx, ry = expected_ranks(x), expected_ranks(y)
    return float(12 * sum((a - c) * (b - c) for a, b in zip(rx, ry)) / (m ** 3 - m))


def pair_counts(x, y):
    con = dis = tx = ty = 0
    m = len(x)
    for i in range(m):
        for j in range(i + 1, m):
            sx = (x[i] > x[j]) - (x[i] < x[j])
            sy = (y[i] > y[j]) - (y[i] < y[j])
            if sx == 0:
                tx += 1
            if sy == 0:
                ty += 1
            if sx * sy > 0:
                con += 1
            elif sx * sy < 0:
                dis += 1
    return con, dis, tx, ty, m * (m - 1) // 2


def d_tau_a(x, y):
    con, dis, _, _, n0 = pair_counts(x, y)
    return float(F(con - dis, n0))


def d_tau_b(x, y):
    con, dis, tx, ty, n0 = pair_counts(x, y)
    den = (n0 - tx) * (n0 - ty)
    if den == 0:
        return None
    return (con - dis) / math.sqrt(den)


def sigma_entry(sig, i, j):
    if sig is None:
        return F(1 if i == j else 0)
    if 'vec' in sig:
        return fr(sig['vec'][i]) if i == j else F(0)
    return fr(sig['mat'][i][j])


def v_matrix(n, sig):
    """covariance of RDM entries: V[(i,j),(k,l)] = (σik − σil − σjk + σjl)²"""
    pr = tri_pairs(n)
    return [[(sigma_entry(sig, i, k) - sigma_entry(sig, i, l) - sigma_entry(sig, j, k)
              + sigma_entry(sig, j, l)) ** 2 for (k, l) in pr] for (i, j) in pr]


def inverse(a):
    m = len(a)
    aug = [list(r) + [F(1 if i == j else 0) for j in range(m)] for i, r in enumerate(a)]
    for c in range(m):
        p = next((r for r in range(c, m) if aug[r][c] != 0), None)
        if p is None:
            return None
        aug[c], aug[p] = aug[p], aug[c]
        pv = aug[c][c]
        aug[c] = [v / pv for v in aug[c]]
        for r in range(m):
            if r != c and aug[r][c] != 0:
                f = aug[r][c]
                aug[r] = [u - f * v for u, v in zip(aug[r], aug[c])]
    return [r[m:] for r in aug]


def d_whitened(x, y, vinv):
    def form(a, b):
        return sum(a[p] * vinv[p][q] * b[q] for p in range(len(a)) for q in range(len(b)))
    q1, q2 = form(x, x), form(y, y)
    if q1 <= 0 or q2 <= 0:
        return None
    return float(form(x, y)) / math.sqrt(float(q1 * q2))


def kernel(n, d):
    """G = −½ H D H with H = I − 11ᵀ/n, as floats"""
    D = [[F(0)] * n for _ in range(n)]
    for k, (i, j) in enumerate(tri_pairs(n)):
        D[i][j] = D[j][i] = d[k]
    H = [[F(1 if i == j else 0) - F(1, n) for j in range(n)] for i in range(n)]
    HD = [[sum(H[i][k] * D[k][j] for k in range(n)) for j in range(n)] for i in range(n)]
    G = [[-sum(HD[i][k] * H[k][j] for k in range(n)) / 2 for j in range(n)] for i in range(n)]
    return np.array([[float(v) for v in r] for r in G])


def psd_sqrt(a):
    w, u = np.linalg.eigh(a)
    return (u * np.sqrt(np.clip(w, 0, None))) @ u.T


def fidelity(a, b):
    """tr √(√A B √A) = nuclear norm of √A √B"""
    return float(np.linalg.svd(psd_sqrt(a) @ psd_sqrt(b), compute_uv=False).sum())



# ---------------------------------------------------------------- scale-safe definitions (round 5)

def rec(n, v, e, method):
    """an RDM vector prepared for the definitions: divided exactly by its largest absolute entry `c`
    (c = 1 for the zero vector); `g` = centred kernel of the normalised vector (Bures only)"""
    c = max((abs(a) for a in v), default=F(0)) or F(1)
    vn = [a / c for a in v]
    return {'v': vn, 'c': c, 'e': e, 'g': kernel(n, vn) if method.startswith('bures') else None}


def embeddable(r):
    g = r['g']
    return not (np.linalg.eigvalsh(g).min() < -1e-9 or np.trace(g) <= 1e-12)


def define_pair(method, a, b, vinv):
    """(value of the definition or None for 0/0, magnitude the absolute tolerance refers to)"""
    x, y = a['v'], b['v']
    if method == 'cosine':
        return d_cosine(x, y), 1.0
    if method == 'corr':
        return d_corr(x, y), 1.0
    if method == 'spearman':
        return d_spearman(x, y), 1.0
    if method in ('kendall', 'tau-b'):
        return d_tau_b(x, y), 1.0
    if method == 'tau-a':
        return d_tau_a(x, y), 1.0
    if method == 'rho-a':
        return d_rho_a(x, y), 1.0
    if method == 'cosine_cov':
        return d_whitened(x, y, vinv), 1.0
    if method == 'corr_cov':
        return d_whitened(centred(x), centred(y), vinv), 1.0
    f = fidelity(a['g'], b['g'])
    ta, tb = float(np.trace(a['g'])), float(np.trace(b['g']))
    if method == 'bures':
        return f / math.sqrt(ta * tb), 1.0
    ca, cb = float(a['c']), float(b['c'])
    mag = ca * ta + cb * tb
    # tolerances of the squared Bures metric are relative to the traces; for RDMs of ordinary size never
    # below the absolute value used before (unit = 2^larger exponent, 1 without scales)
    unit = float(F(2) ** max(a['e'], b['e']))
    return float(mag - 2 * math.sqrt(ca) * math.sqrt(cb) * f), max(unit, mag)


def _exps(case, key, k):
    sc = case.get('scale_of')
    return sc[key][k] if sc else 0

# ---------------------------------------------------------------- the check

def _tol(method, sig, single=False):
    if single:        # a float32 stack: numpy evaluates in single precision
        return 5e-4 if (method in ('corr_cov', 'cosine_cov') and sig is not None) else 1e-4
    if method.startswith('bures'):
        return 1e-4
    if method in ('corr_cov', 'cosine_cov') and sig is not None:
        return 5e-4
    return 1e-7


def _sk(sig):
    if sig is None:
        return 'none'
    if 'vec' in sig:
        return 'vec_const' if len(set(str(v) for v in sig['vec'])) == 1 else 'vec'
    return 'mat'


def _fail(case, claim, what, observed, expected, **extra):
    return {'what': what, 'observed': observed, 'expected': expected,
            'features': dict(claim=claim, method=case['method'], sigma=_sk(case['sigma']), **extra)}


def _eq(a, b, tol, scale=1.0):
    """scale = 1.0 for similarities; for the squared Bures metric the magnitude from `define_pair`
    (already max(unit, traces))"""
    if a is None or b is None:
        return a is None and b is None
    return abs(a - b) <= tol * scale


def check_compare(case, call, permute_vec, permute_sigma):
    method, n, sig = case['method'], case['n'], case['sigma']
    X = [[fr(v) for v in r] for r in case['x']]
    Y = [[fr(v) for v in r] for r in case['y']]
    tol = _tol(method, sig, 'float32' in case.get('dtypes', ()))
    bures = method.startswith('bures')
    RX = [rec(n, v, _exps(case, 'x', i), method) for i, v in enumerate(X)]
    RY = [rec(n, v, _exps(case, 'y', j), method) for j, v in enumerate(Y)]
    if bures and not all(embeddable(r) for r in RX + RY):
        return None           # not Euclidean-embeddable: outside the quantifier
    vinv = None
    if method in ('corr_cov', 'cosine_cov'):
        vinv = inverse(v_matrix(n, sig))
        if vinv is None:
            return None
    want = [[define_pair(method, a, b, vinv) for b in RY] for a in RX]

    M = call(case['x'], case['y'], method, sig, 'array')
    if M == {'exc': 'InputModified'}:
        return _fail(case, 'purity', 'compare() changed the arrays it was given', 'inputs modified',
                     'inputs bit-identical after the call')
    if isinstance(M, dict):
        return _fail(case, 'definition', 'compare() raises on valid input', M, 'a matrix')
    if len(M) != len(X) or any(len(r) != len(Y) for r in M):
        return _fail(case, 'shape', 'result is not (n_rdm1 x n_rdm2)', [len(M), len(M[0]) if M else 0],
                     [len(X), len(Y)])
    # 1. every entry equals the definition between x[i] and y[j]
    for i in range(len(X)):
        for j in range(len(Y)):
            w, scale = want[i][j]
            if w is None:
                continue
            if M[i][j] is None or not _eq(M[i][j], w, tol, scale):
                return _fail(case, 'definition',
                             'an entry (i,j) of compare() is not the chosen measure between RDM i of the first '
                             f'and RDM j of the second stack [{method}, i={i}, j={j}]', M[i][j], w, i=i, j=j)
            # 3. range
            if method != 'bures_metric' and abs(M[i][j]) > 1 + tol:
                return _fail(case, 'range', f'{method}: similarity outside [-1, 1]', M[i][j], '[-1,1]')
            if method == 'bures_metric' and M[i][j] < -tol * scale:
                return _fail(case, 'range', 'squared Bures metric negative', M[i][j], '>= 0')
    # 2. symmetry in the two arguments
    Mt = call(case['y'], case['x'], method, sig, 'array', (1, 0))
    if isinstance(Mt, dict):
        return _fail(case, 'symmetry', 'compare(y, x) raises', Mt, 'a matrix')
    if len(Mt) != len(Y) or any(len(r) != len(X) for r in Mt):
        return _fail(case, 'shape', 'compare(y, x) is not (n_rdm2 x n_rdm1)', [len(Mt), len(Mt[0]) if Mt else 0],
                     [len(Y), len(X)])
    for i in range(len(X)):
        for j in range(len(Y)):
            w, scale = want[i][j]
            if w is None:
                continue
            if not _eq(M[i][j], Mt[j][i], 2 * tol, scale):
                return _fail(case, 'symmetry', f'{method}: compare(x,y)[{i},{j}] != compare(y,x)[{j},{i}]',
                             M[i][j], Mt[j][i])
    # 4. an RDM with itself
    S = call(case['x'], case['x'], method, sig, 'array', (0, 0))
    if isinstance(S, dict):
        return _fail(case, 'self', 'compare(x, x) raises', S, 'a matrix')
    if len(S) != len(X) or any(len(r) != len(X) for r in S):
        return _fail(case, 'shape', 'compare(x, x) is not (n_rdm1 x n_rdm1)', [len(S), len(S[0]) if S else 0],
                     [len(X), len(X)])
    for i, x in enumerate(X):
        w, scale = define_pair(method, RX[i], RX[i], vinv)
        if w is None:
            continue
        nondeg = True
        if method in ('tau-a', 'rho-a'):
            nondeg = len(set(x)) == len(x)
        target = 0.0 if method == 'bures_metric' else 1.0
        if nondeg and (S[i][i] is None or not _eq(S[i][i], target, tol, scale)):
            return _fail(case, 'self', f'{method}: an RDM compared with itself does not give {target}',
                         S[i][i], target)
    # 5. simultaneous condition permutation
    if case.get('perm') is not None:
        perm = case['perm']
        xp = [permute_vec(v, n, perm) for v in case['x']]
        yp = [permute_vec(v, n, perm) for v in case['y']]
        Mp = call(xp, yp, method, permute_sigma(sig, perm), 'array')
        if isinstance(Mp, dict):
            return _fail(case, 'perm', 'compare raises after permuting the conditions', Mp, 'a matrix')
        if len(Mp) != len(X) or any(len(r) != len(Y) for r in Mp):
            return _fail(case, 'shape', 'result after permuting the conditions is not (n_rdm1 x n_rdm2)',
                         [len(Mp), len(Mp[0]) if Mp else 0], [len(X), len(Y)])
        for i in range(len(X)):
            for j in range(len(Y)):
                w, scale = want[i][j]
                if w is None:
                    continue
                if not _eq(M[i][j], Mp[i][j], 2 * tol, scale):
                    return _fail(case, 'perm', f'{method}: value changes when the conditions of both RDMs are '
                                 f'permuted together ({perm})', Mp[i][j], M[i][j])
    # 6. arrays and RDMs objects
    for form in ('rdms', 'mixed', 'array1d', 'rdms_sq'):
        Mr = call(case['x'], case['y'], method, sig, form)
        if isinstance(Mr, dict):
            return _fail(case, 'forms', f'compare raises for input form {form}', Mr, 'a matrix')
        if len(Mr) != len(X) or any(len(r) != len(Y) for r in Mr):
            return _fail(case, 'forms', f'result for input form {form} is not (n_rdm1 x n_rdm2)',
                         [len(Mr), len(Mr[0]) if Mr else 0], [len(X), len(Y)])
        for i in range(len(X)):
            for j in range(len(Y)):
                a, b = M[i][j], Mr[i][j]
                ftol = tol if 'float32' in case.get('dtypes', ()) else 1e-9
                if (a is None) != (b is None) or (a is not None and abs(a - b) > 1e-12 + ftol * max(1.0, abs(a))):
                    if case.get('base') and method == 'bures_metric' and a is not None and b is not None and \
                            abs(a - b) <= (1e-12 + ftol) * want[i][j][1]:
                        continue          # tiny / huge metrics: the bound is relative to the traces
                    return _fail(case, 'forms', f'{method}: arrays and RDMs objects ({form}) give different answers',
                                 b, a)
    # 7. (round 5) the scale laws on the code itself: the listed RDMs times positive factors
    if case.get('base'):
        sc = case['scale_of']
        Mb = call(case['base']['x'], case['base']['y'], method, sig, 'array')
        if isinstance(Mb, dict) or len(Mb) != len(X) or any(len(r) != len(Y) for r in Mb):
            return None           # the unscaled twin is judged when it is generated itself
        es = set(sc['x'] + sc['y'])
        for i in range(len(X)):
            for j in range(len(Y)):
                w, scale = want[i][j]
                if w is None or Mb[i][j] is None:
                    continue
                if method != 'bures_metric':
                    if M[i][j] is None or abs(M[i][j] - Mb[i][j]) > 2 * tol:
                        return _fail(case, 'scale', f'{method}: the similarity changes when the RDMs are multiplied '
                                     f'by positive factors (2^{sc["x"][i]} and 2^{sc["y"][j]})', M[i][j], Mb[i][j],
                                     i=i, j=j)
                elif len(es) == 1:
                    f = float(F(2) ** sc['x'][0])
                    if M[i][j] is None or abs(M[i][j] - f * Mb[i][j]) > 2 * tol * scale:
                        return _fail(case, 'scale', 'bures_metric: multiplying both RDMs by 2^e does not multiply the '
                                     f'squared metric by 2^e (e = {sc["x"][0]})', M[i][j], f * Mb[i][j], i=i, j=j)
    return None


def define_matrix(method, n, sig, X, Y, ex=None, ey=None):
    """matrix of the definitions (None where 0/0; the squared Bures metric as (value, magnitude)), or None
    when the stacks are outside the quantifier.  Scale-safe: see `rec` / `define_pair`."""
    RX = [rec(n, v, ex[i] if ex else 0, method) for i, v in enumerate(X)]
    RY = [rec(n, v, ey[j] if ey else 0, method) for j, v in enumerate(Y)]
    if method.startswith('bures') and not all(embeddable(r) for r in RX + RY):
        return None
    vinv = None
    if method in ('corr_cov', 'cosine_cov'):
        vinv = inverse(v_matrix(n, sig))
        if vinv is None:
            return None
    out = []
    for a in RX:
        row = []
        for b in RY:
            w, mag = define_pair(method, a, b, vinv)
            row.append((w, mag) if method == 'bures_metric' else w)
        out.append(row)
    return out


def check_session(case, run_steps):
    """the same objects through successive compare() calls: every call equals the definition on the
    ORIGINAL numbers, leaves its inputs bit-identical and does not raise (read-only input is valid).
    All calls are judged; a wrong value is reported in preference to an exception, a wrong shape, or a
    modified input (the first of each kind)."""
    n = case['n']
    X = [[fr(v) for v in r] for r in case['x']]          # pristine, exact
    Y = [[fr(v) for v in r] for r in case['y']]
    got = run_steps(case)
    names = [st['method'] for st in case['steps']]
    fails = {}

    def note(kind, f):
        fails.setdefault(kind, f)
    for k, (st, g) in enumerate(zip(case['steps'], got)):
        method, sig = st['method'], st['sigma']
        c = {'method': method, 'sigma': sig}
        extra = dict(call=k, container=case['container'], earlier=names[:k])
        M = g['result']
        if not g['intact']:
            note('purity', _fail(c, 'purity', f"compare(.., '{method}') changed the {case['container']} objects it "
                                 f"was given (call {k} of {names})", 'inputs modified',
                                 'inputs bit-identical after the call', **extra))
        if isinstance(M, dict):
            note('session_raises', _fail(c, 'session_raises', f"compare(.., '{method}') raises on valid input "
                                         f"({case['container']} objects, call {k} of the session {names})", M,
                                         'a matrix', **extra))
            continue
        if len(M) != len(X) or any(len(r) != len(Y) for r in M):
            note('shape', _fail(c, 'shape', 'result is not (n_rdm1 x n_rdm2)', [len(M), len(M[0]) if M else 0],
                                [len(X), len(Y)], **extra))
            continue
        want = define_matrix(method, n, sig, X, Y)
        if want is None:
            continue
        tol = _tol(method, sig)
        for i in range(len(X)):
            for j in range(len(Y)):
                w, scale = want[i][j], 1.0
                if isinstance(w, tuple):
                    w, scale = w
                if w is None:
                    continue
                if M[i][j] is None or not _eq(M[i][j], w, tol, scale):
                    note('session_value', _fail(
                        c, 'session_value',
                        f"call {k} of a session on the same {case['container']} objects ({names}): entry ({i},{j}) "
                        f"of compare(.., '{method}') is not the measure of the RDMs that were passed",
                        M[i][j], w, i=i, j=j, **extra))
    for kind in ('session_value', 'session_raises', 'shape', 'purity'):
        if kind in fails:
            return fails[kind]
    return None

def check_pair_only(case, call):
    """tau-a of two plain vectors against the definition (used for the `passes` kind, whose
    vectors need not have a triangular length)"""
    x, y = [fr(v) for v in case['x'][0]], [fr(v) for v in case['y'][0]]
    got = call(case['x'], case['y'])
    if isinstance(got, dict):
        return _fail(case, 'definition', 'tau-a raises on valid vectors', got, 'a value')
    want = d_tau_a(x, y)
    if got[0][0] is None or abs(got[0][0] - float(want)) > 1e-9:
        return _fail(case, 'definition', 'tau-a differs from (concordant - discordant) / C(n,2)',
                     got[0][0], float(want))
    return None


def check_getv(case, impl):
    want = v_matrix(case['n'], case['sigma'])
    got = [[F(v) for v in r] for r in impl]
    if got != want:
        return {'what': '_get_v is not the covariance of RDM entries derived from sigma_k',
                'observed': impl, 'expected': [[str(v) for v in r] for r in want],
                'features': {'claim': 'getv', 'sigma': _sk(case['sigma'])}}
    return None


def check_ranks(case, impl):
    want = avg_ranks([fr(v) for v in case['x']])
    got = [F(v) for v in impl]
    if got != want:
        return {'what': 'rankdata is not the tie-averaged rank', 'observed': impl,
                'expected': [str(v) for v in want], 'features': {'claim': 'ranks'}}
    return None


KNOWN_METHODS = ('cosine', 'spearman', 'corr', 'kendall', 'tau-b', 'tau-a', 'rho-a', 'corr_cov',
                 'cosine_cov', 'neg_riem_dist', 'bures', 'bures_metric')


def check_reject(case, impl):
    """an unknown method name or stacks over different numbers of conditions must be rejected
    with ValueError, never answered"""
    bad = case['method'] not in KNOWN_METHODS or len(case['x'][0]) != len(case['y'][0])
    if bad and impl != {'exc': 'ValueError'}:
        return {'what': 'compare() does not reject an unknown method / stacks of unequal shape with ValueError',
                'observed': impl, 'expected': {'exc': 'ValueError'},
                'features': {'claim': 'reject', 'method': case['method']}}
    return None
