"""C20 / multi-look-up sessions on ONE BidsLayout (io/bids.py, io/fmriprep.py).

The other sub-engines ask one question of a fresh object.  Here one layout object (and the file /
FmriprepRun objects it hands out) lives through a whole list of calls: trees with *identical file
names* under the raw root, `derivatives/<A>`, `derivatives/<B>` … (several subjects / sessions /
tasks / runs), file objects created directly, by `find_mri_derivative_files` and by
`find_fmriprep_runs`, and then `find_meta_for` / `get_meta` / events / table sibling / MRI sibling /
key look-ups in varying order, repeated, through the layout, the file object or the FmriprepRun,
on the same object or on a second object for the same path, results kept and asked again.

Every file's content is its *path id*, so for every single call both the file found (path) and
what was read from it (parsed json / table / image content) are observable.  Each call is judged
on its own: against the Lean model (`c20.session`, the code's state machine as written), against
an independent expectation (entities of the file asked about, formatted by `C20_bids.fmt`) and
against the same call on a fresh layout with a fresh object."""
import hashlib
import itertools
import json
import os
import shutil
import tempfile
from engines.C20_bids import fmt, label

DERIVS = ['fmriprep', 'denoise', 'smooth', 'my-pipe']
TASKS = ['rest', 'main', 'loc']
META = ('find_meta', 'get_meta')
_TMP = None


def tmpdir():
    global _TMP
    if _TMP is None:
        _TMP = tempfile.mkdtemp(prefix='c20sess')
        import atexit
        atexit.register(shutil.rmtree, _TMP, True)
    return _TMP


# ------------------------------------------------------------------ the tree

def base_ent(rec, root):
    return {'derivative': root, 'sub': rec['sub'], 'ses': rec['ses'], 'task': rec['task'],
            'run': rec['run'], 'space': rec['space'], 'desc': 'preproc', 'modality': 'func',
            'suffix': 'bold', 'ext': 'nii.gz'}


CHANGES = {
    'find_meta': lambda st: {'ext': 'json'},
    'get_meta': lambda st: {'ext': 'json'},
    'find_events': lambda st: {'derivative': None, 'space': None, 'desc': None, 'suffix': 'events',
                               'ext': 'tsv'},
    'table_sibling': lambda st: {'desc': st['desc'], 'suffix': st['suffix'], 'ext': 'tsv', 'space': None},
    'mri_sibling': lambda st: {'desc': st['desc'], 'suffix': st['suffix']},
}
CLS = {'find_meta': 'json', 'get_meta': 'json', 'find_events': 'table', 'table_sibling': 'table',
       'mri_sibling': 'mri', 'table_key': 'table'}


def key_path(ent):
    pre = ['derivatives', ent['derivative']] if ent['derivative'] else []
    return '/'.join(pre + [f"desc-{ent['desc']}_{ent['suffix']}.tsv"])


def tree_files(case):
    """{relpath: (kind, entities)} of everything the tree may contain"""
    files = {}
    for rec in case['recs']:
        for root in case['roots']:
            e = base_ent(rec, root)
            files[fmt(e)] = ('mri', e)
            for k, chg in (('json', {'ext': 'json'}),
                           ('table', {'desc': 'confounds', 'suffix': 'timeseries', 'ext': 'tsv', 'space': None}),
                           ('mri', {'desc': 'brain', 'suffix': 'mask'}),
                           ('mri', {'desc': 'aparcaseg', 'suffix': 'dseg'}),
                           ('json', {'desc': 'brain', 'suffix': 'mask', 'ext': 'json'}),
                           ('table', CHANGES['find_events'](None))):
                e2 = dict(e, **chg)
                files[fmt(e2)] = (k, e2)
            files[key_path(e)] = ('table', None)
    return files


def on_disk(case):
    gone = set(case.get('absent') or [])
    return sorted(p for p in tree_files(case) if p not in gone)


def pids(case):
    return {p: i for i, p in enumerate(on_disk(case))}


def build(case):
    tag = hashlib.sha1(json.dumps([case['roots'], case['recs'], case.get('absent')],
                                  sort_keys=True).encode()).hexdigest()[:12]
    root = os.path.join(tmpdir(), tag)
    if os.path.isdir(root):
        return root
    kinds = tree_files(case)
    for p, pid in pids(case).items():
        full = os.path.join(root, p)
        os.makedirs(os.path.dirname(full), exist_ok=True)
        with open(full, 'w') as fh:
            if kinds[p][0] == 'json':
                json.dump({'id': pid, 'RepetitionTime': 0.5 + pid / 8}, fh)
            elif kinds[p][0] == 'table':
                fh.write('id\tonset\tduration\ttrial_type\tindex\tname\n')
                fh.write(f'{pid}\t0\t1\tp{pid}\t{pid}\tL{pid}\n')
    os.makedirs(root, exist_ok=True)
    return root


class _Nib:
    """stand-in for nibabel: an image's data is its path id"""
    def __init__(self, root, case):
        self.root, self.pids = root, pids(case)

    def load(self, fpath):
        import numpy as np
        rel = os.path.relpath(fpath, self.root).replace(os.sep, '/')
        if not os.path.exists(fpath):
            raise FileNotFoundError(fpath)
        arr = np.full((2, 1, 1), float(self.pids[rel]))

        class Img:
            def get_fdata(self_inner):
                return arr
        return Img()


# ------------------------------------------------------------------ running a session on the real code

def _read(obj):
    """content id of a file object handed out by the layout"""
    from rsatoolbox.io.bids import BidsJsonFile, BidsTableFile
    if isinstance(obj, BidsJsonFile):
        return int(obj.get_data()['id'])
    if isinstance(obj, BidsTableFile):
        return int(obj.get_frame()['id'][0])
    return int(obj.get_data().ravel()[0])


def _file_answer(obj):
    try:
        return {'path': obj.relpath.replace(os.sep, '/'), 'data': _read(obj)}
    except FileNotFoundError:
        return {'path': obj.relpath.replace(os.sep, '/'), 'data': None}


def _make(cls, path, layout, nib):
    import rsatoolbox.io.bids as rb
    if cls == 'mri':
        return rb.BidsMriFile(path, layout, nib)
    return {'file': rb.BidsFile, 'table': rb.BidsTableFile, 'json': rb.BidsJsonFile}[cls](path, layout)


class _Sess:
    def __init__(self, case):
        import rsatoolbox.io.bids as rb
        self.case, self.root = case, build(case)
        self.nib = _Nib(self.root, case)
        self.layout = rb.BidsLayout(self.root, self.nib)
        self.path_of = {i: p for p, i in pids(case).items()}
        self.objs, self.runs = [], {}

    def run_of(self, h):
        from rsatoolbox.io.fmriprep import FmriprepRun
        if h not in self.runs:
            self.runs[h] = FmriprepRun(self.objs[h])
        return self.runs[h]

    def by_content(self, fn):
        """an accessor that returns content only: the file is identified by what was read"""
        try:
            pid = int(fn())
        except FileNotFoundError:
            return {'path': None, 'data': None}
        return {'path': self.path_of.get(pid), 'data': pid}

    def step(self, st):
        import rsatoolbox.io.bids as rb
        from rsatoolbox.io.fmriprep import find_fmriprep_runs
        op = st['op']
        if op == 'new_file':
            lay = self.layout if st.get('on') is None else self.objs[st['on']].layout
            self.objs.append(_make(st['cls'], st['path'], lay, self.nib))
            return {'files': [st['path']]}
        if op == 'find_files':
            saved = rb.import_nibabel
            rb.import_nibabel = lambda mock=None: self.nib
            try:
                if st.get('fmriprep_runs'):
                    runs = find_fmriprep_runs(self.root, tasks=st['tasks'])
                    found = [r.boldFile for r in runs]
                    for r in runs:
                        self.runs[len(self.objs) + runs.index(r)] = r
                else:
                    found = self.layout.find_mri_derivative_files(st['derivative'], st['desc'], st['tasks'])
            finally:
                rb.import_nibabel = saved
            self.objs += found
            return {'files': [f.relpath.replace(os.sep, '/') for f in found]}
        f, via = self.objs[st['h']], st['via']
        lay = f.layout
        if op == 'find_meta':
            res = lay.find_meta_for(f)
        elif op == 'get_meta':
            def side():
                # the sidecar object the file keeps; if there is none the file read is
                # identified by its content
                m = getattr(f, '_meta', None)
                return m.relpath.replace(os.sep, '/') if m is not None else None
            try:
                d = (self.run_of(st['h']) if via == 'run' else f).get_meta()
                ans = {'path': side() or self.path_of.get(int(d['id'])), 'data': int(d['id'])}
            except FileNotFoundError:
                ans = {'path': side(), 'data': None}
            if st.get('keep'):
                self.objs.append(f._meta if getattr(f, '_meta', None) is not None
                                 else f.layout.find_meta_for(f))
            return ans
        elif op == 'find_events':
            if via == 'layout':
                res = lay.find_events_for(f)
            else:
                src = self.run_of(st['h']) if via == 'run' else f
                return self.by_content(lambda: src.get_events()['id'][0])
        elif op == 'table_sibling':
            if via == 'run':
                return self.by_content(lambda: self.run_of(st['h']).get_confounds(['id'])['id'][0])
            res = lay.find_table_sibling_of(f, st['desc'], st['suffix']) if via == 'layout' \
                else f.get_table_sibling(st['desc'], st['suffix'])
        elif op == 'mri_sibling':
            if via == 'run':
                return self.by_content(lambda: self.run_of(st['h']).get_parcellation().ravel()[0])
            res = lay.find_mri_sibling_of(f, st['desc'], st['suffix']) if via == 'layout' \
                else f.get_mri_sibling(st['desc'], st['suffix'])
        elif op == 'table_key':
            res = lay.find_table_key_for(f) if via == 'layout' else f.get_key()
        else:
            raise ValueError(op)
        if st.get('keep'):
            self.objs.append(res)
        return _file_answer(res)


def _safe_step(sess, st):
    try:
        return sess.step(st)
    except Exception as exc:  # noqa: BLE001
        return {'exc': type(exc).__name__}


def impl(case):
    sess = _Sess(case)
    return [_safe_step(sess, st) for st in case['steps']]


def content_only(st):
    """accessors that return what they read, not the file object"""
    return (st['op'] == 'find_events' and st['via'] in ('run', 'file')) or \
           (st['op'] in ('table_sibling', 'mri_sibling') and st['via'] == 'run')


# ------------------------------------------------------------------ the model side

def requests(case):
    steps, ents = [], _entities(case)
    for k, st in enumerate(case['steps']):
        if st['op'] == 'new_file':
            steps.append({'op': 'new_file', 'path': st['path']})
        elif st['op'] == 'find_files':
            steps.append({'op': 'find_files', 'derivative': st['derivative'], 'desc': st['desc'],
                          'tasks': st['tasks']})
        else:
            d = {'op': st['op'], 'h': st['h']}
            if 'desc' in st:
                d.update(desc=st['desc'], suffix=st['suffix'])
            steps.append(d)
            if st.get('keep'):
                # the object handed out becomes a file object of its own
                steps.append({'op': 'new_file', 'path': ents['kept'][k]})
    return [{'op': 'c20.session', 'files': on_disk(case), 'steps': steps}]


def result(case, answers):
    a = answers[0]
    if not isinstance(a, list):
        return a
    out, i = [], 0
    for st in case['steps']:
        r = a[i]
        i += 2 if st.get('keep') else 1
        if 'path' in r and r['data'] is None and 'via' in st and content_only(st):
            r = {'path': None, 'data': None}      # content-only accessor, nothing read
        out.append(r)
    return out


# ------------------------------------------------------------------ independent expectation

def _entities(case):
    """entities of every handle, expected answers per step (from the naming rules alone)"""
    tf, disk = tree_files(case), pids(case)
    handles, expect, kept = [], [], {}
    for k, st in enumerate(case['steps']):
        op = st['op']
        if op == 'new_file':
            handles.append(tf[st['path']][1])
            expect.append({'files': [st['path']]})
            continue
        if op == 'find_files':
            pre = f"derivatives/{st['derivative']}/"
            if not any(p.startswith(pre) for p in disk):
                expect.append({'exc': 'ValueError'})
                continue
            c = sorted(p for p in disk if p.startswith(pre) and p.rsplit('/', 1)[-1].startswith('sub-')
                       and f"desc-{st['desc']}" in p and not p.endswith('.json'))
            if st['tasks'] is not None:
                c = [p for t in st['tasks'] for p in c if f'task-{t}' in p]
            handles += [tf[p][1] for p in c]
            expect.append({'files': c})
            continue
        e = handles[st['h']]
        if op == 'table_key':
            e2, path = None, key_path(e)
        else:
            e2 = dict(e, **CHANGES[op](st))
            path = fmt(e2)
        data = disk.get(path)
        expect.append({'path': None if (content_only(st) and data is None) else path, 'data': data})
        if st.get('keep'):
            handles.append(e2)
            kept[k] = path
    return {'handles': handles, 'expect': expect, 'kept': kept}


def fresh_answer(case, k):
    """the k-th call alone: a fresh layout, a fresh object for the same file, nothing asked before"""
    st = case['steps'][k]
    if st['op'] in ('new_file', 'find_files'):
        return None
    exp = _entities(case)
    ent = exp['handles'][st['h']]
    if ent is None:
        return None
    sess = _Sess(case)
    try:
        base = _make(_handle_classes(case)[st['h']], fmt(ent), sess.layout, sess.nib)
    except Exception as exc:  # noqa: BLE001
        return {'exc': type(exc).__name__}
    sess.objs = [base]
    return _safe_step(sess, dict(st, h=0, keep=False))


def _handle_classes(case):
    exp_files = None
    out = []
    for k, st in enumerate(case['steps']):
        if st['op'] == 'new_file':
            out.append(st['cls'])
        elif st['op'] == 'find_files':
            if exp_files is None:
                exp_files = _entities(case)['expect']
            out += ['mri'] * len(exp_files[k].get('files', []))
        elif st.get('keep'):
            out.append(CLS[st['op']])
    return out


def oracle(case):
    """every look-up of the session, judged on its own: the file found is the file of the entities
    asked about with only the look-up's own entities changed, what was read is that file's
    content, and the answer equals the same call on a fresh layout"""
    out = impl(case)
    exp = _entities(case)
    feats_ = {'session_steps': len(case['steps']), 'session_roots': len(case['roots'])}
    seen_meta = []
    for k, (st, got, want) in enumerate(zip(case['steps'], out, exp['expect'])):
        if got != want:
            fresh = fresh_answer(case, k)
            state = fresh is not None and fresh == want
            what = (f"step {k} ({st['op']}" + (f" via {st['via']}" if 'via' in st else '') + ') ')
            if 'path' in want and isinstance(got, dict) and got.get('path') != want['path']:
                what += 'found a file whose entities differ from the file asked about in more than ' \
                        'the look-up changes'
            elif 'path' in want:
                what += 'delivered content that is not the content of the file found for the file asked about'
            else:
                what += 'did not return the files of the tree'
            if state:
                what += ' — the same call on a fresh layout is right: the answer depends on earlier look-ups'
            return {'what': what, 'observed': got, 'expected': want, 'step': k, 'fresh_layout': fresh,
                    'asked_about': (fmt(exp['handles'][st['h']]) if 'h' in st and exp['handles'][st['h']] else None),
                    'features': dict(feats_, session_state_dependent=state, session_op=st['op'])}
    return None


# ------------------------------------------------------------------ generation

def _rec(rng, sub, ses, k):
    return {'sub': sub, 'ses': ses, 'task': rng.choice(TASKS) if rng.random() < 0.7 else None,
            'run': str(1 + k) if rng.random() < 0.6 else None,
            'space': rng.choice(['MNI152', 'T1w']) if rng.random() < 0.5 else None}


def near_recs(rng):
    """entity records that differ from one base record in exactly one entity"""
    base = {'sub': '01', 'ses': '01', 'task': 'rest', 'run': '1', 'space': 'T1w'}
    alt = {'sub': '02', 'ses': '02', 'task': 'main', 'run': '2', 'space': 'MNI152'}
    recs = [base] + [dict(base, **{k: alt[k]}) for k in ('sub', 'ses', 'task', 'run', 'space')]
    if rng.random() < 0.5:
        recs += [dict(base, ses=None), dict(base, task=None), dict(base, run=None)]
    rng.shuffle(recs)
    return recs


def _lookup(rng, h, cls='mri', from_search=False, op=None, via=None):
    op = op or rng.choice(['find_meta', 'get_meta', 'get_meta', 'get_meta', 'find_events',
                           'table_sibling', 'mri_sibling', 'table_key'])
    vias = ['layout', 'file'] + (['run'] if cls == 'mri' and op != 'table_key' and op != 'find_meta' else [])
    if op == 'find_meta':
        vias = ['layout']
    if op == 'get_meta':
        vias = ['file'] + (['run'] if cls == 'mri' else [])
    if cls != 'mri' and op in ('find_events', 'mri_sibling', 'table_key'):
        vias = ['layout']
    st = {'op': op, 'h': h, 'via': via if via in vias else rng.choice(vias)}
    if op == 'table_sibling':
        st.update(desc='confounds', suffix='timeseries')
    if op == 'mri_sibling':
        if st['via'] == 'run':
            st.update(desc='aparcaseg', suffix='dseg')
        else:
            st.update(rng.choice([dict(desc='brain', suffix='mask'), dict(desc='aparcaseg', suffix='dseg')]))
    return st


def session_case(rng, roots, recs, n_look, plan=None, absent_p=0.0, second_obj=True, search=None,
                 nonmri=False, keep=False):
    case = {'kind': 'session', 'roots': roots, 'recs': recs, 'absent': [], 'steps': []}
    tf = tree_files(case)
    if absent_p:
        js = sorted(p for p, (k, _) in tf.items() if k == 'json')
        case['absent'] = sorted(p for p in js if rng.random() < absent_p) or [rng.choice(js)]
    steps, classes = [], []
    bolds = [fmt(base_ent(r, d)) for r in recs for d in roots]
    rng.shuffle(bolds)
    for p in bolds:
        steps.append({'op': 'new_file', 'cls': 'mri', 'path': p, 'on': None})
        classes.append('mri')
    if second_obj:
        p = rng.choice(bolds)
        steps.append({'op': 'new_file', 'cls': 'mri', 'path': p, 'on': None})
        classes.append('mri')
    if nonmri:
        for cls, chg in (('file', {}), ('table', {'desc': 'confounds', 'suffix': 'timeseries', 'ext': 'tsv',
                                                  'space': None}), ('json', {'ext': 'json'})):
            r, d = rng.choice(recs), rng.choice(roots)
            steps.append({'op': 'new_file', 'cls': cls, 'path': fmt(dict(base_ent(r, d), **chg)), 'on': None})
            classes.append(cls)
    disk = set(on_disk(case))
    for s in (search or []):
        tasks = 'rand'
        if isinstance(s, tuple):
            s, tasks = s
        if s == 'fmriprep_runs':
            st = {'op': 'find_files', 'derivative': 'fmriprep', 'desc': 'preproc_bold', 'fmriprep_runs': True,
                  'tasks': rng.choice([None, None, [rng.choice(TASKS)]]) if tasks == 'rand' else tasks}
        else:
            st = {'op': 'find_files', 'derivative': s, 'desc': rng.choice(['preproc', 'preproc_bold', 'brain']),
                  'tasks': rng.choice([None, None, rng.sample(TASKS, 2), []]) if tasks == 'rand' else tasks}
        steps.append(st)
        pre = f"derivatives/{st['derivative']}/"
        c = sorted(p for p in disk if p.startswith(pre) and p.rsplit('/', 1)[-1].startswith('sub-')
                   and f"desc-{st['desc']}" in p and not p.endswith('.json'))
        if st['tasks'] is not None:
            c = [p for t in st['tasks'] for p in c if f'task-{t}' in p]
        classes += ['mri'] * len(c)
        if s == 'fmriprep_runs' and c and (tasks != 'rand' or rng.random() < 0.7):
            # a raw file object living on the layout that find_fmriprep_runs made
            r = rng.choice(recs)
            steps.append({'op': 'new_file', 'cls': 'mri', 'path': fmt(base_ent(r, roots[0])),
                          'on': len(classes) - 1})
            classes.append('mri')
    if plan is not None:
        for h, op, *via in plan:
            if h < len(classes):
                steps.append(_lookup(rng, h, classes[h], op=op, via=via[0] if via else None))
    kept_any = False
    for _ in range(n_look):
        h = rng.randrange(len(classes))
        st = _lookup(rng, h, classes[h])
        if keep and (rng.random() < 0.3 or not kept_any) and st['via'] != 'run' and \
                not (st['op'] == 'find_events' and st['via'] == 'file') and st['op'] != 'table_key':
            kept_any = True
            st['keep'] = True
            classes.append(CLS[st['op']])
        steps.append(st)
    case['steps'] = steps
    return case


def gen(rng, tier):
    k = 1 if tier == 'quick' else 12
    sub = label(rng).replace('.', '')
    one = [{'sub': '01', 'ses': None, 'task': 'rest', 'run': None, 'space': None}]
    # directed skeleton: one file name under raw, derivatives/A, derivatives/B; the sidecar of each
    # asked in every order on ONE layout (3 handles created in shuffled order, so the plan is
    # expressed by handle and every root comes first in some case)
    for perm in itertools.permutations(range(3)):
        yield session_case(rng, [None, 'denoise', 'smooth'], one, 0,
                           plan=[(h, 'get_meta') for h in perm] + [(h, 'find_meta') for h in perm],
                           second_obj=False)
    yield session_case(rng, [None, 'fmriprep', 'smooth'], one, 6, plan=[
        (0, 'find_meta'), (1, 'find_meta'), (2, 'find_meta'), (0, 'get_meta'), (0, 'get_meta'), (3, 'get_meta'),
        (0, 'find_events', 'run'), (1, 'find_events', 'file'), (2, 'find_events', 'layout'),
        (0, 'table_sibling', 'layout'), (1, 'table_sibling', 'file'), (2, 'table_sibling', 'run'),
        (2, 'mri_sibling', 'layout'), (1, 'mri_sibling', 'run'), (0, 'mri_sibling', 'file'),
        (0, 'table_key', 'layout'), (1, 'table_key', 'file'), (2, 'get_meta', 'run')])
    two_sub = [_rec(rng, s, ses, i) for i, (s, ses) in
               enumerate([('01', '01'), ('01', '02'), ('q7' + sub, None)])]
    every = [(h, 'get_meta') for h in range(9)]
    yield session_case(rng, [None, 'fmriprep', 'denoise'], two_sub, 12, plan=every,
                       search=[('fmriprep_runs', None), ('denoise', None), ('denoise', [])])
    yield session_case(rng, [None, 'fmriprep', 'smooth'], two_sub, 12, plan=every[::-1],
                       search=['fmriprep', 'smooth', 'fmriprep'], absent_p=0.3)
    yield session_case(rng, ['fmriprep', 'my-pipe'], two_sub[:2], 16, nonmri=True, keep=True)
    yield session_case(rng, [None, 'denoise'], one, 10, search=['nothere'], keep=True)
    # records that differ in exactly one entity, every accessor of every run object
    nr = near_recs(rng)
    for ops in (('find_events', 'get_meta'), ('table_sibling', 'mri_sibling')):
        yield session_case(rng, ['fmriprep', None], nr, 4, second_obj=False, search=[('fmriprep_runs', None)],
                           plan=[(h, op, 'run') for op in ops for h in range(3 * len(nr) + 1)])
    for _ in range(24 * k):
        roots = [None] * (rng.random() < 0.8) + rng.sample(DERIVS, rng.randint(1, 3))
        subs = [label(rng).replace('.', '') or 'x' for _ in range(rng.randint(1, 2))]
        recs, seen = [], set()
        pool = near_recs(rng) if rng.random() < 0.3 else None
        for i in range(rng.randint(1, 3)):
            r = pool[i] if pool else _rec(rng, rng.choice(subs), rng.choice([None, '01', '02']), i)
            key = fmt(base_ent(r, None))
            if key not in seen:
                seen.add(key)
                recs.append(r)
        search = [rng.choice([d for d in roots if d] + ['fmriprep_runs' if 'fmriprep' in roots else roots[-1]])
                  for _ in range(rng.randint(0, 2))]
        yield session_case(rng, roots, recs, rng.randint(6, 18), absent_p=rng.choice([0, 0, 0.2]),
                           second_obj=rng.random() < 0.5, search=search, nonmri=rng.random() < 0.25,
                           keep=rng.random() < 0.4)


def shrink(case, still_fails):
    """drop look-ups that are not needed (handle-creating calls stay, so indices stay valid)"""
    best = case
    changed = True
    while changed:
        changed = False
        for i in range(len(best['steps']) - 1, -1, -1):
            st = best['steps'][i]
            if st['op'] in ('new_file', 'find_files') or st.get('keep'):
                continue
            c = dict(best, steps=best['steps'][:i] + best['steps'][i + 1:])
            if still_fails(c):
                best, changed = c, True
    return best


# ------------------------------------------------------------------ features

def feats(case, impl_res):
    b = ['session:run']
    exp = _entities(case)
    if len(case['roots']) >= 3:
        b.append('session:roots3')
    if None in case['roots'] and len(case['roots']) >= 2:
        b.append('session:raw_and_derivative')
    if case.get('absent'):
        b.append('session:absent_sidecar')
    if len({r['sub'] for r in case['recs']}) > 1:
        b.append('session:multi_sub')
    if len({r['ses'] for r in case['recs'] if r['ses']}) > 1:
        b.append('session:multi_ses')
    searches = [s for s in case['steps'] if s['op'] == 'find_files']
    if len(searches) >= 2:
        b.append('session:search_twice')
    if any(s.get('fmriprep_runs') for s in searches):
        b.append('session:fmriprep_runs')
    if any(s['tasks'] == [] for s in searches):
        b.append('session:empty_task_list')
    if any(s['op'] == 'new_file' and s.get('on') is not None for s in case['steps']):
        b.append('session:second_layout')
    if any(s['op'] == 'new_file' and s['cls'] != 'mri' for s in case['steps']):
        b.append('session:nonmri_base')
    if any(s.get('keep') for s in case['steps']):
        b.append('session:keep_chain')
    paths = [s['path'] for s in case['steps'] if s['op'] == 'new_file']
    if len(paths) != len(set(paths)):
        b.append('session:two_objs_same_path')
    asked = {}          # op group -> list of (basename, root, handle) in call order
    for st in case['steps']:
        if 'h' not in st:
            continue
        b.append('session:via_' + st['via'])
        e = exp['handles'][st['h']]
        if e is None:
            continue
        grp = 'meta' if st['op'] in META else st['op']
        name = fmt(e).rsplit('/', 1)[-1]
        prev = asked.setdefault(grp, [])
        for (n2, root2, h2, sub2, ses2, e_prev) in prev:
            dif = [q for q in ('sub', 'ses', 'task', 'run', 'space') if e_prev[q] != e[q]]
            if len(dif) == 1 and root2 == e['derivative']:
                b.append('session:differ_only_' + dif[0])
            if n2 == name and root2 != e['derivative']:
                b.append('session:meta_cross_root' if grp == 'meta' else 'session:lookup_cross_root')
                if grp == 'meta':
                    b.append('session:meta_first_raw' if root2 is None else 'session:meta_first_derivative')
            if grp == 'meta' and h2 == st['h']:
                b.append('session:repeat_same_obj')
            if grp == 'meta' and sub2 != e['sub']:
                b.append('session:meta_cross_sub')
            if grp == 'meta' and sub2 == e['sub'] and ses2 != e['ses']:
                b.append('session:meta_cross_ses')
        prev.append((name, e['derivative'], st['h'], e['sub'], e['ses'], e))
    return {'kind': 'session', 'session_steps': len(case['steps']), 'session_roots': len(case['roots']),
            'branches': sorted(set(b))}


BRANCHES = ['session:run', 'session:roots3', 'session:raw_and_derivative', 'session:absent_sidecar',
            'session:multi_sub', 'session:multi_ses', 'session:search_twice', 'session:fmriprep_runs', 'session:empty_task_list',
            'session:second_layout', 'session:nonmri_base', 'session:keep_chain',
            'session:two_objs_same_path', 'session:via_layout', 'session:via_file', 'session:via_run',
            'session:meta_cross_root', 'session:lookup_cross_root', 'session:meta_first_raw',
            'session:meta_first_derivative', 'session:repeat_same_obj', 'session:meta_cross_sub',
            'session:meta_cross_ses'] + ['session:differ_only_' + q for q in ('sub', 'ses', 'task', 'run', 'space')]
